#!/usr/bin/env python3
"""C09 -- directive scope, inclusion, affixes, namespaces and aliases follow the Standards.

proof:   Properties_C09.v (interp_impl P t vs interp_spec t by nested induction on the
         include tree; alias resolution; affix nesting; reference rule), instantiated
         with coq/Gen/ScopeParams.v (code_params) regenerated from /repo/src.
tie:     translate/tr_scope.py (decision points of _GD_ParseDirective/_GD_Include/...)
         + three-way correspondence on generated include trees written to disk:
         gd_open on the freshly built library (harness/C09/scope.c) vs the extracted
         interp_impl code_params vs the extracted interp_spec.
search:  every tree is judged against interp_spec (dirfile-format.5); a disagreement of
         the library with the Standards is a failing input (replay = the tree and its
         format files), attributed to a known finding when one of the recorded
         deviations explains it.

Tree grammar (driver input, one tree per line):  <n> line*n   with
  E <n> | N <0|1> | O =<digits> | P <n> | V <n> | R =<code> | S =<ns> | H =<name>
  FR =<name> <legacy 0|1> | FB =<name> =<input> | FL =<name> =<input> =<table> | A =<name> =<target>
  I =<dir/dir> =<prefix token> =<suffix> <n> line*n
"""
import sys, os, json, hashlib, shutil, re
sys.path.insert(0, os.path.join(os.path.dirname(os.path.abspath(__file__)), "..", "bin"))
import vlib

ENC = {1: "none", 2: "text", 3: "slim", 4: "gzip", 5: "bzip2", 6: "lzma", 7: "sie", 8: "zzip", 9: "zzslim", 10: "flac", 15: "bogus"}
PROT = ["none", "format", "data", "all"]

K_PROT = "include/protect-not-inherited"
K_NS = "include/namespace-leaks-to-parent"
K_ALIAS = "open/alias-into-foreign-loop-stack-overflow"
K_REPR = "buildcode/repr-like-name-gets-affix-on-namespace"
K_INDEX = "buildcode/qualified-INDEX-without-affixes"
K_DOTNS = "include/null-namespace-tag-then-nested-namespace"
K_API_RENAME = "api/alter-affixes-fragment-namespace-rename-only-entry-names"
K_DOTNAME = "entry-list/leading-dot-name-missorted"
K_UPD_REPR = "api/alter-affixes-repr-like-name-sliced-as-suffix"
K_NSCRASH = "api/fragment-namespace-crash-parent-suffix"
K_ARM = "include/endian-arm-flag-not-inherited"
K_API_STALE = "api/alias-chain-stale-after-forward-target-added"


# ------------------------------------------------------------------ trees
def ser_line(l):
    k = l[0]
    if k in ("E", "P", "V"):
        return "%s %d" % (k, l[1])
    if k == "N":
        return "N %d" % (1 if l[1] else 0)
    if k in ("O", "R", "S", "H"):
        return "%s =%s" % (k, l[1])
    if k == "FR":
        return "FR =%s %d" % (l[1], 1 if l[2] else 0)
    if k in ("FB", "A"):
        return "%s =%s =%s" % (k, l[1], l[2])
    if k == "FL":
        return "FL =%s =%s =%s" % (l[1], l[2], l[3])
    if k == "I":
        return "I =%s =%s =%s %d %s" % ("/".join(l[1]), l[2], l[3], len(l[4]), " ".join(ser_line(x) for x in l[4]))
    raise ValueError(k)


def ser_tree(t):
    return ("%d %s" % (len(t), " ".join(ser_line(x) for x in t))).strip()


def tok(s):
    return s if s != "" else '""'


def unrepresentable(t):
    """Standards Version <= 5 has no quoting, so the null token cannot be written: trees that
    need one (empty prefix before a suffix, /NAMESPACE "") and switch to such a version are skipped"""
    def walk(ls):
        null = old = False
        for l in ls:
            if l[0] == "V" and l[1] <= 5:
                old = True
            elif l[0] == "I":
                if l[2] == "" and l[3] != "":
                    null = True
                n2, o2 = walk(l[4])
                null, old = null or n2, old or o2
            elif l[0] in ("R", "S", "H", "FR", "FB", "FL", "A") and "" in [x for x in l[1:] if isinstance(x, str)]:
                null = True
        return null, old
    n, o = walk(t)
    return n and o


DATA = bytes((k * 7 + 3) & 0xff for k in range(32))      # content of every RAW data file
GFRAME = 12                                              # the frame the harness reads


def add_data_lines(b):
    """what gd_getdata64(field, frame 12, 1 sample, GD_UINT16) must return for every RAW field of a
    raw-readable fragment, computed from the per-fragment settings of a model/spec block"""
    if b["status"] != "OK":
        return
    fr = {}
    for f in b["F"]:
        kv = dict(x.split("=", 1) for x in f.split()[2:])
        fr[f.split()[1]] = kv
    out = []
    for e in sorted(b["E"]):
        p = e.split()
        kv = dict(x.split("=", 1) for x in p[2:])
        if kv.get("kind") != "R":
            continue
        name = p[1][1:]
        f = fr.get(kv["frag"])
        if f is None or f["enc"] not in ("0", "1"):
            continue
        if name.startswith(".") or "/" in name or (len(name) > 2 and name[-2] == "." and name[-1] in "rimaz"):
            continue
        if name == "FILEFRAM":      # names INDEX when the dirfile ends up at Standards Version <= 5
            continue
        ty = int(kv["ty"])
        idx = GFRAME - int(f["off"])
        if idx < 0:
            out.append("G =%s n=1 v=0" % name)
        elif (idx + 1) * ty > len(DATA):
            out.append("G =%s n=0 v=0" % name)
        elif ty == 1:
            out.append("G =%s n=1 v=%x" % (name, DATA[idx]))
        else:
            lo, hi = DATA[2 * idx], DATA[2 * idx + 1]
            out.append("G =%s n=1 v=%x" % (name, (lo << 8 | hi) if f["end"] == "1" else (hi << 8 | lo)))
    b["G"] = out


class Writer:
    """writes a tree as format files below root; returns {relative path: text}"""

    def __init__(self, root, rng):
        self.root, self.rng, self.n, self.files = root, rng, 0, {}

    def child(self, l, reldir):
        """write the fragment included by line l (and everything below it); returns the path to
        put into /INCLUDE (relative to reldir, ./-decorated, through .., or absolute)"""
        self.n += 1
        cname = "inc%d.fmt" % self.n
        cdir = os.path.join(reldir, *l[1]) if l[1] else reldir
        os.makedirs(os.path.join(self.root, cdir), exist_ok=True)
        sub = "/".join(l[1] + [cname])
        r = self.rng.random()
        if r < 0.12:
            path = os.path.join(os.path.realpath(self.root), cdir, cname)   # absolute
        elif r < 0.2:
            path = "./" + sub
        elif r < 0.27 and l[1]:
            path = l[1][0] + "/../" + sub
        else:
            path = sub
        self.write(l[4], cdir, cname)
        return path

    def data_files(self, l, reldir):
        if l[0] == "FR" and l[1] and "/" not in l[1]:
            with open(os.path.join(self.root, reldir, l[1]), "wb") as fh:
                fh.write(DATA)
        elif l[0] == "FL":
            tp = os.path.join(self.root, reldir, l[3])
            os.makedirs(os.path.dirname(tp), exist_ok=True)
            open(tp, "w").write("0 0\n1 1\n")

    def write(self, lines, reldir, fname):
        out = []
        for l in lines:
            k = l[0]
            if k == "E":
                out.append("/ENCODING %s" % ENC.get(l[1], "bogus"))
            elif k == "N":
                out.append("/ENDIAN %s" % ("big" if l[1] else "little"))
            elif k == "O":
                out.append("/FRAMEOFFSET %s" % l[1])
            elif k == "P":
                out.append("/PROTECT %s" % PROT[l[1]])
            elif k == "V":
                out.append("/VERSION %d" % l[1])
            elif k == "R":
                out.append("/REFERENCE %s" % tok(l[1]))
            elif k == "S":
                out.append("/NAMESPACE %s" % tok(l[1]))
            elif k == "H":
                out.append("/HIDDEN %s" % tok(l[1]))
            elif k == "FR":
                out.append("%s RAW %s 1" % (tok(l[1]), "c" if l[2] else "UINT16"))
                self.data_files(l, reldir)
            elif k == "FL":
                out.append("%s LINTERP %s %s" % (tok(l[1]), tok(l[2]), l[3]))
                self.data_files(l, reldir)
            elif k == "FB":
                out.append("%s BIT %s 0" % (tok(l[1]), tok(l[2])))
            elif k == "A":
                out.append("/ALIAS %s %s" % (tok(l[1]), tok(l[2])))
            elif k == "I":
                path = self.child(l, reldir)
                s = "/INCLUDE %s" % path
                if l[2] != "" or l[3] != "":
                    s += " " + tok(l[2])
                if l[3] != "":
                    s += " " + l[3]
                out.append(s)
        txt = "\n".join(out) + "\n"
        with open(os.path.join(self.root, reldir, fname), "w") as fh:
            fh.write(txt)
        self.files[os.path.join(reldir, fname)] = txt


def leave_ver(before, child_end):
    """generator-side copy of the upward propagation rule, only used to steer generation"""
    if child_end is None or child_end >= 9:
        return before
    if before is not None and before >= 9:
        return before
    return child_end


class Gen:
    """structured include trees aimed at the case splits of the proofs.  `clean` trees follow the
    Standards Version in force (tracked with the documented rules) so that nearly all of them
    open; `dirty` trees add dangling references, reserved and malformed tokens, version clashes."""

    def __init__(self, rng, profile, maxdepth, clean):
        self.rng, self.profile, self.maxdepth, self.clean = rng, profile, maxdepth, clean
        self.k = 0
        self.budget = 60
        self.ver = None
        self.used_special = set()
        self.raw_alias = []   # alias definitions whose chain ends at a RAW field
        self.api = False      # trees for the API correspondence: no /VERSION, no legacy types, no /NAMESPACE in the root

    def fresh(self):
        self.k += 1
        return "f%d" % self.k

    def special_name(self):
        if self.clean:
            c = [x for x in ["r", "i", "m", "a", "z", "x.r", "y.i", ".a", "x.q", "IN", "DEX", "s1.m", "a.b.c"] if x not in self.used_special]
            if not c or not self.ge(10):
                return self.fresh()
            x = self.rng.choice(c)
            self.used_special.add(x)
            return x
        return self.rng.choice(["r", "i", "m", "a", "z", "x.r", "y.i", ".a", "x.q", "INDEX", "x.INDEX", ".INDEX",
                                "IN", "DEX", "FILEFRAM", "a.b.c", "q.", "..x", "x..y", "a/b/c", "/a", "a<b"])

    def ge(self, v):
        return self.ver is None or self.ver >= v

    def reftok(self, d, cur):
        """a token naming definition d=(token, cur-at-definition, kind) from current namespace cur"""
        t, c0, _ = d
        if c0 == cur or not self.ge(10):
            return t
        if t.startswith("."):
            return t
        return "." + (c0 + "." if c0 else "") + t

    def fragment(self, depth):
        rng = self.rng
        P = self.profile
        clean = self.clean
        lines, defs, pending = [], [], []
        cur = ""
        n = rng.randint(2, 9) if depth else rng.randint(3, 11)

        def version(v):
            if clean and not self.ge(5):
                return
            lines.append(("V", v))
            self.ver = v

        if self.api:
            pass
        elif P == "versions" and rng.random() < 0.55:
            version(rng.choice([5, 6, 6, 7, 7, 8, 8, 8, 9, 9, 10, 10] + ([] if clean else [4, 11])))
        elif P == "modern" and rng.random() < (0.4 if depth == 0 else 0.12):
            version(rng.choice([10, 10, 10, 10] if clean else [10, 10, 10, 9]))
        for _ in range(n):
            if self.budget <= 0:
                break
            self.budget -= 1
            r = rng.random()
            slash = self.ge(5) or not clean      # directives can be written at all
            w_inc = 0.17 if depth < self.maxdepth else 0.0
            if r < 0.24:                                        # RAW
                nm = self.fresh()
                q = rng.random()
                if self.ge(10) or not clean:
                    if q < 0.10:
                        nm = rng.choice(["s1.", "s2.", "s1.t."]) + nm
                    elif q < 0.18:
                        nm = "." + nm
                    elif q < 0.22 or (P == "adversarial" and q < 0.5):
                        nm = self.special_name()
                if clean:
                    legacy = (self.ver is None or self.ver < 8) and rng.random() < (0.3 if P == "versions" else 0.05)
                else:
                    legacy = rng.random() < (0.3 if P == "versions" else 0.03)
                lines.append(("FR", nm, legacy and not self.api))
                defs.append((nm, cur, "R"))
            elif r < 0.36:                                      # BIT
                nm = self.fresh()
                if defs and rng.random() < 0.7:
                    inp = self.reftok(rng.choice(defs), cur)
                else:
                    inp = rng.choice(["INDEX", "nosuch", "x.INDEX", "f1.r", ".f2", "f3.z"] if self.ge(10) else ["INDEX", "nosuch", "f1", "f1.z", "f2.r"])
                    if self.api and depth and "INDEX" in inp:
                        inp = "nosuch"       # INDEX cannot follow a later change of the affixes
                metas = [d for d in defs if "/" in d[0]]
                als = [d for d in defs if d[2] == "A" and "/" not in d[0]]
                if metas and als and rng.random() < 0.2:
                    # a subfield named through an alias (chain) as parent part of the code
                    inp = self.reftok(rng.choice(als), cur) + "/" + rng.choice(metas)[0].split("/", 1)[1]
                if (self.ver is None or self.ver >= 6) and "/" not in inp and rng.random() < 0.12:
                    inp += rng.choice([".z", ".z", ".r", ".m"])     # representation suffixes (.z from Version 10 on)
                if rng.random() < 0.3:
                    lines.append(("FL", nm, inp, rng.choice(["t.lut", "tab/t1.lut", "d1/t2.lut", "d1/d2/t3.lut"])))
                else:
                    lines.append(("FB", nm, inp))
                defs.append((nm, cur, "B"))
            elif r < 0.43:                                      # metafield
                if clean and not self.ge(7):
                    continue
                tops = [d for d in defs if "/" not in d[0] and d[2] in ("R", "B") and (d[1] == cur or self.ge(10))]
                if tops and (clean or rng.random() < 0.9):
                    pt = self.reftok(rng.choice(tops), cur)
                elif clean:
                    continue
                else:
                    pt = rng.choice(["nosuch", "INDEX"])
                nm = pt + "/" + self.fresh()
                lines.append(("FB", nm, "INDEX" if not (self.api and depth) else "nosuch"))
                defs.append((nm, cur, "B"))
            elif r < 0.56:                                      # alias
                if clean and not (self.ge(9) and slash):
                    continue
                if P == "versions" and rng.random() < 0.5:
                    continue
                nm = self.fresh()
                q = rng.random()
                if q < 0.15:
                    tops = [d for d in defs if "/" not in d[0] and d[2] in ("R", "B") and (d[1] == cur or self.ge(10))]
                    if tops:
                        nm = self.reftok(rng.choice(tops), cur) + "/" + nm
                q = rng.random()
                als0 = [d for d in defs if d[2] == "A" and "/" not in d[0]]
                if als0 and q < 0.2:
                    tg = self.reftok(rng.choice(als0), cur)      # chains of two and more aliases
                elif defs and q < 0.62:
                    tg = self.reftok(rng.choice(defs), cur)
                elif q < 0.72:
                    tg = "nosuch" + str(rng.randint(1, 3))
                elif q < 0.84:
                    tg = self.fresh()                            # forward: defined later
                    pending.append((tg, cur))
                elif q < 0.90:
                    tg = nm if "/" not in nm else "nosuch"       # self loop
                elif q < 0.96:
                    other = self.fresh()                         # two-loop
                    lines.append(("A", other, nm))
                    defs.append((other, cur, "A"))
                    tg = other
                    if rng.random() < 0.08:                      # ... and a third alias into the loop
                        pending.append(("into", self.fresh(), other, cur))
                else:
                    tg = rng.choice(["INDEX", "x.INDEX", "f1.r", "."] if not clean else ["INDEX", "f1.r"])
                    if self.api and depth:
                        tg = "f1.r"
                lines.append(("A", nm, tg))
                defs.append((nm, cur, "A"))
                # remember aliases that (through a chain) name a RAW field: usable in /REFERENCE
                src = [d for d in defs[:-1] if self.reftok(d, cur) == tg and "/" not in d[0]]
                if src and (src[-1][2] == "R" or src[-1] in self.raw_alias) and "/" not in nm:
                    self.raw_alias.append(defs[-1])
            elif r < 0.60:                                      # hidden
                if clean and not (self.ge(9) and slash):
                    continue
                mine = [d for d in defs if d[1] == cur or self.ge(10)]
                if mine and (clean or rng.random() < 0.9):
                    lines.append(("H", self.reftok(rng.choice(mine), cur)))
                elif not clean:
                    lines.append(("H", "nosuch"))
            elif r < 0.76:                                      # scoped directives
                if clean and not slash:
                    continue
                q = rng.random()
                if q < 0.27:
                    if clean and not self.ge(6):
                        continue
                    lines.append(("E", rng.choice([1, 1, 2, 4, 5, 6, 7, 3, 15])))
                elif q < 0.5:
                    lines.append(("N", rng.random() < 0.5))
                elif q < 0.78:
                    lines.append(("O", rng.choice(["0", "1", "7", "10", "010", "017", "08", "0010", "123", "9223372036854775807",
                                                   "99999999999999999999", str(rng.randint(0, 5000)), "0%o" % rng.randint(0, 4095)])))
                else:
                    if clean and not self.ge(6):
                        continue
                    lines.append(("P", rng.randint(0, 3)))
            elif r < 0.81:                                      # namespace switch
                if clean and not (self.ver is None or self.ver >= 10):
                    continue
                if self.api and depth == 0:
                    continue
                if P == "versions" and rng.random() < 0.6:
                    continue
                good = ["n1", "n2", "n1.n2", "", ".", "n3.", ".n4"]
                ns = rng.choice(good if clean or rng.random() < 0.85 else ["..", "a..b", "n/x", "n1"])
                lines.append(("S", ns))
                if ns in good:
                    cur = ns.lstrip(".").rstrip(".") if ns not in ("", ".") else ""
            elif r < 0.85:                                      # reference
                if clean and not (self.ge(6) and slash):
                    continue
                raws = [d for d in defs if d[2] == "R" and (d[1] == cur or self.ge(10))]
                ral = [d for d in self.raw_alias if d in defs and (d[1] == cur or self.ge(10))]
                if ral and self.ge(9) and rng.random() < 0.45:
                    raws = ral                                  # /REFERENCE through an alias (chain)
                q = rng.random()
                if raws and (clean or q < 0.8):
                    lines.append(("R", self.reftok(rng.choice(raws), cur)))
                elif clean:
                    continue
                elif defs and q < 0.93:
                    lines.append(("R", self.reftok(rng.choice(defs), cur)))
                else:
                    lines.append(("R", "nosuch"))
            elif r < 0.88 or (P == "versions" and r < 0.93):    # version switch
                if self.api:
                    continue
                if P == "modern" and clean:
                    version(10)
                elif clean:
                    # keep what is already written valid: only move where dotted names / namespaces stay legal
                    version(rng.choice([10, 10, 9, 9, 8, 8, 7, 6, 5]) if cur == "" else 10)
                else:
                    version(rng.choice([10, 10, 9, 9, 8, 8, 7, 6, 5]) if P != "modern" else rng.choice([10, 10, 10, 9, 8]))
            elif r < 0.88 + w_inc + 0.05 and depth < self.maxdepth:   # include
                if clean and not slash:
                    continue
                dirs = rng.choice([[], [], [], ["d1"], ["d2"], ["d1", "d2"]])
                px, sx = "", ""
                if P != "versions" or rng.random() < 0.3:
                    q = rng.random()
                    if q < 0.35:
                        px = rng.choice(["P", "Q", "pre", "IN"])
                    q = rng.random()
                    if self.ge(10) or not clean:
                        if q < 0.22:
                            px = rng.choice(["A", "B", "A.B", "C"]) + "." + px
                        elif q < 0.27:
                            px = "." + px
                        elif q < 0.30:
                            px = "." + rng.choice(["A", "B"]) + "." + px
                        elif q < 0.32 and not clean:
                            px = rng.choice(["..", "A..B.", "x/y", "a.b"])
                    if rng.random() < 0.3:
                        sx = rng.choice(["S", "T", "post", "DEX", "X"])
                    if not clean and rng.random() < 0.1:
                        sx = rng.choice(["a.b", "s/t", "."])
                    if clean and not self.ge(10) and cur != "":
                        px = px  # including from inside a namespace under an old version: left to dirty trees
                before = self.ver
                sub = self.fragment(depth + 1)
                self.ver = leave_ver(before, self.ver)
                lines.append(("I", dirs, px, sx, sub))
            # resolve pending forward definitions now and then
            if pending and rng.random() < 0.4:
                self.flush_one(pending, lines, defs, cur)
        while pending and (clean or rng.random() < 0.5):
            self.flush_one(pending, lines, defs, cur)
        return lines

    def flush_one(self, pending, lines, defs, cur):
        p = pending.pop()
        if p[0] == "into" and len(p) == 4:
            if self.clean and not self.ge(9):
                return
            c0 = p[3]
            if c0 != cur and not self.ge(10):
                return
            lines.append(("A", p[1] if c0 == cur else "." + (c0 + "." if c0 else "") + p[1],
                          p[2] if c0 == cur else "." + (c0 + "." if c0 else "") + p[2]))
            defs.append((p[1], c0, "A"))
        else:
            nm, c0 = p
            if c0 != cur and not self.ge(10):
                return
            lines.append(("FR", nm if c0 == cur else "." + (c0 + "." if c0 else "") + nm, False))
            defs.append((nm, c0, "R"))

    def tree(self):
        return self.fragment(0)


def count_frags(lines):
    return sum(1 + count_frags(l[4]) for l in lines if l[0] == "I")


def api_case(rng, d, maxdepth):
    """an include tree whose root fragment is built through the API.  Returns (script text, the
    tree the result must equal when parsed: /VERSION 10 + the root lines as executed, with the
    inclusion changed by gd_alter_affixes / gd_fragment_namespace written into its /INCLUDE)"""
    g = Gen(rng, "modern", maxdepth, True)
    g.api = True
    g.budget = rng.choice([25, 40, 60])
    t = g.tree()
    prots = [l for l in t if l[0] == "P"]
    root = [("E", 1)] + [l for l in t if l[0] not in ("P", "E", "V", "S")]
    # a data protection level before an inclusion is inherited; RAW fields cannot be added below it
    incs = [i for i, l in enumerate(root) if l[0] == "I"]
    if incs and rng.random() < 0.4:
        k = rng.choice(incs)
        if not any(l[0] == "FR" for l in root[k:]):
            root.insert(k, ("P", 2))
    root = [(("O", str(rng.randint(0, 40))) if l[0] == "O" else l) for l in root]
    root += prots[-1:]
    os.makedirs(d)
    w = Writer(d, rng)
    sc = ["NEW\t%s" % d]
    strip = lambda x: x[1:] if x.startswith(".") else x
    for l in root:
        k = l[0]
        if k == "FR":
            w.data_files(l, "")
            sc.append("SPEC\t0\t%s RAW UINT16 1" % l[1])
        elif k == "FB":
            sc.append("SPEC\t0\t%s BIT %s 0" % (l[1], l[2]))
        elif k == "FL":
            w.data_files(l, "")
            sc.append("SPEC\t0\t%s LINTERP %s %s" % (l[1], l[2], l[3]))
        elif k == "A":
            if "/" in l[1]:
                par, ch = l[1].split("/", 1)
                sc.append("MALIAS\t%s\t%s\t%s" % (strip(par), ch, strip(l[2])))
            else:
                sc.append("ALIAS\t%s\t%s\t0" % (strip(l[1]), strip(l[2])))
        elif k == "H":
            sc.append("HIDE\t%s" % strip(l[1]))
        elif k == "R":
            sc.append("REF\t%s" % strip(l[1]))
        elif k == "E":
            sc.append("ENC\t%d\t0" % l[1])
        elif k == "N":
            sc.append("END\t%d\t0" % (1 if l[1] else 0))
        elif k == "O":
            sc.append("OFF\t%s\t0" % l[1])
        elif k == "P":
            sc.append("PROT\t%d\t0" % l[1])
        elif k == "I":
            path = w.child(l, "")
            if l[3] == "" and l[2].endswith(".") and not l[2].startswith(".") and rng.random() < 0.6:
                sc.append("INCNS\t%s\t%s\t0" % (path, l[2][:-1]))
            else:
                sc.append("INC\t%s\t%s\t%s\t0" % (path, l[2] or "-", l[3] or "-"))
    # change one top-level inclusion afterwards
    incs = [i for i, l in enumerate(root) if l[0] == "I"]
    final = list(root)
    if incs and rng.random() < 0.6 and not any(l[0] == "P" and l[1] in (1, 3) for l in root):
        k = rng.choice(incs)
        l = root[k]
        idx = 1 + count_frags(root[:k])
        tokn = l[2]
        if not (tokn.startswith(".") and tokn.count(".") == 1):      # null namespace tag: recorded finding
            t0 = tokn[1:] if tokn.startswith(".") else tokn
            ns, px = (t0.rsplit(".", 1) if "." in t0 else ("", t0))
            sx = l[3]
            if rng.random() < 0.65:
                pa = rng.choice(["-", "", "Z", "M.Z", "M.", "M.N.Z"])
                sa = rng.choice(["-", "", "W", "W"])
                sc.append("AFFIX\t%d\t%s\t%s" % (idx, pa, sa))
                if pa != "-":
                    if "." in pa:
                        ns, px = pa.rsplit(".", 1)
                    else:
                        px = pa
                if sa != "-":
                    sx = sa
            else:
                ns = rng.choice(["M2", "M2.N2", "A"])
                sc.append("NS\t%d\t%s" % (idx, ns))
            final[k] = ("I", l[1], (ns + "." if ns else "") + px, sx, l[4])
    return "\n".join(sc) + "\n", [("V", 10)] + final, w.files, root


def deep_chain(rng, depth):
    """a chain of `depth` nested inclusions with scoped directives and affixes on the way"""
    t = [("FR", "leaf", False), ("O", str(rng.randint(0, 99)))]
    for d in range(depth):
        pre = []
        if rng.random() < 0.3:
            pre.append(("O", str(d)))
        if rng.random() < 0.3:
            pre.append(("P", rng.randint(0, 3)))
        if rng.random() < 0.3:
            pre.append(("N", rng.random() < 0.5))
        px = rng.choice(["", "", "p", "n%d." % d])
        sx = rng.choice(["", "", "s"])
        post = [("FR", "g%d" % d, False)] if rng.random() < 0.5 else []
        if rng.random() < 0.2:
            post.append(("E", rng.choice([1, 2, 4])))
        t = pre + [("I", [] if rng.random() < 0.7 else ["d"], px, sx, t)] + post
    return t


WITNESS = {
    K_DOTNAME: [("E", 1), ("FR", "a", False), ("FR", "b", False), ("FR", "c", False), ("FR", "y", False), ("FR", "..x", False)],
    K_PROT: [("P", 3), ("I", [], "", "", [("FR", "a", False)])],
    K_NS: [("I", [], "", "", [("S", "x"), ("FR", "b", False)]), ("FR", "a", False)],
    K_ALIAS: [("V", 10), ("A", "b", "c"), ("A", "c", "b"), ("A", "z", "b")],
    K_REPR: [("I", [], "P", "S", [("FR", "x.r", False), ("FR", "x.q", False)])],
    K_INDEX: [("FR", "x.INDEX", False)],
    K_DOTNS: [("I", [], ".", "", [("I", [], "x.", "", [("FR", "b", False)])])],
}


def fixed_witnesses(chk, exe, root):
    """two recorded findings outside the model: replayed from fixed files on every run"""
    # (a) gd_fragment_namespace on a fragment whose parent has a suffix
    d = os.path.join(root, "wa")
    os.makedirs(d)
    open(os.path.join(d, "inc1.fmt"), "w").write("/INCLUDE inc2.fmt\n")
    open(os.path.join(d, "inc2.fmt"), "w").write("f1 RAW UINT16 1\n")
    script = "NEW\t%s\nENC\t1\t0\nINC\tinc1.fmt\t-\tS\t0\nNS\t2\tM\n" % d
    open(d + ".script", "w").write(script)
    rc, out = vlib.sh([exe], inp=("@%s.script\n" % d).encode(), timeout=120)
    if "IMPL CRASH" in out:
        chk.violation(K_NSCRASH, "gd_fragment_namespace(D, 2, \"M\") on a fragment whose parent was included with suffix S crashes "
                      "(_GD_UpdateAffixes copies the parent's suffix into an unallocated buffer)",
                      {"kind": "crash", "script": script, "files": {"inc1.fmt": "/INCLUDE inc2.fmt\n", "inc2.fmt": "f1 RAW UINT16 1\n"}}, found=True)
    elif "E =M.f1S " not in out:
        chk.violation("api/fragment-namespace-nested", "gd_fragment_namespace(D, 2, \"M\") below a suffixed parent does not give M.f1S: " + out[:300],
                      {"kind": "impl-vs-spec", "script": script}, found=True)
    # (c) gd_alter_affixes on a fragment whose sub-fragment defines a one-letter r/i/m/a name below a namespace
    d = os.path.join(root, "wc")
    os.makedirs(d)
    open(os.path.join(d, "inc1.fmt"), "w").write("/INCLUDE inc2.fmt A.\n")
    open(os.path.join(d, "inc2.fmt"), "w").write("m RAW UINT16 1\nq RAW UINT16 1\n")
    script = "NEW\t%s\nENC\t1\t0\nINC\tinc1.fmt\t-\t-\t0\nAFFIX\t1\tZ\t-\n" % d
    open(d + ".script", "w").write(script)
    rc, out = vlib.sh([exe], inp=("@%s.script\n" % d).encode(), timeout=120)
    if "E =ZA.m " in out and "E =A.Zq " in out:
        chk.violation(K_UPD_REPR, "gd_alter_affixes(D, 1, \"Z\", NULL): field m of namespace A becomes ZA.m (its sibling q becomes A.Zq as the parser would name it)",
                      {"kind": "impl-vs-spec", "script": script, "files": {"inc1.fmt": "/INCLUDE inc2.fmt A.\n", "inc2.fmt": "m RAW UINT16 1\nq RAW UINT16 1\n"}}, found=True)
    elif not ("E =A.Zm " in out and "E =A.Zq " in out):
        chk.violation("api/alter-affixes-nested-namespace", "gd_alter_affixes(D, 1, \"Z\", NULL) below namespace A gives neither A.Zm/A.Zq nor the recorded ZA.m: " + out[:400],
                      {"kind": "impl-vs-spec", "script": script}, found=True)
    # (b) /ENDIAN big arm: the arm token is part of the directive, which has fragment scope
    d = os.path.join(root, "wb")
    os.makedirs(d)
    files = {"format": "/VERSION 10\n/ENDIAN big arm\n/INCLUDE sub1.fmt\n",
             "sub1.fmt": "a RAW FLOAT64 1\n/INCLUDE sub3.fmt\n", "sub3.fmt": "/ENDIAN big\nc RAW FLOAT64 1\n"}
    for k, v in files.items():
        open(os.path.join(d, k), "w").write(v)
    rc, out = vlib.sh([exe], inp=(d + "\n").encode(), timeout=120)
    arm = dict(l.split()[1:] for l in out.split("\n") if l.startswith("R "))
    want = {"0": "arm=1", "1": "arm=1", "2": "arm=0"}   # sub1 inherits big arm; sub3 has its own /ENDIAN big
    if arm and arm.get("1") != want["1"]:
        chk.violation(K_ARM, "/ENDIAN big arm before /INCLUDE: the included fragment is big-endian but not ARM-endian (%s)" % arm,
                      {"kind": "impl-vs-spec", "files": files, "observed": arm}, found=True)
    elif arm and arm != want:
        chk.violation("include/endian-arm-scope", "ARM flag of the fragments %s, expected %s" % (arm, want), {"kind": "impl-vs-spec", "files": files}, found=True)
    elif not arm:
        chk.violation("include/endian-arm-scope", "no fragment is ARM-endian after /ENDIAN big arm: " + out[:200], {"kind": "impl-vs-spec", "files": files}, found=True)


def name_level(b, fi):
    """what the recorded gd_alter_affixes finding leaves intact: every entry with its name, fragment, kind, hidden flag,
    RAW file / LINTERP table, the data read-back, and the records of all fragments outside the sub-tree below fi"""
    par = {}
    for f in b["F"]:
        kv = dict(x.split("=", 1) for x in f.split()[2:])
        par[f.split()[1]] = kv["parent"]
    def below(j):
        while j in par and par[j] != "-1":
            j = par[j]
            if j == fi:
                return True
        return False
    out = [f for f in b["F"] if not below(f.split()[1])]
    for e in b["E"]:
        p = e.split()
        kv = dict(x.split("=", 1) for x in p[2:])
        keep = [p[0], p[1], "frag=" + kv["frag"], "kind=" + kv["kind"], "hid=" + kv["hid"]]
        if kv["kind"] == "R":
            keep += ["x=" + kv["x"], "ty=" + kv.get("ty", "")]
        if kv["kind"] == "L":
            keep += ["tab=" + kv.get("tab", "")]
        out.append(" ".join(keep))
    return sorted(out + b["G"])


# ------------------------------------------------------------- comparison
def parse_blocks(text):
    """-> list of blocks; a block = (status, frag lines, entry lines (sorted), ref, xlines)"""
    blocks, cur = [], None
    for ln in text.split("\n"):
        if ln.startswith(("IMPL ", "SPEC ")):
            if cur is not None and ln.endswith("CRASH"):
                cur["status"] = "CRASH"      # crashed after printing part of a block
                continue
            cur = {"tag": ln.split()[0], "status": ln.split()[1], "F": [], "E": [], "REF": None, "X": [], "ATTR": None, "G": [], "N": "", "Q": []}
        elif ln == "END":
            if cur is not None:
                blocks.append(cur)
            cur = None
        elif ln.startswith("ATTR "):
            if blocks:
                blocks[-1]["ATTR"] = dict(kv.split("=") for kv in ln.split()[1:])
        elif cur is not None:
            if ln.startswith("F "):
                cur["F"].append(ln.replace(" ns=- ", " ns== "))     # NULL and "" name the same namespace
            elif ln.startswith("E "):
                cur["E"].append(ln)
            elif ln.startswith("REF "):
                cur["REF"] = ln
            elif ln.startswith("X "):
                cur["X"].append(ln)
            elif ln.startswith("G "):
                cur["G"].append(ln)
            elif ln.startswith("Q "):
                cur["Q"].append(ln)
            elif ln.startswith("N "):
                cur["N"] = ln
    return blocks


def canon(b):
    if b["status"] != "OK":
        return b["status"]
    return "\n".join(["OK"] + b["F"] + sorted(b["E"]) + [b["REF"] or "REF ?"] + sorted(b["Q"]) + sorted(b["G"]))


def main():
    chk = vlib.Check("C09")
    rng = chk.rng
    V = vlib.VERIF
    # 1. translator
    rc, tout = vlib.sh("python3 %s/translate/tr_scope.py" % V)
    trans_problems = [l for l in tout.splitlines() if l.startswith("PROBLEM")]
    # 2. proofs
    proved = chk.prove("Properties_C09", extra_targets=["Gen/ScopeParams.vo"])
    chk.cov["trusted_base"] += [
        "Coq 8.16.1 kernel, vm_compute (no native_compute)",
        "translator translate/tr_scope.py (regexes over _GD_ParseDirective, _GD_ParseFieldSpec, _GD_CodeFromFrag, _GD_ResolveAlias, "
        "_GD_SetFieldAffixes, _GD_Include: directive version gates, inheritance of encoding/byte order/frame offset/protection, "
        "/VERSION leak test, namespace push, alias loop guard, recursion limit)",
        "hand-written Gallina transcription of the control flow around those decision points (coq/C09/Scope.v, Names.v, Alias.v), "
        "validated on every run against gd_open of the freshly built library on generated include trees",
        "extraction: ExtrOcamlBasic only; OCaml driver ocaml/C09/driver.ml; harness harness/C09/scope.c (reads the stored encoding, "
        "root-namespace pointer and D->entry through internal.h, everything else through the public API)",
        "dirfile-format.5 as transcribed in interp_spec (spec_simple/spec_enter/spec_leave, spec_code, alias_spec)",
    ]
    chk.assumptions += [
        "gd_open with GD_RDONLY only (no GD_PEDANTIC/GD_PERMISSIVE/GD_FORCE_* flags, no parser callback)",
        "field lines are RAW (type c or UINT8, spf 1) and BIT; other field types share _GD_SetField/_GD_InputCode and are not generated",
        "tokens are printable ASCII without blanks, quotes, '#' or backslashes (tokenising is property C08)",
        "the entry[0] cache of _GD_ResolveAlias is not modelled (it only short-cuts to an already computed non-NULL target)",
        "interp_spec answers Unspec (no judgement) for /INCLUDE from inside a namespace while a Standards Version < 10 is in force",
    ]
    try:
        impl = vlib.build_impl()
        exe = vlib.build_harness(impl, os.path.join(V, "harness/C09/scope.c"))
        ok, log = vlib.coq_make(["Gen/ScopeParams.vo", "C09/Alias.vo"])
        drv = vlib.build_ocaml_driver("C09", "C09/Extract.v", "ocaml/C09/driver.ml") if ok else None
    except vlib.BuildError as e:
        chk.violation("build", "build failed: " + str(e)[:2000], {"kind": "build", "log": str(e)}, found=False)
        return chk.finish()
    if drv is None:
        chk.violation("model-build", "Coq model does not compile: " + log[-1500:], {"kind": "model-build", "log": log[-4000:]}, found=False)
        return chk.finish()

    # 3. generate
    ntrees = 5000 if not chk.thorough else 40000
    trees, tags = [], []
    for key, t in WITNESS.items():
        trees.append(t); tags.append("witness:" + key)
    for i in range(ntrees):
        q = rng.random()
        profile = "modern" if q < 0.58 else "versions" if q < 0.85 else "adversarial"
        md = rng.choice([1, 2, 2, 3, 3, 4, 5]) if not chk.thorough else rng.choice([1, 2, 3, 4, 5, 6, 8])
        clean = rng.random() < 0.7 and profile != "adversarial"
        g = Gen(rng, profile, md, clean)
        g.budget = rng.choice([25, 40, 60, 90])
        t = g.tree()
        if unrepresentable(t):
            continue
        trees.append(t); tags.append(profile + ("-clean" if clean else "-dirty"))
    for d in ([3, 8, 17, 30, 31, 32, 33] if not chk.thorough else list(range(1, 36)) + [31, 32, 31, 32]):
        trees.append(deep_chain(rng, d)); tags.append("deep%d" % d)
    root = vlib.scratch("C09-trees-")
    dirs, filesets = [], []
    for i, t in enumerate(trees):
        d = os.path.join(root, "t%05d" % i)
        os.makedirs(d)
        w = Writer(d, rng)
        w.write(t, "", "format")
        dirs.append(d); filesets.append(w.files)
    # trees whose root fragment is built through the API
    napi = 1200 if not chk.thorough else 8000
    api_pre = {}
    for i in range(napi):
        d = os.path.join(root, "a%05d" % i)
        script, t, files, t0 = api_case(rng, d, rng.choice([1, 2, 2, 3]))
        api_pre[len(trees)] = t0
        sp = d + ".script"
        open(sp, "w").write(script)
        files = dict(files); files["<api script>"] = script
        post = any(l.startswith(("AFFIX\t", "NS\t")) for l in script.split("\n"))
        trees.append(t); tags.append("api-post" if post else "api"); dirs.append("@" + sp); filesets.append(files)
    fixed_witnesses(chk, exe, root)
    rc1, out1 = vlib.sh([exe], inp=("\n".join(dirs) + "\n").encode(), timeout=1500)
    rc2, out2 = vlib.sh([drv], inp=("\n".join(ser_tree(t) for t in trees) + "\n").encode(), timeout=3000)
    IB = parse_blocks(out1)
    MB = parse_blocks(out2)
    for b in MB:
        add_data_lines(b)
    if rc1 != 0 or rc2 != 0 or len(IB) != len(trees) or len(MB) != 2 * len(trees):
        chk.violation("harness", "harness/driver failed rc=%d/%d blocks=%d/%d for %d trees: %s" % (
            rc1, rc2, len(IB), len(MB), len(trees), (out1[-300:] + out2[-600:])), {"kind": "harness"}, found=False)
        return chk.finish()

    # an API script that fails at a call BEFORE its last one is judged against the tree it had built up to and
    # including the failing call (for an api-post case: the inclusion with its ORIGINAL affixes).  In particular
    # gd_include* honours the /REFERENCE of the fragment it includes at once: the prefix tree ends with that
    # fragment, so its /REFERENCE is the last one there too.
    def failed_line(b):
        n = b.get("N", "")
        if b["status"] != "ERR" or not n.startswith("N ") or n.startswith(("N AFFIX", "N NS")) or " at " not in n:
            return None
        return int(n.rsplit(" at ", 1)[1])
    early = [i for i in sorted(api_pre) if failed_line(IB[i]) is not None]
    if early:
        pre = {i: [("V", 10)] + api_pre[i][:max(failed_line(IB[i]) - 1, 0)] for i in early}
        rc3, out3 = vlib.sh([drv], inp=("\n".join(ser_tree(pre[i]) for i in early) + "\n").encode(), timeout=3000)
        EB = parse_blocks(out3)
        if rc3 != 0 or len(EB) != 2 * len(early):
            chk.violation("harness", "driver failed on the pre-operation trees", {"kind": "harness"}, found=False)
            return chk.finish()
        for b in EB:
            add_data_lines(b)
        for k, i in enumerate(early):
            MB[2 * i], MB[2 * i + 1] = EB[2 * k], EB[2 * k + 1]
            trees[i] = pre[i]
            tags[i] = "api"
    nontriv = set()
    stat = {"OK": 0, "ERR": 0, "CRASH": 0, "UNSPEC-spec": 0, "deviations": 0}
    per_profile = {}
    confirmed = set()
    for i, t in enumerate(trees):
        ib, mb, sb = IB[i], MB[2 * i], MB[2 * i + 1]
        attr = sb["ATTR"] or {}
        ci, cm, cs = canon(ib), canon(mb), canon(sb)
        stat[ib["status"]] = stat.get(ib["status"], 0) + 1
        per_profile[tags[i].split(":")[0]] = per_profile.get(tags[i].split(":")[0], 0) + 1
        if ib["status"] == "OK" and len(ib["F"]) >= 2:
            nontriv.add(hashlib.sha256(ci.encode()).hexdigest())
        if cs == "UNSPEC":
            stat["UNSPEC-spec"] += 1
        replay = {"tree": ser_tree(t), "files": filesets[i], "impl": ci, "model": cm, "spec": cs, "generator": tags[i],
                  "how": "write the files into a directory, echo its path | harness/C09/scope (built by bin/build_impl.sh); "
                         "echo '<tree>' | ocaml/C09/driver"}
        if i < 3 or (i % 500 == 7):
            chk.sample({"generator": tags[i], "tree": ser_tree(t)[:300], "impl": ci[:300]})
        dotname = any(e.startswith("E =.") for e in ib["E"])
        if dotname and ib["status"] == "OK" and cs != "UNSPEC":
            noG = lambda c: "\n".join(ln for ln in c.split("\n") if not ln.startswith("G "))
            if ib["X"] or (ci != cm and noG(ci) == noG(cm)):
                # an entry whose name begins with '.' sits at the position of the name without the dot
                # (_GD_FindField drops it): the bisection then misses other entries
                chk.violation(K_DOTNAME, "in the dirfile of tree %s (entry with a leading-dot name) lookups fail: %s" % (
                    ser_tree(t)[:200], "; ".join(ib["X"][:3]) or "gd_getdata64 values differ"),
                    dict(replay, kind="impl-vs-spec", x=ib["X"]), found=True)
                confirmed.add(K_DOTNAME)
                ib = dict(ib, X=[])
                ci = cm if noG(ci) == noG(cm) else ci
        if tags[i] == "api-post" and ib["status"] == "OK" and sb["status"] == "OK":
            # the record of the fragment that gd_alter_affixes / gd_fragment_namespace changed (Api.v)
            post = [l for l in filesets[i]["<api script>"].split("\n") if l.startswith(("AFFIX\t", "NS\t"))]
            fi = post[0].split("\t")[1]
            fa = [f for f in ib["F"] if f.split()[1] == fi]
            fs = [f for f in sb["F"] if f.split()[1] == fi]
            if fa != fs:
                chk.violation("api/fragment-attributes", "after %s fragment %s is %s; the parser gives %s for the equivalent /INCLUDE" % (
                    post[0].replace("\t", " "), fi, fa, fs), dict(replay, kind="impl-vs-spec"), found=True)
                continue
        if (tags[i] == "api-post" and cs != "UNSPEC" and ci != cs and ci != cm and ib["status"] == "OK" and sb["status"] == "OK"
                and name_level(ib, fi) != name_level(sb, fi)):
            # NOT the recorded finding: that one leaves input codes, alias targets and sub-fragment records stale,
            # but every entry NAME (with fragment, kind, hidden flag, RAW file, LINTERP table) is the parser's
            di = sorted(set(name_level(ib, fi)) - set(name_level(sb, fi)))
            ds = sorted(set(name_level(sb, fi)) - set(name_level(ib, fi)))
            rl = lambda ln: ln.startswith("E =") and re.search(r"\.[rima]$", ln.split()[1][1:].split("/")[0]) is not None
            if (di and all(rl(x) for x in di) and all(x.startswith(("E =", "G =")) for x in ds)
                    and len([x for x in ds if x.startswith("E =")]) == len(di)
                    and len([x for x in ds if x.startswith("G =")]) <= len([x for x in di if " kind=R " in x])):
                # the only wrong names are one-letter r/i/m/a names below a namespace: _GD_UpdateCode slices names with
                # _GD_CodeOffsets without GD_CO_NAME, so ".m" is taken for a representation suffix (recorded finding)
                chk.violation(K_UPD_REPR, "after %s the entries %s should be %s (one-letter name sliced as a representation suffix)" % (
                    post[0].replace("\t", " "), di[:4], ds[:4]), dict(replay, kind="impl-vs-spec"), found=True)
                confirmed.add(K_UPD_REPR)
                stat["deviations"] += 1
                continue
            chk.violation("api/alter-affixes-entry-names", "after %s the entry names / fragments of tree %s are %s; parsing the equivalent format files gives %s" % (
                post[0].replace("\t", " "), ser_tree(t)[:200], sorted(set(name_level(ib, fi)) - set(name_level(sb, fi)))[:6],
                sorted(set(name_level(sb, fi)) - set(name_level(ib, fi)))[:6]), dict(replay, kind="impl-vs-spec"), found=True)
            continue
        if (tags[i] == "api-post" and cs != "UNSPEC" and ci != cs and ci != cm
                and not (ib["status"] == "ERR" and not ib.get("N", "").startswith(("N AFFIX", "N NS")))):
            # gd_alter_affixes / gd_fragment_namespace rename the entry names only (recorded finding)
            chk.violation(K_API_RENAME, "after the API script of tree %s the dirfile is %s; parsing the equivalent format files (interp_spec) gives %s" % (
                ser_tree(t)[:200], ci[:400], cs[:400]), dict(replay, kind="impl-vs-spec", attr=attr), found=True)
            confirmed.add(K_API_RENAME)
            stat["deviations"] += 1
            continue
        if tags[i] == "api" and cs != "UNSPEC" and ci != cm:
            strip = lambda c: "\n".join(ln.split(" res=")[0] if ln.startswith("E ") and " kind=A " in ln else ln for ln in c.split("\n"))
            if strip(ci) == strip(cm):
                chk.violation(K_API_STALE, "after the API script of tree %s an alias chain is dangling although its target exists: %s; the Standards give %s" % (
                    ser_tree(t)[:200], ci[:400], cs[:400]), dict(replay, kind="impl-vs-spec", attr=attr), found=True)
                confirmed.add(K_API_STALE)
                stat["deviations"] += 1
                ci = cm       # go on with whatever else this tree shows
        if ci != cm:
            if cs != "UNSPEC" and ci != cs and attr.get("dotns") == "1":
                # names with a leading dot are inserted into D->entry at the position of the name
                # without the dot (_GD_FindField drops it), after which the binary search misses
                # entries: the model (linear search) is not meant to follow the code there
                chk.violation(K_DOTNS, "gd_open on tree %s gives %s; the Standards (interp_spec) give %s" % (ser_tree(t)[:200], ci[:400], cs[:400]),
                              dict(replay, kind="impl-vs-spec", attr=attr), found=True)
                confirmed.add(K_DOTNS)
            elif cs != "UNSPEC" and ci == cs:
                chk.violation("model/" + tags[i].split(":")[0],
                              "correspondence broken: gd_open agrees with the Standards but not with the model of the code on tree %s: impl %s / model %s" % (
                                  ser_tree(t)[:200], ci[:300], cm[:300]), dict(replay, kind="model-vs-impl"), found=False)
            elif cs != "UNSPEC":
                chk.violation("scope/impl-vs-spec", "gd_open on tree %s gives %s; the Standards (interp_spec) give %s (model of the code: %s)" % (
                    ser_tree(t)[:200], ci[:400], cs[:400], cm[:200]), dict(replay, kind="impl-vs-spec"), found=True)
            else:
                chk.violation("model/unspec", "correspondence broken on tree %s: impl %s / model %s" % (ser_tree(t)[:200], ci[:300], cm[:300]),
                              dict(replay, kind="model-vs-impl"), found=False)
            continue
        if cs == "UNSPEC" or cm == cs:
            if ib["X"] and cs != "UNSPEC":
                chk.violation("api/crosscheck", "public API disagrees with the parsed state on tree %s: %s" % (ser_tree(t)[:200], "; ".join(ib["X"][:3])),
                              dict(replay, kind="api-crosscheck", x=ib["X"]), found=True)
            continue
        # the code (and its model) deviate from the Standards on this tree: attribute
        stat["deviations"] += 1
        keys = []
        if attr.get("vnullns") == "1":
            keys = [K_DOTNS]
        else:
            if attr.get("repr") == "1":
                keys.append(K_REPR)
            if attr.get("index") == "1":
                keys.append(K_INDEX)
            if attr.get("dotns") == "1":
                keys.append(K_DOTNS)
        desc = "gd_open on tree %s gives %s; the Standards (interp_spec) give %s" % (ser_tree(t)[:200], ci[:400], cs[:400])
        if not keys:
            chk.violation("scope/impl-vs-spec", desc, dict(replay, kind="impl-vs-spec", attr=attr), found=True)
        else:
            for k in keys:
                # a witness tree confirms its own key only; generated trees confirm whatever explains them
                if tags[i].startswith("witness:") and tags[i] != "witness:" + k and len(keys) > 1:
                    continue
                chk.violation(k, desc, dict(replay, kind="impl-vs-spec", attr=attr), found=True)
                confirmed.add(k)
    chk.cov["evaluations"] = len(trees)
    chk.cov["distinct_nontrivial"] = len(nontriv)
    chk.cov["rule"] = ("include trees on disk: %d generated (modern namespaces/affixes/aliases 58%%, Standards Version mixes 27%%, adversarial tokens 15%%; "
                       "depth <= %s; subdirectories, absolute/./.. include paths; scoped directives before and after each /INCLUDE; octal/decimal "
                       "FRAMEOFFSET probes and legacy RAW types as /VERSION probes; alias chains, loops, metafield aliases, /HIDDEN) + nested chains "
                       "of depth up to 33 around GD_MAX_RECURSE_LEVEL + one witness per recorded finding; non-trivial = distinct observed states of "
                       "successfully opened dirfiles with >= 2 fragments") % (ntrees, "5" if not chk.thorough else "8")
    chk.cov["outcomes"] = stat
    chk.cov["generators"] = per_profile
    chk.cov["known_keys_confirmed"] = sorted(confirmed)
    chk.violations.sort(key=lambda v: not v[3])     # failing inputs first
    if trans_problems:
        chk.violation("translator", "translator cannot read the directive interpreter: " + "; ".join(trans_problems[:4]),
                      {"kind": "translator", "problems": trans_problems}, found=False)
    if not proved and not chk.violations:
        chk.violation("proof", "Properties_C09 does not check: " + getattr(chk, "proof_log", "")[-1500:],
                      {"kind": "proof", "log": getattr(chk, "proof_log", "")[-4000:]}, found=False)
    return chk.finish()


if __name__ == "__main__":
    sys.exit(main())
