#!/usr/bin/env python3
"""C05 -- no file content can make the library misbehave.

proof (partial: index/count/recursion arithmetic of the code that consumes
untrusted bytes): Properties_C05.v  (+ tokeniser bound cited from C08, codec
windows from C02)
tie:     tr_limits.py (recursion limit + guarded evaluators regenerated);
         correspondence of the SIE cursor model and of the recursion model with
         the ASan+UBSan build on generated (mostly malformed) inputs
validation (testing, not proof): grammar+mutation fuzz of format files,
         LINTERP tables and data files of every encoding through every
         read-side call under ASan/UBSan/LSan."""
import sys, os, struct, gzip, bz2, lzma, subprocess, concurrent.futures as cf
sys.path.insert(0, os.path.join(os.path.dirname(os.path.abspath(__file__)), "..", "bin"))
import vlib

def errcode(name, default):
    import re
    for fn in ("getdata.h", "getdata.h.in"):
        try:
            m = re.search(r"#define\s+%s\s+\(\s*(-?\d+)\)" % name, open(os.path.join(vlib.REPO, "src", fn)).read())
            if m:
                return int(m.group(1))
        except OSError:
            pass
    return default


GD_E_RECURSE_LEVEL = errcode("GD_E_RECURSE_LEVEL", -10)


def asan_env():
    return {"ASAN_OPTIONS": "detect_leaks=1:abort_on_error=0:exitcode=77:allocator_may_return_null=1:malloc_context_size=12",
            "UBSAN_OPTIONS": "print_stacktrace=1:halt_on_error=1:exitcode=78"}


def san_report(out):
    for key in ("ERROR: AddressSanitizer", "runtime error:", "ERROR: LeakSanitizer", "SUMMARY: UndefinedBehaviorSanitizer"):
        if key in out:
            i = out.index(key)
            return out[i:i + 1500]
    return None


# ------------------------------------------------------------------ stream A: SIE cursor
def gen_sie_case(rng):
    kind = rng.random()
    n = rng.randint(0, 9)
    recs = []
    e = -1
    for _ in range(n):
        e += rng.randint(1, 6)
        recs.append([e, rng.randint(-50, 50)])
    tag = "monotone"
    if kind < 0.55 and n >= 2:
        tag = "malformed"
        for _ in range(rng.randint(1, 3)):
            k = rng.randrange(n)
            recs[k][0] = rng.choice([recs[k][0] - rng.randint(1, 12), -rng.randint(1, 5), rng.randint(0, 40),
                                     recs[k - 1][0], 2 ** 40, -2 ** 60, 2 ** 60, recs[k][0] + rng.randint(20, 200)])
    wins = []
    top = max([r[0] for r in recs] + [0])
    for _ in range(4):
        first = rng.choice([0, 0, rng.randint(0, 12), max(0, min(top, 60) - rng.randint(0, 3)), rng.randint(0, 70)])
        nelem = rng.choice([1, 2, 3, 10, rng.randint(1, 40), rng.randint(1, 120)])
        wins.append((first, nelem))
    return tag, recs, wins


def run_sie(chk, asan_impl, drv, ncases):
    exe = vlib.build_harness(asan_impl, os.path.join(vlib.VERIF, "harness/C05/sieread.c"))
    root = vlib.scratch("verif-c05-")
    cases = []
    # corpus first: the recorded overrun witness
    cases.append(("malformed", [[5, 11], [2, 22], [100, 33]], [(0, 10), (0, 3), (4, 4), (3, 30)]))
    for _ in range(ncases):
        cases.append(gen_sie_case(chk.rng))
    model_in = []
    jobs = []
    for ci, (tag, recs, wins) in enumerate(cases):
        d = os.path.join(root, "s%d" % ci)
        os.makedirs(d)
        open(d + "/format", "w").write("/ENCODING sie\n/ENDIAN little\ns RAW INT32 1\n")
        body = b"".join(struct.pack("<qi", e, v) for e, v in recs)
        if ci % 7 == 3:
            body += b"\x01\x02\x03"           # partial trailing record
        if ci % 11 == 5:
            body = b"\xff" * 8 + b"\x00" + body   # optional 9-byte header
        open(d + "/s.sie", "wb").write(body)
        # the record list the cursor sees: a file starting with 8 x 0xFF followed by more than one
        # byte has a 9-byte header (_GD_SampIndDiscardHeader); records are 12-byte units after it
        pay = body[9:] if (body[:8] == b"\xff" * 8 and len(body) > 9) else body
        seen = [list(struct.unpack("<qi", pay[i:i + 12])) for i in range(0, len(pay) - 11, 12)]
        cases[ci] = (tag, seen, wins)
        jobs.append((d, "".join("%d %d\n" % w for w in wins).encode()))
        for w in wins:
            model_in.append("S %d %d %s" % (w[0], w[1], " ".join("%d %d" % (e, v) for e, v in seen)))

    def one(job):
        return vlib.sh([exe, job[0]], inp=job[1], timeout=60, env=asan_env())
    with cf.ThreadPoolExecutor(vlib.NPROC) as ex:
        res = list(ex.map(one, jobs))
    rc, mout = vlib.sh([drv], inp=("\n".join(model_in) + "\n").encode(), timeout=600)
    mlines = mout.strip().split("\n")
    k = 0
    ndist = set()
    nmal = 0
    for (tag, recs, wins), (rci, out) in zip(cases, res):
        rep = san_report(out)
        lines = [l for l in out.split("\n") if l and l[0] in "-0123456789"]
        for wi, w in enumerate(wins):
            m = mlines[k] if k < len(mlines) else "?"
            k += 1
            chk.cov["evaluations"] += 1
            case = {"records(end,datum)": recs, "first_sample": w[0], "nelem": w[1]}
            if rep or rci != 0 and wi >= len(lines):
                chk.violation("sie-read/memory-safety", "SIE read of an untrusted record list misbehaves (sanitizer/abort): " + (rep or out[-300:])[:600],
                              dict(case, kind="impl-vs-spec", sanitizer=rep or out[-1500:], model=m,
                                   how="format '/ENCODING sie; s RAW INT32 1', s.sie = packed <qi records; harness/C05/sieread (ASan build); stdin 'first nelem'"))
                break
            if wi >= len(lines):
                chk.violation("sie-read/harness", "harness gave no output for window", dict(case, out=out[-500:]), found=False)
                break
            il = lines[wi].split()
            err, cnt, vals = int(il[0]), int(il[1]), il[2:]
            ml = m.split()
            if tag == "malformed":
                nmal += 1
            ndist.add((tuple(map(tuple, recs)), w))
            # property-level judgement: count within nelem, error code sane
            if cnt > w[1]:
                chk.violation("sie-read/count", "gd_getdata returned more samples than requested", dict(case, kind="impl-vs-spec", impl=lines[wi]))
            elif err == 0 and (str(cnt) != ml[0] or vals != ml[1:]):
                chk.violation("sie-read/model", "correspondence broken: SIE cursor model vs implementation: impl '%s' model '%s'" % (lines[wi], m),
                              dict(case, kind="model-vs-impl", correspondence="C05 sie_get vs gd_getdata64 on .sie", impl=lines[wi], model=m), found=False)
    chk.sample({"stream": "sie", "records(end,datum)": cases[1][1], "windows": cases[1][2]})
    return len(ndist), nmal


# ------------------------------------------------------------------ stream B: recursion
def gen_db(rng, limit):
    """closed database: names 0..n-1; returns (entries {n: [inputs]}, queries)"""
    style = rng.random()
    ent = {}
    if style < 0.35:       # chain of length L around the limit, RAW at the end
        L = rng.choice([limit - 3, limit - 2, limit - 1, limit, limit + 1, limit + 5, rng.randint(1, 45)])
        for i in range(L):
            ent[i] = [i + 1]
        ent[L] = []
        # side inputs
        for i in range(0, L, 5):
            if rng.random() < 0.5:
                ent[i] = ent[i] + [L]
    elif style < 0.7:      # cycle of length c reached through a prefix chain
        pre = rng.randint(0, 6)
        c = rng.randint(1, 5)
        for i in range(pre):
            ent[i] = [i + 1]
        for j in range(c):
            ent[pre + j] = [pre + (j + 1) % c]
        ent[pre + c] = []
        k = rng.randrange(pre + c)
        if rng.random() < 0.6:
            ent[k] = ([pre + c] + ent[k]) if rng.random() < 0.5 else (ent[k] + [pre + c])
    else:                   # random DAG with occasional back edge
        n = rng.randint(3, 14)
        for i in range(n):
            ent[i] = []
        for i in range(n - 1):
            for _ in range(rng.randint(0, 3)):
                ent[i].append(rng.randint(i + 1, n - 1))
            ent[i] = ent[i][:3]
        if rng.random() < 0.3:
            a = rng.randrange(n - 1)
            ent[rng.randint(a, n - 1)] = [a]
    q = sorted(ent)[:6] + [max(ent)]
    return ent, sorted(set(q))


def has_cycle(ent, q):
    """is a cycle reachable from q?"""
    state = {}
    def dfs(n):
        if state.get(n) == 1:
            return True
        if state.get(n) == 2:
            return False
        state[n] = 1
        for i in ent.get(n, []):
            if dfs(i):
                return True
        state[n] = 2
        return False
    return dfs(q)


def write_db(d, ent):
    os.makedirs(d)
    lines = ["/ENCODING none", "/ENDIAN little"]
    for n, ins in sorted(ent.items()):
        if not ins:
            lines.append("f%d RAW UINT8 1" % n)
            open(d + "/f%d" % n, "wb").write(bytes(range(1, 21)))
        elif len(ins) == 1:
            lines.append("f%d PHASE f%d 0" % (n, ins[0]))
        elif len(ins) == 2:
            lines.append("f%d MULTIPLY f%d f%d" % (n, ins[0], ins[1]))
        else:
            lines.append("f%d LINCOM 3 f%d 1 0 f%d 1 0 f%d 1 0" % (n, ins[0], ins[1], ins[2]))
    open(d + "/format", "w").write("\n".join(lines) + "\n")


def run_recurse(chk, asan_impl, drv, ncases):
    exe = vlib.build_harness(asan_impl, os.path.join(vlib.VERIF, "harness/C05/recurse.c"))
    root = vlib.scratch("verif-c05r-")
    limit = 32
    try:
        import re
        limit = int(re.search(r"gd_max_recurse_level : nat := (\d+)", open(os.path.join(vlib.COQ, "Gen/Limits.v")).read()).group(1))
    except Exception:
        pass
    cases = []
    for ci in range(ncases):
        ent, qs = gen_db(chk.rng, limit)
        cases.append((ent, qs))
    jobs = []
    model_in = []
    for ci, (ent, qs) in enumerate(cases):
        d = os.path.join(root, "r%d" % ci)
        write_db(d, ent)
        jobs.append((d, "".join("f%d\n" % q for q in qs).encode()))
        dbs = ";".join("%d:%s" % (n, ",".join(map(str, ins))) for n, ins in sorted(ent.items()))
        for q in qs:
            model_in.append("R %d %s" % (q, dbs))

    def one(job):
        return vlib.sh([exe, job[0]], inp=job[1], timeout=60, env=asan_env())
    with cf.ThreadPoolExecutor(vlib.NPROC) as ex:
        res = list(ex.map(one, jobs))
    rc, mout = vlib.sh([drv], inp=("\n".join(model_in) + "\n").encode(), timeout=600)
    mlines = mout.strip().split("\n")
    k = 0
    nrec = 0
    dist = set()
    for (ent, qs), (rci, out) in zip(cases, res):
        rep = san_report(out)
        if rep or rci != 0:
            chk.violation("recursion/hang" if rci in (-14, 142, 124) else "recursion/memory-safety",
                          ("an evaluator does not return within 30 s on a generated field graph (the last line shows how far it got): " if rci in (-14, 142, 124) else
                           "evaluation of a generated field graph misbehaves: ") + (rep or out[-300:])[:600],
                          {"kind": "impl-vs-spec", "db": ent, "queries": qs, "output": out[-1500:]})
            k += len(qs)
            continue
        lines = [l.split() for l in out.strip().split("\n") if l.startswith("f")]
        for qi, q in enumerate(qs):
            m = mlines[k] if k < len(mlines) else "?"
            k += 1
            chk.cov["evaluations"] += 1
            if qi >= len(lines):
                continue
            e_get, e_eof, e_bof, e_spf, lvl = map(int, lines[qi][1:6])
            dist.add((tuple(sorted((n, tuple(i)) for n, i in ent.items())), q))
            mg, me = (m.split() + ["?", "?"])[:2]
            want = GD_E_RECURSE_LEVEL if mg == "Recurse" else 0
            want_e = GD_E_RECURSE_LEVEL if me == "Recurse" else 0
            if mg == "Recurse":
                nrec += 1
            case = {"db(name:inputs)": {"f%d" % n: ["f%d" % i for i in ins] for n, ins in ent.items()}, "query": "f%d" % q}
            # property-level: a cycle must end in GD_E_RECURSE_LEVEL, nothing else may fail, counter balanced
            cyc = has_cycle(ent, q)
            if lvl != 0:
                chk.violation("recursion/counter", "recursion counter not back to 0 after the call (%d)" % lvl, dict(case, kind="impl-vs-spec", impl=lines[qi]))
            elif cyc and e_get != GD_E_RECURSE_LEVEL:
                chk.violation("recursion/cycle", "circular definition reachable from %s but gd_getdata gave error %d, not GD_E_RECURSE_LEVEL" % (case["query"], e_get),
                              dict(case, kind="impl-vs-spec", impl=lines[qi]))
            elif e_get not in (0, GD_E_RECURSE_LEVEL):
                chk.violation("recursion/other-error", "gd_getdata on a well-formed graph gave error %d" % e_get, dict(case, kind="impl-vs-spec", impl=lines[qi]))
            elif e_get != want:
                chk.violation("recursion/result", "correspondence broken: gd_getdata on %s: error %d, model (limit %d) says %s" % (case["query"], e_get, limit, mg),
                              dict(case, kind="model-vs-impl", correspondence="C05 get_top vs gd_getdata64", impl=lines[qi], model=m, limit=limit), found=False)
            for nm, e in (("eof", e_eof), ("bof", e_bof)):
                if e not in (0, GD_E_RECURSE_LEVEL) or (cyc and e != GD_E_RECURSE_LEVEL):
                    chk.violation("recursion/" + nm, "gd_%s on %s returned error %d" % (nm, case["query"], e), dict(case, kind="impl-vs-spec", impl=lines[qi]))
                elif e != want_e:
                    chk.violation("recursion/model-" + nm, "correspondence broken: gd_%s on %s: error %d, model says %s" % (nm, case["query"], e, me),
                                  dict(case, kind="model-vs-impl", correspondence="C05 eval_top vs gd_%s64" % nm, impl=lines[qi], model=m), found=False)
            if len(lines[qi]) >= 12:
                more = dict(zip(("seek", "tell", "native_type", "raw_close", "sync"), map(int, lines[qi][6:11])))
                lvl2 = int(lines[qi][11])
                if lvl2 != 0:
                    chk.violation("recursion/counter", "recursion counter not back to 0 after gd_seek/gd_tell/gd_native_type/gd_raw_close/gd_sync (%d)" % lvl2,
                                  dict(case, kind="impl-vs-spec", impl=lines[qi]))
                for nm, e in more.items():
                    # gd_tell may legitimately meet inputs that disagree on their position (GD_E_DOMAIN) before it meets the cycle
                    okset = (0, GD_E_RECURSE_LEVEL) + ((errcode("GD_E_ACCMODE", -3),) if nm == "sync" else ()) + ((errcode("GD_E_DOMAIN", -28),) if nm == "tell" else ())
                    if e not in okset or (cyc and e == 0):
                        chk.violation("recursion/" + nm, "gd_%s on %s returned error %d%s" % (nm, case["query"], e, " although a circular definition is reachable" if cyc else ""),
                                      dict(case, kind="impl-vs-spec", impl=lines[qi]))
            if e_spf not in (0, GD_E_RECURSE_LEVEL) or (me == "Ok" and e_spf != 0):
                chk.violation("recursion/spf", "gd_spf on %s returned error %d" % (case["query"], e_spf), dict(case, kind="impl-vs-spec", impl=lines[qi]))
    chk.sample({"stream": "recursion", "db": cases[0][0], "queries": cases[0][1]})
    return len(dist), nrec


# ------------------------------------------------------------------ stream C: fuzz (validation)
TYPES = ["INT8", "UINT8", "INT16", "UINT16", "INT32", "UINT32", "INT64", "UINT64", "FLOAT32", "FLOAT64", "COMPLEX64", "COMPLEX128"]
TSIZE = dict(zip(TYPES, [1, 1, 2, 2, 4, 4, 8, 8, 4, 8, 8, 16]))


def gen_format(rng, d):
    """mostly valid format + data files; returns the format text (bytes)"""
    enc = rng.choice(["none", "none", "text", "sie", "gzip", "bzip2", "lzma"])
    lines = ["/VERSION %d" % rng.choice([5, 6, 7, 8, 9, 10, 10, 10])] if rng.random() < 0.5 else []
    lines += ["/ENCODING " + enc, "/ENDIAN " + rng.choice(["little", "big", "big arm", "little arm"])]
    if rng.random() < 0.3:
        lines.append("/FRAMEOFFSET %d" % rng.randint(0, 5))
    names = []
    raws = []
    for i in range(rng.randint(1, 5)):
        t = rng.choice(TYPES)
        spf = rng.choice([1, 1, 2, 3, 4, 5, 8])
        nm = "r%d" % i
        lines.append("%s RAW %s %d" % (nm, t, spf))
        names.append(nm)
        raws.append((nm, t, spf))
    lines.append("k CONST FLOAT64 2.5")
    lines.append("z0 CONST UINT16 0")
    lines.append("ka CARRAY INT32 1 2 3 4")
    # scalar-parameter indirection: zero / out-of-range / missing scalars as spf and parameters
    sc = lambda: rng.choice(["z0", "k", "ka", "ka<1>", "ka<3>", "ka<4>", "ka<7>", "ka<100000000>", "ka<-1>", "nosuch", "st", "k<2>"])
    for i in range(rng.randint(0, 2)):
        nm = "q%d" % i
        t = rng.choice(TYPES)
        lines.append("%s RAW %s %s" % (nm, t, sc()))
        names.append(nm)
        raws.append((nm, t, 1))
    lines.append('st STRING "a b\\x41"')
    lines.append("sa SARRAY a b c")
    for i in range(rng.randint(2, 10)):
        a = rng.choice(names); b = rng.choice(names)
        nm = "d%d" % i
        kind = rng.choice(list(range(16)) + [14, 14, 4, 5, 10])
        if kind == 0:
            lines.append("%s LINCOM 2 %s 1.5 k %s 2 0" % (nm, a, b))
        elif kind == 14:
            # three inputs (rates and lengths differ between the RAWs), real or complex scalars, explicit or implicit count
            c = rng.choice(names)
            lines.append("%s LINCOM %s%s 1 0 %s %s 0 %s 3 %s" % (nm, rng.choice(["3 ", ""]), a, b, rng.choice(["2", "2;1", "k"]), c, rng.choice(["0", "0;2", "z0"])))
        elif kind == 15:
            lines.append("%s LINCOM %s %s %s" % (nm, a, rng.choice(["1", "2", "0;1", "k"]), rng.choice(["0", "1", "3;3"])))
        elif kind == 1:
            lines.append("%s LINTERP %s lut%d" % (nm, a, rng.randint(0, 3)))
        elif kind == 2:
            lines.append("%s BIT %s %d %d" % (nm, a, rng.randint(0, 70), rng.randint(0, 70)))
        elif kind == 3:
            lines.append("%s SBIT %s %d %d" % (nm, a, rng.randint(0, 63), rng.randint(1, 64)))
        elif kind == 4:
            lines.append("%s MULTIPLY %s %s" % (nm, a, b))
        elif kind == 5:
            lines.append("%s DIVIDE %s %s" % (nm, a, b))
        elif kind == 6:
            lines.append("%s RECIP %s 3;1" % (nm, a))
        elif kind == 7:
            lines.append("%s PHASE %s %d" % (nm, a, rng.choice([-3, 0, 2, 100, -100, 2 ** 62])))
        elif kind == 8:
            lines.append("%s POLYNOM %s 1 2 3 k" % (nm, a))
        elif kind == 9:
            lines.append("%s WINDOW %s %s %s %s" % (nm, a, b, rng.choice(["EQ", "GE", "LT", "SET", "CLR", "NE"]), rng.choice(["3", "1.5", "k", "0x10"])))
        elif kind == 10:
            lines.append("%s MPLEX %s %s %d %d" % (nm, a, b, rng.randint(0, 4), rng.randint(0, 6)))
        elif kind == 11:
            lines.append("%s INDIR %s %s" % (nm, a, rng.choice(["ka", "ka", "ka", "sa", "k", "st", b])))      # also inputs of the wrong kind
        elif kind == 12:
            lines.append("%s SINDIR %s %s" % (nm, a, rng.choice(["sa", "sa", "sa", "ka", "st", "k", b])))
        else:
            lines.append("/ALIAS %s %s" % (nm, rng.choice(names + [nm, "nosuch"])))
        if rng.random() < 0.25:
            # replace one numeric parameter of the last line by a scalar code
            toks = lines[-1].split(" ")
            cand = [j for j, t in enumerate(toks[2:], 2) if t.replace("-", "").replace(".", "").isdigit()]
            if cand:
                toks[rng.choice(cand)] = sc()
                lines[-1] = " ".join(toks)
        names.append(nm)
        if rng.random() < 0.15:
            lines.append("%s/m CONST UINT8 %d" % (nm, rng.randint(0, 9)))
        if rng.random() < 0.1:
            lines.append("/HIDDEN " + nm)
    if rng.random() < 0.35:
        # a bundle of aliases whose targets are drawn from the bundle itself, real fields and a missing name:
        # chains, chains running into a cycle that does not contain their head, self loops, dangling ends
        k = rng.randint(2, 7)
        al = ["al%d" % i for i in range(k)]
        for i, an in enumerate(al):
            lines.append("/ALIAS %s %s" % (an, rng.choice(al + al + [rng.choice(names), "nosuch"])))
        if rng.random() < 0.5:
            lines.append("ad PHASE %s 1" % rng.choice(al))
            names.append("ad")
        names += al
    if rng.random() < 0.3:
        lines.append("/REFERENCE " + rng.choice(names))
    if rng.random() < 0.25:
        sub = rng.choice(["sub.fmt", "format", "nosuch.fmt"])
        lines.append("/INCLUDE %s %s" % (sub, rng.choice(["", "P_", "P_ _S", "ns."])))
        if sub == "sub.fmt":
            sl = ["q RAW UINT8 1", "/INCLUDE %s" % rng.choice(["sub.fmt", "format", "sub2.fmt"]), "z PHASE q 1"]
            open(os.path.join(d, "sub.fmt"), "w").write("\n".join(sl) + "\n")
            open(os.path.join(d, "sub2.fmt"), "w").write("/INCLUDE sub.fmt A\nw CONST UINT8 1\n")
    # data files
    for nm, t, spf in raws:
        # lengths around the read windows of the harness (a few frames) so that multi-input fields see inputs
        # ending at different places inside a window, plus empty / partial-sample / multi-buffer files
        nb = rng.choice([0, 1, 7, 40, 333, 4096 + rng.randint(0, 64)] + [rng.randint(0, 12) * spf * TSIZE[t] + rng.choice([0, 0, 1]) for _ in range(4)])
        raw = bytes(rng.getrandbits(8) for _ in range(nb)) if rng.random() < 0.7 else bytes(nb)
        if enc == "none":
            open(os.path.join(d, nm), "wb").write(raw)
        elif enc == "text":
            txt = "".join(rng.choice(["%d\n" % rng.randint(-300, 300), "%g\n" % rng.uniform(-9, 9), "1;2\n", "x\n", "\n", "9" * 40 + "\n", "nan\n", "0x1f\n"]) for _ in range(rng.randint(0, 30)))
            open(os.path.join(d, nm + ".txt"), "w").write(txt)
        elif enc == "sie":
            rs = TSIZE[t] + 8
            e = -1
            body = b""
            for _ in range(rng.randint(0, 8)):
                e += rng.randint(1, 9) if rng.random() < 0.8 else -rng.randint(0, 9)
                body += struct.pack("<q" if rng.random() < 0.9 else ">q", e) + bytes(rng.getrandbits(8) for _ in range(TSIZE[t]))
            if rng.random() < 0.2:
                body = b"\xff" * 8 + bytes([rng.getrandbits(8)]) + body
            if rng.random() < 0.2:
                body += bytes(rng.getrandbits(8) for _ in range(rng.randint(1, rs - 1)))
            open(os.path.join(d, nm + ".sie"), "wb").write(body)
        else:
            comp = {"gzip": gzip.compress, "bzip2": bz2.compress, "lzma": lzma.compress}[enc](raw)
            ext = {"gzip": ".gz", "bzip2": ".bz2", "lzma": ".xz"}[enc]
            r = rng.random()
            if r < 0.3 and len(comp) > 4:
                comp = comp[:rng.randint(1, len(comp) - 1)]
            elif r < 0.55 and len(comp) > 4:
                b = bytearray(comp)
                for _ in range(rng.randint(1, 4)):
                    b[rng.randrange(len(b))] ^= 1 << rng.randrange(8)
                comp = bytes(b)
            elif r < 0.6:
                comp = b""
            open(os.path.join(d, nm + ext), "wb").write(comp)
    for i in range(4):
        r = rng.random()
        if r < 0.15:
            continue
        rows = []
        x = rng.uniform(-5, 5)
        nrows = rng.choice([0, 1, 2, 3, 10, 40, 99, 100, 101, 199, 200, 201, 250])      # GD_LUT_CHUNK is 100: cross the growth step
        cplx = rng.random() < 0.2
        for _ in range(nrows):
            x += rng.choice([1.0, 0.5, 0.0, -1.0, 2.0])
            if nrows > 40:      # long tables: valid rows only (one bad row ends the table), a bad one perhaps at the very end
                rows.append("%g %g;%g" % (x, 1.0, 2.0) if cplx else "%g %g" % (x, rng.uniform(-3, 3)))
            else:
                rows.append(rng.choice(["%g %g" % (x, rng.uniform(-3, 3))] * 6 + ["%g %g;%g" % (x, 1.0, 2.0), "junk", "nan 1", "%g" % x, "1e999 2", "# c"]))
        if nrows > 40 and rng.random() < 0.2:
            rows.append(rng.choice(["junk", "%g" % x, "1 2;"]))
        open(os.path.join(d, "lut%d" % i), "w").write("\n".join(rows) + ("\n" if rng.random() < 0.8 else ""))
    return ("\n".join(lines) + "\n").encode()


def gen_multirate(rng, d):
    """focused grammar: a few short RAW files of different rates and lengths (none/gzip) and many multi-input
    fields over them, so that every input-alignment and short-input clamp of the derived-field evaluators is
    crossed by the fixed read windows of the harness (which start at samples 0, 1, 2, 3, 5, 7 and near the end)"""
    enc = rng.choice(["none", "none", "none", "gzip"])
    lines = ["/ENCODING " + enc, "/ENDIAN little"]
    if rng.random() < 0.3:
        lines.append("/FRAMEOFFSET %d" % rng.randint(1, 3))
    raws = []
    for i in range(rng.randint(3, 4)):
        t = rng.choice(["UINT8", "INT16", "FLOAT32", "FLOAT64", "FLOAT64", "COMPLEX128"])
        spf = rng.choice([1, 2, 3, 4, 5, 8])
        raws.append(("r%d" % i, t, spf))
        lines.append("r%d RAW %s %d" % (i, t, spf))
    lines.append("ka CARRAY FLOAT64 1 2 3 4 5 6 7 8 9")
    R = [r[0] for r in raws]
    for i in range(rng.randint(5, 9)):
        a, b, c = rng.choice(R), rng.choice(R), rng.choice(R)
        k = rng.randrange(8)
        nm = "m%d" % i
        if k < 3:
            lines.append("%s LINCOM 3 %s 1 0 %s 1 0 %s 1 0" % (nm, a, b, c))
        elif k == 3:
            lines.append("%s LINCOM 2 %s 2 1 %s 3;1 0" % (nm, a, b))
        elif k == 4:
            lines.append("%s %s %s %s" % (nm, rng.choice(["MULTIPLY", "DIVIDE"]), a, b))
        elif k == 5:
            lines.append("%s MPLEX %s %s %d %d" % (nm, a, b, rng.randint(0, 3), rng.randint(0, 5)))
        elif k == 6:
            lines.append("%s WINDOW %s %s %s %d" % (nm, a, b, rng.choice(["GE", "LT", "NE"]), rng.randint(0, 100)))
        else:
            lines.append("%s INDIR %s ka" % (nm, a))
    for nm, t, spf in raws:
        nsamp = rng.choice([0, 1, 2, 3, spf, 2 * spf + 1, rng.randint(0, 6 * spf), rng.randint(20, 60) * spf])
        raw = bytes(rng.getrandbits(7) for _ in range(nsamp * TSIZE[t]))
        if enc == "none":
            open(os.path.join(d, nm), "wb").write(raw)
        else:
            open(os.path.join(d, nm + ".gz"), "wb").write(gzip.compress(raw))
    return ("\n".join(lines) + "\n").encode()


def mutate(rng, b):
    b = bytearray(b)
    r = rng.random()
    if r < 0.35 or not b:
        return bytes(b)
    for _ in range(rng.randint(1, 5)):
        op = rng.randrange(7)
        if not b:
            break
        i = rng.randrange(len(b))
        if op == 0:
            b[i] = rng.getrandbits(8)
        elif op == 1:
            del b[i:i + rng.randint(1, 12)]
        elif op == 2:
            b[i:i] = bytes(rng.choice(b'"\\#<>;./ \t\n\x00\xff0x7uU8') for _ in range(rng.randint(1, 6)))
        elif op == 3:
            b[i:i] = rng.choice([b"\\x", b"\\u1F", b"\\777", b'"', b"\\\n", b" <1>", b"9" * 30, b"a" * 300, b"/INCLUDE format\n", b"/VERSION 3\n", b"/PROTECT all\n"])
        elif op == 4:
            b = b[:i]
        elif op == 5:
            j = rng.randrange(len(b)); b[i], b[j] = b[j], b[i]
        else:
            ln = bytes(b).split(b"\n"); k = rng.randrange(len(ln)); ln.insert(k, ln[rng.randrange(len(ln))]); b = bytearray(b"\n".join(ln))
    return bytes(b)


def run_fuzz(chk, asan_impl, ncases):
    exe = vlib.build_harness(asan_impl, os.path.join(vlib.VERIF, "harness/C05/fuzz.c"), extra="-DC05_FRAMENUM")
    root = vlib.scratch("verif-c05f-")
    jobs = []
    for ci in range(ncases):
        d = os.path.join(root, "z%d" % ci)
        os.makedirs(d)
        fmt = gen_multirate(chk.rng, d) if ci % 4 == 3 else mutate(chk.rng, gen_format(chk.rng, d))
        open(d + "/format", "wb").write(fmt)
        jobs.append((d, fmt, "p" if ci % 5 == 0 else "n"))

    def one(job):
        # two runs with differently filled heaps: equal observable results are required
        e1 = asan_env(); e1["ASAN_OPTIONS"] += ":malloc_fill_byte=17:max_malloc_fill_size=67108864"
        e2 = asan_env(); e2["ASAN_OPTIONS"] += ":malloc_fill_byte=238:max_malloc_fill_size=67108864"
        r1 = vlib.sh([exe, job[0], job[2]], timeout=40, env=e1)
        r2 = vlib.sh([exe, job[0], job[2]], timeout=40, env=e2)
        return r1, r2
    with cf.ThreadPoolExecutor(vlib.NPROC) as ex:
        res2 = list(ex.map(one, jobs))
    res = [a for a, b in res2]
    uninit_seen = {}
    for (d, fmt, ped), (ra, rb) in zip(jobs, res2):
        if ra[0] != 0 or rb[0] != 0 or san_report(ra[1]) or san_report(rb[1]):
            continue
        la = [l for l in ra[1].split("\n") if " sum=" in l]
        lb = [l for l in rb[1].split("\n") if " sum=" in l]
        for x, y in zip(la, lb):
            if x != y:
                call = x.split()[0]
                key = "fuzz/uninitialised/%s" % call
                if key not in uninit_seen:
                    uninit_seen[key] = True
                    files = {fn: open(os.path.join(d, fn), "rb").read()[:4000].hex() for fn in sorted(os.listdir(d))}
                    chk.violation(key, "the result of %s on field %s depends on uninitialised memory (two runs with differently filled heaps: '%s' vs '%s')" % (
                        call, x.split()[1], x, y),
                        {"kind": "impl-vs-spec", "files_hex": files, "mode": ped, "run_fill_0x11": x, "run_fill_0xEE": y,
                         "how": "write files_hex into a directory; harness/C05/fuzz <dir> under ASAN_OPTIONS=malloc_fill_byte=17 / 238"})
                break
    calls = 0
    errkinds = {}
    accepted = 0
    classes = {}
    for (d, fmt, ped), (rc, out) in zip(jobs, res):
        chk.cov["evaluations"] += 1
        rep = san_report(out)
        nl = [l for l in out.split("\n") if l and l.split()[0].islower()]
        calls += len(nl)
        for l in nl:
            p = l.split()
            if len(p) >= 4:
                errkinds[p[-2]] = errkinds.get(p[-2], 0) + 1
        if "open - 0" in out:
            accepted += 1
        problem = None
        import re as _re
        mcf = _re.search(r"CLOSE-FAILED (-?\d+)", out)
        if mcf:
            # gd_close refused to release the handle (by design it keeps it when closing a file
            # fails); judged separately from what the sanitizer says afterwards
            never = "DISCARD-NEVER" in out
            key = "close/%s(error=%s)" % ("handle-never-released" if never else "first-close-fails-on-readonly-handle", mcf.group(1))
            if key not in classes:
                classes[key] = True
                files = {fn: open(os.path.join(d, fn), "rb").read()[:4000].hex() for fn in sorted(os.listdir(d))}
                chk.violation(key, "gd_close on a read-only handle fails with error %s after reading corrupt data%s" % (
                    mcf.group(1), " and gd_discard never succeeds" if never else " (gd_discard succeeds after retries)"),
                    {"kind": "impl-vs-spec", "files_hex": files, "mode": ped, "tail": out[-600:],
                     "how": "write files_hex into a directory; harness/C05/fuzz <dir> (asanmem build)"})
            if never:
                continue
        if rep:
            problem = ("sanitizer", rep)
        elif rc == 124:
            problem = ("hang", "no answer within 40 s")
        elif "FD-LEAK" in out:
            import re as _re2
            # which calls touched a data file: name the class by the last size/eof style call is not
            # possible from outside; classify by encoding + leak count instead
            enc = _re2.search(rb"/ENCODING (\w+)", fmt)
            problem = ("descriptor-leak-%s" % (enc.group(1).decode("latin1") if enc else "none"), out[out.index("FD-LEAK"):][:200])
        elif rc != 0:
            problem = ("exit-%d" % rc, out[-800:])
        if problem:
            # classify by the top frames in getdata sources so that the same defect maps to one key
            import re
            frames = re.findall(r"#\d+ 0x[0-9a-f]+ in (\w+) [^\n]*/src/(\w+\.c):(\d+)", problem[1])
            top = frames[0] if frames else ("?", "?", "?")
            key = "fuzz/%s/%s:%s" % (problem[0], top[1], top[0])
            if key not in classes:
                classes[key] = True
                files = {}
                for fn in sorted(os.listdir(d)):
                    bts = open(os.path.join(d, fn), "rb").read()
                    files[fn] = bts[:4000].hex()
                chk.violation(key, "malformed dirfile makes the library misbehave (%s) in %s (%s:%s)" % (problem[0], top[0], top[1], top[2]),
                              {"kind": "impl-vs-spec", "files_hex": files, "mode": ped, "report": problem[1][:3000],
                               "how": "write files_hex into a directory; harness/C05/fuzz <dir> (ASan+UBSan build)"})
    chk.cov["fuzz_calls"] = calls
    chk.cov["fuzz_accepted_dirfiles"] = accepted
    chk.cov["fuzz_error_code_histogram"] = errkinds
    chk.sample({"stream": "fuzz", "format": jobs[0][1].decode("latin1")[:600]})
    return accepted


# ------------------------------------------------------------------ stream D: lzma decode window
def run_lzma(chk, drv, ncases):
    """xz-encoded RAW fields read through ONE handle with tiny decode buffers (hook H1) so that the
    window is crossed constantly: forward reads, backward seeks before the look-back (rewind), seeks
    inside the window, reads over the end.  Expected = the model's (count, start) for the same ops,
    which by lzma_read_returns_contiguous_stream_bytes is the slice of the stream."""
    DOUT, DIN, LB = 64, 32, 16
    impl = vlib.build_impl("asanmem", "-DGD_VERIF_LZMA_DATA_OUT=%d -DGD_VERIF_LZMA_DATA_IN=%d -DGD_VERIF_LZMA_LOOKBACK=%d" % (DOUT, DIN, LB))
    exe = vlib.build_harness(impl, os.path.join(vlib.VERIF, "harness/C05/xzhist.c"))
    root = vlib.scratch("verif-c05z-")
    rng = chk.rng
    TY = [("UINT8", 1), ("UINT16", 2), ("INT32", 4), ("FLOAT64", 8), ("COMPLEX128", 16)]
    jobs, mlines, meta = [], [], []
    for ci in range(ncases):
        tn, size = rng.choice(TY)
        nsamp = rng.choice([0, 1, 3, 9, 40, 130, rng.randint(1, 400)])
        partial = rng.choice([0, 0, 0, rng.randint(1, size - 1) if size > 1 else 0])
        raw = bytes(rng.getrandbits(8) for _ in range(nsamp * size + partial))
        d = os.path.join(root, "x%d" % ci)
        os.makedirs(d)
        open(d + "/format", "w").write("/ENCODING lzma\n/ENDIAN little\nx RAW %s 1\n" % tn)
        open(d + "/x.xz", "wb").write(lzma.compress(raw))
        ops = []
        pos = 0
        for _ in range(rng.randint(2, 9)):
            k = rng.random()
            if k < 0.4:
                first = pos                                  # sequential
            elif k < 0.6:
                first = max(0, pos - rng.randint(1, 12))     # back inside / just outside the look-back
            elif k < 0.8:
                first = rng.randint(0, max(0, nsamp + 3))    # anywhere, also past the end
            else:
                first = max(0, pos - rng.randint(20, 200))   # far back: rewind
            n = rng.choice([1, 2, 5, 17, rng.randint(1, 90)])
            ops.append((first, n))
            pos = min(first + n, nsamp)
        line = " ".join("%d,%d" % o for o in ops)
        jobs.append((d, size, line))
        mlines.append("Z %d %d %d %d %s" % (size, len(raw), DOUT, LB, line))
        meta.append((tn, size, raw, ops))

    def one(job):
        return vlib.sh([exe, job[0], str(job[1])], inp=(job[2] + "\n").encode(), timeout=60, env=asan_env())
    with cf.ThreadPoolExecutor(vlib.NPROC) as ex:
        res = list(ex.map(one, jobs))
    rc, mo = vlib.sh([drv], inp=("\n".join(mlines) + "\n").encode(), timeout=900)
    mo = mo.strip().split("\n")
    dist = set()
    for (tn, size, raw, ops), (rci, out), ml in zip(meta, res, mo):
        rep = san_report(out)
        case = {"type": tn, "stream_len_bytes": len(raw), "ops(first,n)": ops, "buffers": {"DATA_OUT": DOUT, "DATA_IN": DIN, "LOOKBACK": LB}}
        if rep or rci != 0:
            chk.violation("lzma-window/memory-safety", "reads of an xz field through one handle misbehave: " + (rep or out[-300:])[:500],
                          dict(case, kind="impl-vs-spec", report=(rep or out)[-1500:], data_hex=raw[:2000].hex()))
            continue
        got = out.strip().split()
        exp = ml.split()
        nsamp = len(raw) // size
        for oi, (first, n) in enumerate(ops):
            chk.cov["evaluations"] += 1
            dist.add((raw[:64], size, tuple(ops[:oi + 1])))
            g = got[oi] if oi < len(got) else "?"
            want_n = max(0, min(n, nsamp - first))
            want = "%d:%s" % (want_n, raw[first * size:(first + want_n) * size].hex())
            if g != want:
                chk.violation("lzma-window/data", "xz field, op %d (first=%d n=%d): implementation returns %s, the stream holds %s" % (oi, first, n, g[:80], want[:80]),
                              dict(case, kind="impl-vs-spec", op=oi, impl=g, spec=want, data_hex=raw[:2000].hex()))
                break
            m = exp[oi] if oi < len(exp) else "?"
            if m != "%d@%d" % (want_n, min(first, nsamp) * size if want_n == 0 else first * size) and want_n > 0:
                chk.violation("lzma-window/model", "correspondence broken: lzma window model gives %s for op %d, the stream slice is %d@%d" % (m, oi, want_n, first * size),
                              dict(case, kind="model-vs-impl", correspondence="C05 lzma_seek/lzma_read vs gd_getdata64 on .xz", model=m), found=False)
                break
    chk.sample({"stream": "lzma-window", "type": meta[0][0], "bytes": len(meta[0][2]), "ops": meta[0][3]})
    return len(dist)


# ------------------------------------------------------------------ stream E: bzip2 decode window
def run_bzip(chk, drv, ncases):
    """bz2 files (valid, CRC-corrupted so that the decoder fails only at the end, bit-flipped, truncated) driven
    through _GD_Bzip2Seek/_GD_Bzip2Read/_GD_Bzip2Size of the current src/bzip.c with a 64-byte window (hook H1).
    harness/C05/bzhist.c logs every BZ2_bzRead answer; these answers are the oracle of the extracted model
    (bz_script_orc), so the window state after EVERY call must equal the model's, for failing decoders too."""
    CAP = 64
    impl = vlib.build_impl("asanmem", "-DGD_VERIF_BZIP_BUFFER_SIZE=%d" % CAP)
    exe = vlib.build_harness(impl, os.path.join(vlib.VERIF, "harness/C05/bzhist.c"))
    root = vlib.scratch("verif-c05b-")
    rng = chk.rng
    jobs, meta = [], []
    for ci in range(ncases):
        size = rng.choice([1, 1, 2, 4, 8, 16])
        nbytes = rng.choice([0, 1, CAP - 1, CAP, CAP + 1, 2 * CAP, 3 * CAP, 5 * CAP + 7, rng.randint(0, 900), rng.randint(0, 900)])
        raw = bytes(rng.getrandbits(8) for _ in range(nbytes))
        comp = bytearray(bz2.compress(raw, rng.choice([1, 9])))
        mode = rng.choice(["valid"] * 6 + ["crc", "crc", "flip", "trunc"])
        if mode == "crc" and len(comp) > 14 and nbytes > 0:
            comp[10 + rng.randint(0, 3)] ^= 1 << rng.randint(0, 7)
        elif mode == "flip" and len(comp) > 20:
            comp[rng.randint(14, len(comp) - 1)] ^= 1 << rng.randint(0, 7)
        elif mode == "trunc" and len(comp) > 4:
            del comp[rng.randint(1, len(comp) - 1):]
        else:
            mode = "valid"
        d = os.path.join(root, "b%d" % ci)
        os.makedirs(d)
        open(d + "/format", "w").write("/ENCODING bzip2\nx RAW UINT8 1\n")
        open(d + "/x.bz2", "wb").write(bytes(comp))
        nsamp = nbytes // size
        ops, pos = [], 0
        for _ in range(rng.randint(2, 10)):
            k = rng.random()
            if k < 0.35:
                n = rng.choice([0, 1, 2, 5, CAP // size, CAP // size + 1, rng.randint(0, 2 * CAP), nsamp + 3])
                ops.append("R%d" % n); pos = min(nsamp, pos + n)
            elif k < 0.5:
                t = max(0, pos - rng.randint(0, CAP // size + 2))              # inside / just before the window
            elif k < 0.65:
                t = rng.randint(0, nsamp + 4)                                  # anywhere, also past the end
            elif k < 0.8:
                t = max(0, pos - rng.randint(CAP // size, 4 * CAP))            # far back: restart
            elif k < 0.9:
                t = pos + rng.randint(0, 3 * CAP)                              # forward
            else:
                ops.append("Z"); continue
            if k >= 0.35:
                ops.append("S%d" % t); pos = min(t, nsamp)
        jobs.append((d, size, " ".join(ops)))
        meta.append((size, raw, bytes(comp), mode, ops))

    def one(job):
        return vlib.sh([exe, job[0], "x.bz2", str(job[1])], inp=(job[2] + "\n").encode(), timeout=120, env=asan_env())
    with cf.ThreadPoolExecutor(vlib.NPROC) as ex:
        res = list(ex.map(one, jobs))

    # parse the harness logs: the BZ2_bzRead answers logged before each "=" line are the oracle script of that call
    # (a decoder that has failed once may answer anything later, so answers are not a function of the position)
    parsed, mlines = [], []
    for (size, raw, comp, mode, ops), (rci, out) in zip(meta, res):
        script, sdec, evs, cur, scripts = {}, {}, [], [], []
        for l in out.splitlines():
            w = l.split(" ")
            if w[0] in ("O", "o") and len(w) >= 4:
                dpos, n, err = int(w[1]), int(w[2]), int(w[3])
                r = "E" if err not in (0, 4) else ("1" if err == 4 else "0")
                script[(len(evs), len(cur), dpos)] = (n, r)
                cur.append("%d:%d:%s" % (dpos, n, r))
                if r != "E" and w[0] == "O":
                    sdec[dpos] = bytes.fromhex(w[4]) if len(w) > 4 and w[4] else b""
            elif w[0] == "=":
                evs.append(w[1:])
                scripts.append(",".join(cur)); cur = []
        parsed.append((script, sdec, evs, None))
        mlines.append("B %d %s" % (size, " ".join("%s@%s" % (op, scripts[i] if i < len(scripts) else "") for i, op in enumerate(ops))))
    rc, mo = vlib.sh([drv], inp=("\n".join(mlines) + "\n").encode(), timeout=900)
    mo = mo.split("\n")

    dist, nerr, modes, pending_model = set(), 0, {}, []
    for ci, ((size, raw, comp, mode, ops), (rci, out), (script, sdec, evs, bad), ml) in enumerate(zip(meta, res, parsed, mo)):
        modes[mode] = modes.get(mode, 0) + 1
        case = {"stream": "bzip2-window", "sample_size": size, "window_bytes": CAP, "file_kind": mode, "ops": ops,
                "bz2_file_hex": comp[:4000].hex(), "decoded_len": len(raw)}
        rep = san_report(out)
        if rep or rci != 0 or "END" not in out:
            hang = rci == 124 or rci == -9
            chk.violation("bzip2-window/" + ("hang" if hang else "memory-safety"),
                          "seek/read/size over a bz2 file through one handle misbehave (%s): " % mode + (rep or out[-300:])[:500],
                          dict(case, kind="impl-vs-spec", report=(rep or out)[-1500:]))
            continue
        if "OPENFAIL" in out:
            continue
        # the assumed contract of BZ2_bzRead (what the theorems assume of the decoder)
        L = len(raw)
        for (_, _, dp), (n, r) in script.items():
            okc = 0 <= n <= CAP and (r != "0" or n == CAP)
            if mode == "valid" and r != "E":
                okc = okc and dp + n <= L and (r != "1" or dp + n == L)
            if not okc or bad:
                chk.violation("bzip2-window/decoder-contract", "libbz2 answered outside the contract the bzip2 window theorems assume: " +
                              (bad or "at %d: n=%d status=%s (stream length %d)" % (dp, n, r, L)),
                              dict(case, kind="trusted-base", theorem="bzip2_read_returns_contiguous_stream_bytes (hypothesis ok_bzresp)"), found=False)
                break
        mops = [x for x in ml.split("|") if x]
        if len(mops) != len(ops) or len(evs) != len(ops):
            chk.violation("bzip2-window/model", "correspondence broken: %d ops, %d implementation events, %d model events" % (len(ops), len(evs), len(mops)),
                          dict(case, kind="model-vs-impl", correspondence="C05 bz_seek/bz_read/bz_size vs src/bzip.c", model=ml[:500], impl=out[-800:]), found=False)
            continue
        cursor = 0
        broken = None      # first model/implementation disagreement; the scan goes on looking for a concrete failure
        concrete = False
        for oi, (op, ev, mv) in enumerate(zip(ops, evs, mops)):
            chk.cov["evaluations"] += 1
            dist.add((comp[:80], size, tuple(ops[:oi + 1])))
            m = mv.split(" ")
            if op == "Z":
                if m[2] == "E":
                    nerr += 1
                if ev[1] != m[1] and broken is None:
                    broken = ("correspondence broken: _GD_Bzip2Size returns %s, model %s" % (ev[1], m[1]),
                              dict(case, kind="model-vs-impl", correspondence="C05 bz_size vs _GD_Bzip2Size", op=oi))
                continue
            ret, base, pos, end, send, fpos = [int(x) for x in ev[1:7]]
            inv_ok = 0 <= pos <= end <= CAP and base >= 0
            data_ok = True
            if op[0] == "R" and ret > 0:
                got = bytes.fromhex(ev[7]) if len(ev) > 7 else b""
                want = bytearray()
                for dp in sorted(sdec):
                    if dp < cursor + ret * size and dp + len(sdec[dp]) > cursor:
                        want += sdec[dp][max(0, cursor - dp):cursor + ret * size - dp]
                data_ok = got == bytes(want)
            if not inv_ok or not data_ok or (op[0] == "R" and ret > int(op[1:])):
                chk.violation("bzip2-window/window-invariant",
                              "op %d (%s) on a %s bz2 file leaves base=%d pos=%d end=%d (window %d) ret=%d%s" %
                              (oi, op, mode, base, pos, end, CAP, ret, "" if data_ok else "; the bytes returned are not the decoded bytes at the cursor"),
                              dict(case, kind="impl-vs-spec", op=oi, impl=ev, model=mv))
                concrete = True
                break
            if m[7] == "E":
                nerr += 1
            if broken is None and [str(x) for x in (ret, base, pos, end, send, fpos)] != m[1:7]:
                broken = ("correspondence broken: after op %d (%s) the implementation has ret,base,pos,end,stream_end,file->pos = %s, the model %s" %
                          (oi, op, ev[1:7], m[1:8]),
                          dict(case, kind="model-vs-impl", correspondence="C05 bz_seek/bz_read vs src/bzip.c", op=oi, impl=ev[:7], model=mv))
            cursor = base + pos
        if broken and not concrete:
            pending_model.append(broken)
    # a broken correspondence is reported with the concrete failures found by the scan; without any, as such
    nconc = sum(1 for v in chk.violations if v[0].startswith("bzip2-window/") and v[3])
    for desc, rep in pending_model[:(0 if nconc else 3)]:
        chk.violation("bzip2-window/model", desc, rep, found=False)
    chk.sample({"stream": "bzip2-window", "kinds": modes, "ops_with_decoder_error": nerr, "example_ops": meta[0][4]})
    return len(dist)


def main():
    chk = vlib.Check("C05")
    rc, tout = vlib.sh("python3 %s/translate/tr_limits.py" % vlib.VERIF)
    tprob = [l for l in tout.splitlines() if l.startswith("PROBLEM")]
    proved = chk.prove("Properties_C05", extra_targets=["Gen/Limits.vo"])
    chk.cov["trusted_base"] += [
        "Coq 8.16.1 kernel, vm_compute only",
        "translator translate/tr_limits.py (GD_MAX_RECURSE_LEVEL and the list of guarded recursive evaluators, regex over src/*.c)",
        "hand-written models coq/C05/{Recurse,SieRead,GetIndex}.v tied by correspondence with the ASan+UBSan build (SIE cursor: counts and data; recursion: error codes and D->recurse_level)",
        "memory safety of the compiled C outside the modelled arithmetic is VALIDATED (sanitizer runs on generated malformed inputs), not proved",
        "extraction: ExtrOcamlBasic only; OCaml driver ocaml/C05/driver.ml",
    ]
    chk.assumptions += ["zlib/libbz2/liblzma are trusted to reject corrupted streams without memory errors of their own",
                        "allocation failure paths are not exercised"]
    try:
        asan = vlib.build_impl("asanmem")
        ok, log = vlib.coq_make(["Gen/Limits.vo", "C05/SieRead.vo", "C05/Recurse.vo", "C05/LzmaWindow.vo", "C05/BzipWindow.vo"])
        drv = vlib.build_ocaml_driver("C05", "C05/Extract.v", "ocaml/C05/driver.ml")
    except vlib.BuildError as e:
        chk.violation("build", "build failed: " + str(e)[:1500], {"kind": "build"}, found=False)
        return chk.finish()
    T = chk.thorough
    d1, nmal = run_sie(chk, asan, drv, 2500 if T else 250)
    d2, nrec = run_recurse(chk, asan, drv, 1500 if T else 150)
    acc = run_fuzz(chk, asan, 6000 if T else 500)
    d4 = run_lzma(chk, drv, 1500 if T else 160)
    d5 = run_bzip(chk, drv, 2500 if T else 300)
    chk.cov["distinct_nontrivial"] = d1 + d2 + d4 + d5
    chk.cov["rule"] = ("stream A: SIE record lists (%d malformed windows: non-monotonic/negative/huge indices, partial trailing record) x 4 windows, "
                       "fresh handle each, ASan build, compared with the extracted sie_get; stream B: closed field graphs (chains around the recursion "
                       "limit, cycles behind prefixes, DAGs with back edges; %d queries the model answers Recurse) compared with eval_top; "
                       "stream D: xz fields read through one handle with 64/32/16-byte decode buffers (sequential, back inside/outside the look-back, rewind, past the end) vs the slice the lzma window theorems promise; "
                       "stream E: bz2 files (valid / CRC-corrupted / bit-flipped / truncated) driven through _GD_Bzip2Seek/Read/Size with a 64-byte window, every BZ2_bzRead answer logged and replayed as the model's oracle, window state compared after every call; stream C (validation only, not counted as distinct_nontrivial): grammar-generated dirfiles of every encoding with corrupted "
                       "data/LINTERP files and byte-mutated format text through every read-side call under ASan+UBSan+LSan (%d of them accepted by gd_open). "
                       "distinct_nontrivial = distinct (record list, window) + distinct (graph, query)") % (nmal, nrec, acc)
    if tprob and not chk.violations:
        chk.violation("translator", "tr_limits: " + "; ".join(tprob[:3]), {"kind": "translator", "problems": tprob}, found=False)
    if not proved and not chk.violations:
        chk.violation("proof", "Properties_C05 does not check: " + getattr(chk, "proof_log", "")[-1200:],
                      {"kind": "proof", "theorem": "Properties_C05", "log": getattr(chk, "proof_log", "")[-4000:]}, found=False)
    return chk.finish()


if __name__ == "__main__":
    sys.exit(main())
