#!/usr/bin/env python3
"""C19 -- gd_framenum inverts any monotonic field.

proof:   Properties_C19.v (model coq/C19/Framenum.v = transcription of
         _GD_GetIndex/_GD_Extrapolate/gd_framenum_subset64, src/index.c)
tie:     correspondence of the extracted model with the freshly built library:
         generated dirfiles (all native types, both directions, spf 1..5, frame
         offsets, plateaus, derived fields), the field as gd_getdata returns it
         is fed to the model, every gd_framenum* call runs under a CPU alarm
search:  every query is also judged against an independent oracle written from
         the property text (linear scan + exact rational interpolation)."""
import sys, os, struct, json, math
from fractions import Fraction
from concurrent.futures import ThreadPoolExecutor
sys.path.insert(0, os.path.join(os.path.dirname(os.path.abspath(__file__)), "..", "bin"))
import vlib

KEY_HANG = "gd_framenum/no-return/end-of-field-not-known-in-advance"
KEY_CONST = "gd_framenum/constant-range-answered/end-of-field-not-known-in-advance"

TYPES = {  # name: (format keyword, bits, kind)
    "i8": ("INT8", 8, "s"), "u8": ("UINT8", 8, "u"), "i16": ("INT16", 16, "s"), "u16": ("UINT16", 16, "u"),
    "i32": ("INT32", 32, "s"), "u32": ("UINT32", 32, "u"), "i64": ("INT64", 64, "s"), "u64": ("UINT64", 64, "u"),
    "f32": ("FLOAT32", 32, "f"), "f64": ("FLOAT64", 64, "f")}


def f64bits(x):
    return struct.unpack("<Q", struct.pack("<d", x))[0]


def bits_f64(b):
    return struct.unpack("<d", struct.pack("<Q", b))[0]


def pow2(d):
    """d == 0 or a power of two (so that dividing by it is exact)"""
    if d == 0:
        return True
    m, _ = math.frexp(d)
    return m == 0.5


def enc(t, x):
    """element bits of value x in native type t"""
    kw, bits, kind = TYPES[t]
    if kind == "f":
        return struct.unpack("<I", struct.pack("<f", x))[0] if bits == 32 else f64bits(x)
    return int(x) & ((1 << bits) - 1)


def type_range(t):
    kw, bits, kind = TYPES[t]
    if kind == "s":
        return -(1 << (bits - 1)), (1 << (bits - 1)) - 1
    if kind == "u":
        return 0, (1 << bits) - 1
    return -(1 << 22), (1 << 22)


# ------------------------------------------------------------------ generator

def gen_dirfile(rng, idx, thorough, general=False):
    """One dirfile: a RAW field with a strictly monotone core (power-of-two
    steps, so that the library's double arithmetic is exact), optional plateaus
    before/after the core, and derived fields."""
    t = list(TYPES)[idx % 10]
    descending = (idx // 10) % 2 == 1
    spf = 1 + (idx // 20) % 5
    fo = rng.choice([0, 0, 0, 1, 2, 3])
    kw, bits, kind = TYPES[t]
    maxn = 24 if bits == 8 else (40 if not thorough else rng.choice([40, 90, 300]))
    ncore = rng.randint(2, maxn)
    plateau = rng.random() < 0.3
    pre = rng.choice([0, 1, 3, spf, 2 * spf]) if plateau else 0
    post = rng.choice([0, 1, 2, spf, 2 * spf + 1]) if plateau else 0
    lo, hi = type_range(t)
    if general:
        # arbitrary strictly monotone data (results compared within a few ulp)
        if kind == "f":
            xs = sorted(set(rng.uniform(-1000, 1000) if bits == 64 else
                            struct.unpack("<f", struct.pack("<f", rng.uniform(-1000, 1000)))[0] for _ in range(ncore + 3)))
        else:
            span = min(hi - lo, 1 << 62)
            xs = sorted(set(lo + rng.randrange(span) for _ in range(ncore + 3)))
            if bits == 64 and rng.random() < 0.5:
                xs = sorted(set((hi - rng.randrange(1 << 12)) for _ in range(ncore + 3)))
        core = xs
        if len(core) < 2:
            core = [lo, lo + 1]
    else:
        steps_all = [1, 2, 4, 8] if bits > 8 else [1, 2, 4]
        if kind == "f":
            steps_all = [0.25, 0.5, 1, 2, 4, 8]
        same = rng.random() < 0.3
        st0 = rng.choice(steps_all)
        steps = [st0 if same else rng.choice(steps_all) for _ in range(ncore - 1)]
        total = sum(steps)
        if kind == "f":
            base = rng.choice([0.0, -8.0, 16.5, -100.25, 1024.0])
        else:
            room = (hi - lo) - int(total)
            if room < 0:
                steps = [1] * (ncore - 1)
                total = ncore - 1
                room = (hi - lo) - total
            base = lo + (rng.randrange(room + 1) if bits <= 16 else min(room, rng.choice([0, 5, 1000, 70000, (hi - lo) // 2])))
            if bits > 32:
                base = max(lo, min(base, (1 << 30)))
                if kind == "s":
                    base = rng.choice([-(1 << 20), -7, 0, 1 << 20])
            if rng.random() < 0.4:
                # values across the sign / size boundaries of the native type (the library converts every sample to
                # FLOAT64 before searching): the core straddles the boundary
                top = 1 << (bits - 1)
                cands = ([top, (1 << bits) - 1 - int(total), 1 << (bits // 2)] if kind == "u"
                         else [0, top - 1 - int(total), -top, -(1 << (bits // 2))])
                if bits == 64:
                    cands += [1 << 53, (1 << 53) + 4096]
                B = rng.choice(cands)
                if bits == 64 and abs(B) >= (1 << 52):
                    steps = [st * 4096 for st in steps]      # doubles are 2^11 apart at 2^63: keep the samples distinct and exact
                    total = sum(steps)
                    B = min(B, hi - int(total)) if B > 0 else B
                base = B - int(sum(steps[:len(steps) // 2]))
                base = max(lo, min(base, hi - int(total)))
        core = [base]
        for s in steps:
            core.append(core[-1] + s)
    if descending:
        core = core[::-1]
    data = [core[0]] * pre + core + [core[-1]] * post
    fields = ["data"]
    fmt = ["/ENCODING none", "/FRAMEOFFSET %d" % fo, "data RAW %s %d" % (kw, spf)]
    if not general:
        fmt.append("lin LINCOM data 2 8"); fields.append("lin")
        fmt.append("neg LINCOM data -0.5 3"); fields.append("neg")
        sh = rng.choice([1, 2, -1, spf])
        fmt.append("ph PHASE data %d" % sh); fields.append("ph")
        table = None
        if bits <= 16 or kind == "f":
            # LINTERP through a table with power-of-two spacing and slope -1/2 (reverses the direction, stays exact)
            x0 = math.floor(min(data) / 16.0) * 16 - 16
            x1 = math.ceil(max(data) / 16.0) * 16 + 16
            xs = list(range(int(x0), int(x1) + 1, 16))
            table = "|".join("%d %s" % (x, repr(-x / 2.0 + 1)) for x in xs)
            fmt.append("lt LINTERP data lt.lut"); fields.append("lt")
    else:
        table = None
        fmt.append("lin LINCOM data 0.37 1.1"); fields.append("lin")
    return {"table": table, "type": t, "spf": spf, "fo": fo, "pre": pre, "post": post, "ncore": len(core), "data": data,
            "fmt": fmt, "fields": fields, "general": general, "descending": descending}


def dirfile_cmds(df):
    c = ["N"] + ["F " + l for l in df["fmt"]]
    c.append("R data %s %d %s" % (df["type"], len(df["data"]), " ".join("%x" % enc(df["type"], x) for x in df["data"])))
    if df.get("table"):
        c.append("T lt.lut " + df["table"])
    c.append("O")
    return c


def gen_queries(rng, arr, spf, fo, nf, df, thorough):
    """(value, fs, fe) triples aimed at the case splits: exact hits, between,
    outside, at the edges; default and explicit limits, limits beyond EOF."""
    n = len(arr)
    first = next((j for j, x in enumerate(arr) if x is not None), len(arr))
    lastframe = max(fo, (n - 1) // spf)
    lims = [(0, 0)]
    nvals = 14 if thorough else 6
    core_f0 = (first + df["pre"] + spf - 1) // spf            # first frame fully inside the core
    core_f1 = (first + df["pre"] + df["ncore"]) // spf - 1    # last frame fully inside the core
    cand = [(core_f0, core_f1), (core_f0, 0), (0, core_f1), (core_f0, nf), (core_f0, nf + 1), (0, nf + 3),
            (core_f0 + 1, core_f1 - 1), (0, nf + 40), (core_f0, core_f0), (core_f0, core_f0 + 1), (fo, fo),
            (nf, nf + 2), (nf + 1, nf + 5), (core_f1, nf + 1), (max(1, fo), lastframe), (1, 0), (1, core_f1), (max(1, fo - 1), 0), (1, fo + 1)]
    for fs, fe in cand:
        if fs >= 0 and fe >= 0 and (fs, fe) not in lims:
            lims.append((fs, fe))
    if not thorough:
        lims = lims[:3] + rng.sample(lims[3:], min(4, len(lims) - 3))
    out = []
    for fs, fe in lims:
        s = fo * spf if fs == 0 else fs * spf
        e = (nf + 1) * spf - 1 if fe == 0 else (fe + 1) * spf - 1
        lim = min(e, n)
        vals = set()
        if s < first:
            continue    # below the first readable sample the library pads; the array fed to the model starts at `first`
        rngidx = list(range(max(s, 0), max(lim, 0)))
        pick = rngidx if len(rngidx) <= nvals + 3 else \
            rngidx[:2] + rngidx[-3:] + rng.sample(rngidx[2:-3], nvals - 5)
        for k in pick:
            if first <= k < n:
                vals.add(arr[k])
                if k + 1 < n and k + 1 < lim:
                    a, b = arr[k], arr[k + 1]
                    vals.add((a + b) / 2)
                    if rng.random() < 0.5:
                        vals.add(a + (b - a) / 4)
                    if rng.random() < 0.3:
                        vals.add(a + 3 * (b - a) / 8)
        if first <= s < n and lim - 1 >= s:
            a, b = arr[s], arr[lim - 1]
            d = abs(b - a) or 1.0
            for x in (a - 1, a + 1, b - 1, b + 1, a - d, b + d, a - 0.5, b + 0.5, a - 64, b + 64, min(a, b) - 3 * d, max(a, b) + 3 * d):
                vals.add(x)
        else:
            vals.update([0.0, 1.0])
        for x in sorted(v for v in vals if v == v and abs(v) != float("inf")):
            out.append((x, fs, fe))
    return out


# ------------------------------------------------------------------ oracle

_SEG = {}


def spec_answer(arr, spf, fo, nf, value, fs, fe):
    """What the property text demands, by linear scan and exact rational
    arithmetic.  Returns ("err",) | ("ok", Fraction) | None (range neither
    strictly monotone nor constant: the property is silent)."""
    n = len(arr)
    s = fo * spf if fs == 0 else fs * spf
    e = (nf + 1) * spf - 1 if fe == 0 else (fe + 1) * spf - 1
    if s < 0 or (s < n and arr[s] is None):
        return None
    if e - s < 2 or s >= n:
        return ("err",)
    lim = min(e, n)
    memo = _SEG.get((id(arr), s, lim))
    if memo is None:
        seg = arr[s:lim]
        if len(seg) < 2 or all(x == seg[0] for x in seg):
            memo = ("err", None, False)
        else:
            up = all(seg[i] < seg[i + 1] for i in range(len(seg) - 1))
            dn = all(seg[i] > seg[i + 1] for i in range(len(seg) - 1))
            memo = ("mono", [Fraction(x) for x in seg], up) if (up or dn) else ("silent", None, False)
        _SEG[(id(arr), s, lim)] = memo
    if memo[0] == "err":
        return ("err",)
    if memo[0] == "silent":
        return None
    F, up = memo[1], memo[2]
    v = Fraction(value)
    sgn = 1 if up else -1

    def before(a, b):
        return sgn * a < sgn * b
    if before(v, F[0]):
        q = s + (v - F[0]) / (F[1] - F[0])
    elif before(F[-1], v):
        q = (lim - 1) + (v - F[-1]) / (F[-1] - F[-2])
    else:
        q = None
        for k in range(len(F)):
            if F[k] == v:
                q = Fraction(s + k)
                break
            if k + 1 < len(F) and before(F[k], v) and before(v, F[k + 1]):
                q = s + k + (v - F[k]) / (F[k + 1] - F[k])
                break
    return ("ok", q / spf)


def parse_model(tok):
    tok = tok.strip()
    if tok.startswith("ok "):
        a, b = tok[3:].split("/")
        return ("ok", Fraction(int(a, 16), int(b, 16)))
    if tok == "HANG":
        return ("hang",)
    if tok == "nonfinite":
        return ("nonfinite",)
    return ("err", tok[4:])


def parse_impl(tok):
    tok = tok.strip()
    if tok.startswith("ok "):
        return ("ok", bits_f64(int(tok[3:], 16)))
    if tok == "HANG":
        return ("hang",)
    if tok.startswith("nonfinite"):
        return ("nonfinite",)
    if tok.startswith("err "):
        return ("err", tok[4:])
    return ("garbage", tok)


def close_enough(x, q, exact, scale):
    """x: impl double, q: exact rational answer."""
    try:
        fq = float(q)
    except OverflowError:
        return False
    if x == fq:
        return True
    if exact:
        return False
    tol = Fraction(1, 1 << 48) * max(1, abs(q), scale)
    return abs(Fraction(x) - q) <= tol


def agree(impl, other, exact, scale):
    """other: parsed model result or spec answer."""
    if other[0] == "ok":
        return impl[0] == "ok" and close_enough(impl[1], other[1], exact, scale)
    if other[0] == "err" and len(other) == 1:       # spec: any of DOMAIN / RANGE
        return impl[0] == "err" and impl[1] in ("DOMAIN", "RANGE")
    return impl == other


def run_harness(exe, cmds, hang_s, tag):
    d = vlib.scratch("C19-%s-" % tag)
    rc, out = vlib.sh([exe, d, "%g" % hang_s], inp=("\n".join(cmds) + "\n").encode(), timeout=3000)
    return rc, out


def main():
    chk = vlib.Check("C19")
    rng = chk.rng
    rc_t, tout = vlib.sh("python3 %s/translate/tr_index.py" % vlib.VERIF)
    trans_problems = [l for l in tout.splitlines() if l.startswith("PROBLEM")] + ([] if rc_t == 0 else ["PROBLEM tr_index exit %d" % rc_t])
    chk.notes.append(tout.strip()[:300])
    proved = chk.prove("Properties_C19", extra_targets=["Gen/FramenumShape.vo"])
    chk.cov["trusted_base"] += [
        "Coq 8.16.1 kernel, vm_compute",
        "coq/C19/Framenum.v is a hand transcription of src/index.c:23-256; translate/tr_index.py regenerates the statement skeleton and the Gallina reading of every condition/formula of the three functions (coq/Gen/FramenumShape.v) and Properties_C19.source_shape proves the model's loop bodies equal the bodies assembled from them; additionally tied to the built library by the correspondence below on every run",
        "translator translate/tr_index.py (small recursive-descent reader of the C subset used in index.c)",
        "field values are exact rationals: the comparisons of the C code are exact on doubles, the final interpolation arithmetic (index.c:45,202,252) is rounded in C and exact in the model",
        "array fed to the model = gd_getdata(FLOAT64) of the same field on the same handle (same _GD_DoField the search calls)",
        "extraction: ExtrOcamlBasic only; OCaml 4.13 driver ocaml/C19/driver.ml; harness/C19/framenum.c (CPU-time alarm around every call)",
        "off64_t arithmetic assumed not to overflow; field_start >= 0",
    ]
    chk.assumptions += ["no I/O error while reading the field (D->error paths of _GD_DoField not modelled)",
                        "the field does not change during the call",
                        "sample range convention [s,e) = [fs*spf,(fe+1)*spf-1) is taken from the code; the property text fixes only the defaults"]
    try:
        for attempt in range(3):
            try:
                impl = vlib.build_impl()
                exe0 = vlib.build_harness(impl, os.path.join(vlib.VERIF, "harness/C19/framenum.c"))
                # run from a private copy: vlib prunes old impl-* builds while other checks run (the binary is static)
                exe = os.path.join(vlib.scratch("C19-bin-"), "framenum")
                import shutil
                shutil.copy(exe0, exe)
                break
            except (vlib.BuildError, OSError):
                if attempt == 2:
                    raise
        ok, log = vlib.coq_make(["C19/Framenum.vo"])
        drv = vlib.build_ocaml_driver("C19", "C19/Extract.v", "ocaml/C19/driver.ml") if ok else None
    except (vlib.BuildError, OSError) as e:
        chk.violation("build", "build failed: " + str(e)[:2000], {"kind": "build", "log": str(e)}, found=False)
        return chk.finish()
    if drv is None:
        chk.violation("model-build", "Coq model does not compile: " + log[-1500:], {"kind": "model-build", "log": log[-4000:]}, found=False)
        return chk.finish()

    # ---------------------------------------------------------------- replay of listed witnesses (3 s alarm)
    for f in chk.known:
        w = f.get("witness", {})
        if not w.get("samples"):
            continue
        cmds = ["N", "F /ENCODING none", "F data RAW FLOAT64 %d" % w["spf"],
                "R data f64 %d %s" % (len(w["samples"]), " ".join("%x" % f64bits(float(x)) for x in w["samples"])), "O"]
        for val in w["values"]:
            cmds.append("Q data %x %d %d" % (f64bits(float(val)), w.get("field_start", 0), w.get("field_end", 0)))
        rc, out = run_harness(exe, cmds, 3.0, "replay")
        res = [l for l in out.splitlines() if l and not l.startswith("g ")]
        if any(r.startswith(w["expect_prefix"]) for r in res):
            chk.known_confirm(f["key"], "replayed: %s -> %s" % (w, res))
        chk.notes.append("replay %s: %s" % (f["key"], res))

    # ---------------------------------------------------------------- phase A: dirfiles and arrays
    ndf = 100 if not chk.thorough else 350
    ngen = 20 if not chk.thorough else 100
    dfs = [gen_dirfile(rng, i, chk.thorough) for i in range(ndf)] + \
          [gen_dirfile(rng, i * 7 + 3, chk.thorough, general=True) for i in range(ngen)]
    cmdsA = []
    for df in dfs:
        cmdsA += dirfile_cmds(df) + ["G " + f for f in df["fields"]]
    rc, outA = run_harness(exe, cmdsA, 0.2, "A")
    glines = [l for l in outA.splitlines() if l.startswith("g ") or l.startswith("gerr") or l.startswith("openerr")]
    nfields = sum(len(df["fields"]) for df in dfs)
    if rc != 0 or len(glines) != nfields or any(not l.startswith("g ") for l in glines):
        chk.violation("harness", "harness phase A failed rc=%d lines=%d/%d: %s" % (rc, len(glines), nfields, outA[-400:]),
                      {"kind": "harness"}, found=False)
        return chk.finish()
    # ---------------------------------------------------------------- queries + model
    SA = []     # per query: the array the ORACLE uses (for the RAW field: what was written to the file, not what the library read back)
    Q = []      # (dfi, field, arr, spf, fo, nf, value, fs, fe)
    EX = []     # is the data of that field exact (all steps powers of two)?
    model_in = []
    gi = 0
    for dfi, df in enumerate(dfs):
        for fld in df["fields"]:
            p = glines[gi].split(); gi += 1
            spf, fo, nf, base, n = int(p[1]), int(p[2]), int(p[3]), int(p[4]), int(p[5])
            p = p[1:]
            arr = [bits_f64(int(h, 16)) for h in p[5:5 + n]]
            # leading NaNs = the padding below the frame offset of a floating-point field: not representable in Q, the
            # array given to the model starts after them (integer fields are padded with 0.0, which IS part of the array)
            lead = 0
            while lead < len(arr) and arr[lead] != arr[lead]:
                lead += 1
            arr = arr[lead:]
            base += lead
            if any(x != x or abs(x) == float("inf") for x in arr):
                continue
            # power-of-two steps make the library's double arithmetic exact; judged on the samples a query can touch
            okstep = [pow2(abs(arr[j + 1] - arr[j])) for j in range(len(arr) - 1)]
            bad_pos = [j + base for j, o in enumerate(okstep) if not o]
            big = any(abs(x) >= 2.0 ** 40 for x in arr)
            arr = [None] * base + arr
            model_in.append("A %d %d %d %d %d %s" % (spf, fo, nf, base, len(arr) - base, " ".join(p[5 + lead:5 + n])))
            sarr = arr
            if fld == "data":
                # the oracle reads the RAW field from what the check wrote (correctly rounded to double), so a wrong
                # conversion to FLOAT64 inside the library cannot hide behind gd_getdata agreeing with gd_framenum
                truth = [float(x) for x in df["data"]]
                sarr = arr[:fo * spf] + truth
                if len(sarr) < fo * spf + len(truth) or len(arr) != len(sarr):
                    sarr = ([None] * (fo * spf))[:fo * spf] if len(arr) < fo * spf else sarr
                    sarr = (arr[:fo * spf] + [None] * max(0, fo * spf - len(arr)))[:fo * spf] + truth
            for (val, fs, fe) in gen_queries(rng, arr, spf, fo, nf, df, chk.thorough):
                SA.append(sarr)
                Q.append((dfi, fld, arr, spf, fo, nf, val, fs, fe))
                qs = fo * spf if fs == 0 else fs * spf
                qe = (nf + 1) * spf - 1 if fe == 0 else (fe + 1) * spf - 1
                # ... and only while every quantity of the formula fits 53 bits (samples of 64-bit fields near 2^63 do not)
                EX.append((not df["general"]) and not big and not any(qs <= j < qe for j in bad_pos))
                model_in.append("Q %x %d %d" % (f64bits(val), fs, fe))
    rc2, out2 = vlib.sh([drv], inp=("\n".join(model_in) + "\n").encode(), timeout=3000)
    M = out2.strip().split("\n")
    if rc2 != 0 or len(M) != len(Q):
        chk.violation("driver", "model driver failed rc=%d lines=%d/%d: %s" % (rc2, len(M), len(Q), out2[-300:]), {"kind": "driver"}, found=False)
        return chk.finish()
    # column 0 = the model of record (cur_fxp/cur_fxs in coq/C19/Framenum.v).  C19_MODEL=11|10|01 selects the model of
    # the code with both / only C19-1 / only C19-2 of the proposed repairs (used to try the check on a patched scratch tree)
    col = {"": 0, "11": 1, "10": 2, "01": 3}[os.environ.get("C19_MODEL", "")]
    if col:
        chk.notes.append("C19_MODEL=%s: compared with the model of the repaired code, not the model of record" % os.environ["C19_MODEL"])
    Mcur = [parse_model(m.split("|")[col]) for m in M]
    Mfix = [parse_model(m.split("|")[1]) for m in M]
    # ---------------------------------------------------------------- phase C: the library, predicted non-returning calls capped
    hang_cap = 240 if not chk.thorough else 4000
    hang_idx = [i for i, m in enumerate(Mcur) if m[0] == "hang"]
    keep = set(range(len(Q)))
    if len(hang_idx) > hang_cap:
        drop = set(hang_idx) - set(rng.sample(hang_idx, hang_cap))
        keep -= drop
    nw = 8
    parts = [[] for _ in range(nw)]
    for dfi in range(len(dfs)):
        parts[dfi % nw].append(dfi)
    byq = {}
    for i, q in enumerate(Q):
        if i in keep:
            byq.setdefault(q[0], []).append(i)

    def work(w):
        cmds = []; order = []
        for dfi in parts[w]:
            if dfi not in byq:
                continue
            cmds += dirfile_cmds(dfs[dfi])
            for i in byq[dfi]:
                _, fld, arr, spf, fo, nf, val, fs, fe = Q[i]
                k = i % 7
                if fs == 0 and fe == 0 and k == 0:
                    cmds.append("M %s %x" % (fld, f64bits(val)))
                elif k == 1:
                    cmds.append("S %s %x %d %d" % (fld, f64bits(val), fs, fe))
                else:
                    cmds.append("Q %s %x %d %d" % (fld, f64bits(val), fs, fe))
                order.append(i)
        rc, out = run_harness(exe, cmds, 0.1, "w%d" % w)
        res = [l for l in out.splitlines() if l and not l.startswith("g ")]
        return rc, order, res, out
    with ThreadPoolExecutor(nw) as ex:
        results = list(ex.map(work, range(nw)))
    I = {}
    for rc, order, res, out in results:
        if rc != 0 or len(res) != len(order):
            chk.violation("harness", "harness phase C failed rc=%d lines=%d/%d: %s" % (rc, len(res), len(order), out[-400:]), {"kind": "harness"}, found=False)
            return chk.finish()
        for i, r in zip(order, res):
            I[i] = parse_impl(r)
    # ---------------------------------------------------------------- judge
    nontriv = set()
    classes = {}
    spec_bad = {}
    model_bad = []
    n_general = 0
    for i in sorted(I):
        dfi, fld, arr, spf, fo, nf, val, fs, fe = Q[i]
        df = dfs[dfi]
        exact = EX[i]
        impl = I[i]
        scale = max(abs(fe), abs(fs), len(arr))
        spec = spec_answer(SA[i], spf, fo, nf, val, fs, fe)
        mc = Mcur[i]
        cls = (impl[0], "spec-" + (spec[0] if spec else "silent"))
        classes[cls] = classes.get(cls, 0) + 1
        if not exact:
            n_general += 1
        elif spec is not None:
            nontriv.add((dfi, fld, f64bits(val), fs, fe))
        if spec is not None and not agree(impl, spec, exact, scale):
            if impl[0] == "hang":
                key = KEY_HANG
            elif impl[0] == "nonfinite" and spec == ("err",):
                key = KEY_CONST
            else:
                key = "framenum/%s-instead-of-%s" % (impl[0], spec[0])
            spec_bad.setdefault(key, []).append(i)
        if not agree(impl, mc, exact, scale):
            model_bad.append(i)
        # the repaired model must satisfy the oracle everywhere (keeps the proposed fix honest)
        if spec is not None and Mfix[i][0] != spec[0] and not (spec == ("err",) and Mfix[i][0] == "err"):
            chk.notes.append("repaired model vs oracle differ on %s: %s vs %s" % (Q[i][3:], Mfix[i], spec))
        elif spec is not None and spec[0] == "ok" and Mfix[i][1] != spec[1]:
            chk.notes.append("repaired model vs oracle differ on %s: %s vs %s" % (Q[i][3:], Mfix[i], spec))

    def replay_of(i, extra):
        dfi, fld, arr, spf, fo, nf, val, fs, fe = Q[i]
        df = dfs[dfi]
        r = {"format": df["fmt"], "linterp_table": df.get("table"), "raw_type": df["type"], "raw_data": df["data"], "field": fld, "value": val,
             "value_bits": "%x" % f64bits(val), "field_start": fs, "field_end": fe, "spf": spf, "frame_offset": fo,
             "nframes": nf, "field_as_float64_from_frame_offset": [x for x in arr if x is not None], "impl": I[i], "model_current": str(Mcur[i]), "model_repaired": str(Mfix[i]),
             "how": "harness/C19/framenum.c: N / F <format lines> / R data <type> <n> <hex> / O / Q <field> <value_bits> <fs> <fe>"}
        r.update(extra)
        return r
    found_any = False
    for key, l in sorted(spec_bad.items()):
        i = l[0]
        spec = spec_answer(SA[i], *Q[i][3:])
        found_any |= bool(chk.violation(key, "gd_framenum_subset64(%s, %r, %d, %d) on a %s field (spf %d): library %s, the property demands %s (%d such calls)" % (
            Q[i][1], Q[i][6], Q[i][7], Q[i][8], "strictly monotone" if spec[0] == "ok" else "constant/empty", Q[i][3], I[i],
            ("%s = %.17g" % (spec[1], float(spec[1]))) if spec[0] == "ok" else "GD_E_DOMAIN or GD_E_RANGE", len(l)),
            replay_of(i, {"kind": "impl-vs-spec", "spec": str(spec), "count": len(l)})))
    for i in model_bad[:3]:
        spec = spec_answer(SA[i], *Q[i][3:])
        if spec is not None and not agree(I[i], spec, EX[i], 1):
            continue    # already reported with an input
        chk.violation("model/framenum", "correspondence broken: gd_framenum_subset64(%s, %r, %d, %d): library %s, model of index.c %s (oracle: %s)" % (
            Q[i][1], Q[i][6], Q[i][7], Q[i][8], I[i], Mcur[i], spec),
            replay_of(i, {"kind": "model-vs-impl", "correspondence": "coq/C19/Framenum.v vs _GD_GetIndex", "spec": str(spec)}), found=False)
    if trans_problems and not found_any:
        chk.violation("translator", "translate/tr_index.py cannot read src/index.c: " + "; ".join(trans_problems[:3]),
                      {"kind": "translator", "problems": trans_problems}, found=False)
    if not proved and not found_any:
        chk.violation("proof", "Properties_C19 does not check: " + getattr(chk, "proof_log", "")[-1200:],
                      {"kind": "proof", "theorem": "Properties_C19", "log": getattr(chk, "proof_log", "")[-4000:]}, found=False)
    chk.cov["evaluations"] = len(I)
    chk.cov["distinct_nontrivial"] = len(nontriv)
    chk.cov["general_stream_not_counted"] = n_general
    chk.cov["queries_generated"] = len(Q)
    chk.cov["predicted_nonreturning_calls"] = len(hang_idx)
    chk.cov["predicted_nonreturning_calls_run"] = len([i for i in hang_idx if i in I])
    chk.cov["result_classes"] = {"%s/%s" % k: v for k, v in sorted(classes.items())}
    chk.cov["rule"] = ("%d dirfiles: RAW of each of the 10 real native types x ascending/descending x spf 1..5, frame offset 0..3, "
                       "2..%d strictly monotone samples with power-of-two steps (library arithmetic exact; results compared bit-for-bit "
                       "with the correctly rounded rational of the model), plateaus before/after the monotone core, derived fields "
                       "LINCOM(2x+8), LINCOM(-x/2+3), PHASE, LINTERP(table of slope -1/2); limits: defaults, the core, beyond EOF, single frames, past the data; values: "
                       "samples, 1/2, 1/4, 3/8 points, outside on both sides; + %d dirfiles of arbitrary data compared within 2^-48 relative "
                       "(not counted). Calls the model predicts never return are capped at %d per run. non-trivial = distinct "
                       "(dirfile, field, value, limits) with a strictly monotone or constant/empty searched range and exact data") % (
                           ndf, 300 if chk.thorough else 40, ngen, hang_cap)
    for i in list(sorted(I))[:: max(1, len(I) // 6)][:6]:
        chk.sample({"field": Q[i][1], "spf": Q[i][3], "value": Q[i][6], "limits": [Q[i][7], Q[i][8]], "impl": str(I[i]),
                    "model": str(Mcur[i]), "n": len(Q[i][2])})
    return chk.finish()


if __name__ == "__main__":
    sys.exit(main())
