#!/usr/bin/env python3
"""C03 -- what is written is what is read back, for every encoding and invertible field.

proof:   Properties_C03.v (array_write specification; write_refines for the unencoded and the
         out-of-place codecs over all histories; SIE layer; BIT/SBIT, PHASE, MPLEX)
tie:     correspondence of the extracted codec models (raw, out-of-place protocol, faithful
         SIE cursor machine) with the freshly built library on generated write/read/flush/
         reopen histories, data files compared byte for byte
search:  every read and every final data file is judged against the flat-array oracle."""
import sys, os, json, struct
sys.path.insert(0, os.path.join(os.path.dirname(os.path.abspath(__file__)), "..", "bin"))
sys.path.insert(0, os.path.join(os.path.dirname(os.path.abspath(__file__)), "..", "harness", "C04"))
import vlib, gdlib
from gdlib import NAMES, CSIZE, NCOMP, TSIZE, ISFLOAT, EXT, ENCS

PID = "C03"
KEY_TEXTPAD = "regression/putdata/text/complex/write-past-end-pads-with-0-instead-of-0;0"
KEY_MPLEX = "regression/putdata/mplex/unequal-spf/tests-B[i]-copies-C[i*spfB/spfA]"
KEY_HERE_OOP = "regression/putdata/GD_HERE/out-of-place-encoding/position-is-read-side"
KEY_HERE_SIE = "regression/putdata/GD_HERE/sie/position-is-last-sample-written"
KEY_OOP_READ = "regression/getdata-after-putdata/out-of-place-encoding/old-file-open/read-restarts-empty-temporary"
KEY_BZ2_EXTRA = "regression/putdata/bzip2/overwrite-then-write-past-end/extra-zero-samples-appended"
KEY_SIE_STALE = "regression/putdata/sie/write-at-current-position-after-unflushed-append/stale-fstat-size-truncates"
KEY_SIE_SEEKPUT = "regression/putdata/sie/after-read-mode-seek-past-end/gap-filled-with-last-run-value"
KEY_SIE_ZEROLEN = "regression/putdata/sie/overwrite-last-sample-of-one-sample-record-after-single-record-write/zero-length-record"


def f32(v):
    return struct.unpack("<I", struct.pack("<f", float(v)))[0]


def f64(v):
    return struct.unpack("<Q", struct.pack("<d", float(v)))[0]


def small_to(t, v):
    """component patterns of the small non-negative integer v in type t"""
    if t < 8:
        return [v]
    one = f32(v) if CSIZE[t] == 4 else f64(v)
    zero = 0
    return [one] if t < 10 else [one, zero]


def array_write(a, p, d, zero):
    if not d:
        return a
    a = list(a)
    if p > len(a):
        a += [zero] * (p - len(a))
    a[p:p + len(d)] = d
    return a


def gen_value(rng, t, kind):
    """one sample (tuple of comps)"""
    w = CSIZE[t]; bits = 8 * w; mask = (1 << bits) - 1
    if kind == "small":
        return tuple(small_to(t, rng.randint(0, 3)))
    if kind == "partzero":
        # samples that are zero in part of their bytes only: a zero component next to a non-zero one, -0.0, the smallest
        # denormal, a lone top or bottom byte (whatever decides "is this sample zero" must look at all of it)
        near = [0, 0, 1 << (bits - 1), 1, 0xff << (bits - 8), 0xff, 1 << (bits // 2)]
        while True:
            v = tuple(rng.choice(near) & mask for _ in range(NCOMP[t]))
            if any(v):
                return v
    if ISFLOAT[t]:
        pool = [0, f32(1) if w == 4 else f64(1), f32(-2.5) if w == 4 else f64(-2.5), 1, mask >> 1, 0x0102030405060708 & mask]
    else:
        pool = [0, 1, mask, mask >> 1, (mask >> 1) + 1, 0x0102030405060708 & mask]
    return tuple(rng.choice(pool + [rng.getrandbits(bits)]) for _ in range(NCOMP[t]))


def gen_history(rng, t, enc, nops):
    """list of ops over file coordinates.  ('P', p, [samples], caller_type|None) ('G',) ('F',) ('S',) ('R',)"""
    zero = tuple([0] * NCOMP[t])
    a = []
    ops = []
    ptr = 0           # the field's I/O pointer as gd_seek(3)/gd_putdata(3) define it (file coordinates)
    written = []      # for text: which samples are real (non-pad) values
    sought = None     # target of the most recent read-mode gd_seek, until the next write
    lastput = False   # the previous operation was a write (or a query after one): the data file is open for writing
    queried = False   # a gd_nframes query came since the last write
    for _ in range(nops):
        r = rng.random()
        if lastput and a and ptr is not None and rng.random() < 0.12:
            # gd_nframes right after a write (the field is the reference field and open for writing): a query; the data
            # written so far counts, and the I/O pointer stays where the write left it
            ops.append(("N", len(a), ptr)); queried = True
            continue
        if r >= 0.62 and a:
            lastput = False
        if r < 0.62 or not a:
            n = rng.choice([1, 1, 2, 3, 5, 9, 17])
            L = len(a)
            mode = rng.random()
            if enc == "text":
                # appends, gaps, and overwrites of earlier written (non-pad) samples only
                if mode < 0.5 or L == 0:
                    p = L
                elif mode < 0.7:
                    p = L + rng.randint(1, 4)
                else:
                    p = rng.randrange(L)
                    n = min(n, L - p)
                    while n > 0 and not all(written[p:p + n]):
                        n -= 1
                    if n == 0:
                        p = L; n = 2
            else:
                if mode < 0.3 or L == 0:
                    p = L
                elif mode < 0.45:
                    p = L + rng.randint(1, 6)
                elif mode < 0.55:
                    p = max(0, L - rng.randint(1, 3))
                else:
                    p = rng.randrange(L)
            if sought is not None and rng.random() < 0.5:
                p = sought          # a write exactly where the last read-mode gd_seek went
            sought = None
            lastput = True
            here = False
            if enc != "text" and a and ptr is not None and rng.random() < (0.6 if queried else 0.15):      # (a field without a data file has no I/O position yet)
                p = ptr; here = True      # GD_HERE: the write lands at the I/O pointer
            mixed = rng.random() < 0.2 and not here
            if enc == "text":
                # fixed-width values so that overwrites keep the line width
                tc = None
                data = [tuple(small_to(t, rng.randint(1, 9))) for _ in range(n)]
            elif mixed:
                tc = rng.randrange(12)
                vals = [rng.randint(0, 3) for _ in range(n)]
                data = [tuple(small_to(t, v)) for v in vals]
                ops.append(("P", p, data, tc, [x for v in vals for x in small_to(tc, v)], False))
                queried = False
                a = array_write(a, p, data, zero)
                ptr = p + len(data)
                continue
            else:
                tc = None
                data = []
                cur = None
                for i in range(n):
                    if enc == "sie" or rng.random() < 0.3:
                        # biased to runs: repeat, copy a neighbour of the target region, zero
                        c = rng.random()
                        if cur is not None and c < 0.45:
                            v = cur
                        elif c < 0.6 and 0 < p + i <= len(a):
                            v = a[p + i - 1]
                        elif c < 0.75 and p + i + 1 < len(a):
                            v = a[p + i + 1]
                        elif c < 0.85:
                            v = zero
                        elif c < 0.93:
                            v = gen_value(rng, t, "small")
                        else:
                            v = gen_value(rng, t, "partzero")
                        if i == n - 1 and rng.random() < 0.2:
                            v = gen_value(rng, t, "partzero")      # the sample a later gap would follow
                    else:
                        v = gen_value(rng, t, "any" if rng.random() < 0.9 else "partzero")
                    cur = v
                    data.append(v)
            ops.append(("P", p, data, None, [x for v in data for x in v], here))
            queried = False
            oldlen = len(a)
            a = array_write(a, p, data, zero)
            ptr = p + len(data)
            if enc == "text":
                written += [False] * (len(a) - len(written))
                for i in range(p, p + len(data)):
                    written[i] = True
        elif r < 0.8:
            if enc != "text" and len(a) > 1 and rng.random() < 0.4:
                # a slice of the field
                gp = rng.randrange(len(a)); gn = rng.randint(1, len(a) - gp + 2)
                ops.append(("G", gp, gn))
                ptr = min(len(a), gp + gn)
            else:
                ops.append(("G",))
                ptr = len(a)          # the whole field was read: the pointer is at the end of the field
        elif r < 0.84 and enc != "text" and a:
            # gd_seek in read mode (GD_SEEK_SET), also past the end of the field: moves the I/O pointer, changes no data
            kx = rng.choice([rng.randint(0, len(a)), len(a), len(a) + rng.randint(1, 6)])
            ops.append(("K", kx, len(a)))
            sought = kx
            ptr = kx if kx <= len(a) else None      # past the end the resulting position is encoding specific (gd_seek(3))
        elif r < 0.88:
            ops.append(("F",)); ptr = 0      # the raw file is closed; it reopens at its beginning
        elif r < 0.93:
            ops.append(("S",))
        else:
            ops.append(("R",)); ptr = 0
    ops.append(("G",))
    return ops


def main():
    chk = vlib.Check(PID)
    rng = chk.rng
    # translator: which variant of the "already there" shortcut of _GD_SampIndSeek the source has (Gen/SieSeek.v)
    rc, tout = vlib.sh("python3 %s/translate/tr_sieseek.py" % vlib.VERIF)
    trans_problems = [l for l in tout.splitlines() if l.startswith("PROBLEM")]
    guarded = "seek_shortcut_guarded = true" in tout
    proved = chk.prove("Properties_C03", extra_targets=["Gen/SieSeek.vo"])
    chk.cov["trusted_base"] += [
        "Coq 8.16.1 kernel, vm_compute (no native_compute)",
        "translator translate/tr_sieseek.py (reads the condition of the 'already there' shortcut of _GD_SampIndSeek; the SIE theorems hold for both variants)",
        "codec models coq/C03/Write.v (unencoded pwrite, out-of-place protocol) and coq/C03/Sie.v (cursor machine of sie.c), written by hand from "
        "the C source and validated on every run against the built library (reads and final data file bytes)",
        "POSIX lseek+write semantics (gap reads as zero), stdio positioning in sie.c, zlib/libbz2/liblzma append-only stream writers that zero-pad on forward seek",
        "type conversion of caller data is C06's subject: mixed caller types use small non-negative integers that every type represents exactly",
        "extraction: ExtrOcamlBasic only; OCaml driver ocaml/C03/driver.ml; harness harness/C04/gdrun.c; hook H1 (64-byte copy buffers)",
    ]
    chk.assumptions += ["text encoding: appends, gaps and overwrites of equally wide lines only (as the property states); floating values printed exactly",
                        "never-written samples are expected to read as zero (the code's choice; gd_seek(3) also allows NaN for floating types)"]
    try:
        impl = vlib.build_impl("", gdlib.HOOKS)
        exe = vlib.build_harness(impl, os.path.join(vlib.VERIF, "harness/C04/gdrun.c"))
        ok, log = vlib.coq_make(["C03/Write.vo", "C03/Sie.vo"])
        drv = vlib.build_ocaml_driver("C03", "C03/Extract.v", "ocaml/C03/driver.ml") if ok else None
    except vlib.BuildError as e:
        chk.violation("build", "build failed: " + str(e)[:2000], {"kind": "build", "log": str(e)}, found=False)
        return chk.finish()
    if drv is None:
        chk.violation("model-build", "Coq model does not compile: " + log[-1500:], {"kind": "model-build", "log": log[-4000:]}, found=False)
        return chk.finish()
    root = vlib.scratch("C03-")
    ncase = {"none": 60, "gzip": 80, "bzip2": 60, "lzma": 60, "text": 60, "sie": 600}
    if chk.thorough:
        ncase = {k: v * 12 for k, v in ncase.items()}
    cases, script, mlines = [], [], []
    for enc in ENCS:
        for k in range(ncase[enc]):
            t = rng.randrange(12) if enc != "sie" else rng.choice([0, 1, 3, 5, 7, 8, 9, 10, 11, 1, 3])
            sex = rng.choice(gdlib.sexes_for(t))
            off = rng.choice([0, 0, 1, 3])
            spf = rng.choice([1, 1, 2, 3])
            ops = gen_history(rng, t, enc, rng.randint(3, 9 if enc != "sie" else 12))

            d = os.path.join(root, "h%d" % len(cases)); os.mkdir(d)
            # the field comes from the format file, or is created through the handle that then writes it:
            # gd_add_spec (a line of text), gd_add_raw, or gd_add with an entry structure
            how = rng.choice(["format", "format", "add_spec", "add_raw", "add_entry"])
            with open(os.path.join(d, "format"), "w") as fh:
                fh.write("/ENCODING %s\n%s\n/FRAMEOFFSET %d\n%s" % (enc, gdlib.sex_directive(sex), off,
                                                                      "a RAW %s %d\n" % (NAMES[t], spf) if how == "format" else ""))
            zero = tuple([0] * NCOMP[t])
            a = []
            sc = ["open %s rw" % d]
            expect = []          # per script line: None or ("put", n) / ("get", comps)
            expect.append(("open",))
            if how == "add_spec":
                sc.append("addspec 0 a RAW %s %d" % (NAMES[t], spf)); expect.append(("rc0",))
            elif how in ("add_raw", "add_entry"):
                sc.append("%s a %d %d 0" % (how, t, spf)); expect.append(("rc0",))
            ml = []
            for op in ops:
                if op[0] == "P":
                    _, p, data, tc, comps, here = op
                    if here:
                        sc.append("put a %d HERE 0 %d %s" % (t, len(data), gdlib.hexs(comps)))
                    else:
                        sc.append("put a %d %d %d %d %s" % (t if tc is None else tc, off, p, len(data), gdlib.hexs(comps)))
                    expect.append(("put", len(data)))
                    a = array_write(a, p, data, zero)
                    ml.append("P %d %s" % (p, gdlib.hexs([x for v in data for x in v])))
                elif op[0] == "G" and len(op) == 3:
                    sc.append("get a %d %d %d %d" % (t, off, op[1], op[2]))
                    expect.append(("get", [x for v in a[op[1]:op[1] + op[2]] for x in v]))
                    ml.append("G %d %d" % (op[1], op[2]))
                elif op[0] == "G":
                    n = len(a) + 3
                    sc.append("get a %d %d 0 %d" % (t, off, n))
                    expect.append(("get", [x for v in a for x in v]))
                    ml.append("G 0 %d" % n)
                elif op[0] == "N":
                    # the library closes the field (the pending write is finished) and seeks back in read mode
                    sc.append("nframes"); expect.append(("nframes", off + op[1] // spf)); ml += ["F", "K %d" % op[2]]
                elif op[0] == "K":
                    sc.append("seek a %d %d 0" % (off, op[1])); expect.append(("seek", off * spf + op[1], off * spf + min(op[1], op[2]))); ml.append("K %d" % op[1])
                elif op[0] == "F":
                    sc.append("flush a"); expect.append(("rc0",)); ml.append("F")
                elif op[0] == "S":
                    sc.append("sync a"); expect.append(("rc0",))
                    ml.append("S")
                else:
                    sc.append("close"); expect.append(("rc0",))
                    sc.append("open %s rw" % d); expect.append(("open",))
                    ml.append("F")
            sc.append("close"); expect.append(("rc0",))
            codec = "raw" if enc == "none" else "sie" if enc == "sie" else "oop" if enc != "text" else None
            cases.append({"dir": d, "t": t, "sex": sex, "enc": enc, "off": off, "spf": spf, "script": sc, "expect": expect,
                          "final": [x for v in a for x in v], "first": len(script), "codec": codec})
            script += sc
            # SIE: the cursor machine with the variant of the seek shortcut that the source has (Gen/SieSeek.v), and with
            # the other variant (the guard of repo commit a110f5b present / absent)
            cods = [] if codec is None else [codec] if codec != "sie" else ["sie", "sie!"]
            mlines.append(["%s %d %s %d - ; %s" % (cd, t, sex, max(1, 64 // TSIZE[t]), " ; ".join(ml)) for cd in cods])
    # one process per history, so that a crash (the SIE defects below can corrupt a file to the point
    # where the reader overruns its buffer) is attributed to the history that caused it
    from concurrent.futures import ThreadPoolExecutor

    def run_case(c):
        rc_, out_ = vlib.sh([exe], inp=("\n".join(c["script"]) + "\n").encode(), timeout=300)
        return rc_, out_
    with ThreadPoolExecutor(max_workers=vlib.NPROC) as ex_:
        outs = list(ex_.map(run_case, cases))
    res = []
    for c, (rc_, out_) in zip(cases, outs):
        lines_ = out_.rstrip("\n").split("\n")
        c["crashed"] = (rc_ != 0 or len(lines_) != len(c["script"]))
        c["crash_info"] = "rc=%d after %d of %d lines: %s" % (rc_, len(lines_), len(c["script"]), out_[-200:]) if c["crashed"] else ""
        lines_ = (lines_ + ["(no output)"] * len(c["script"]))[:len(c["script"])]
        res += lines_
    flat = [x for l in mlines for x in l]
    rc2, mout = vlib.sh([drv], inp=("\n".join(flat) + "\n").encode(), timeout=3000)
    Mflat = mout.rstrip("\n").split("\n") if flat else []
    M, k_ = [], 0
    for l in mlines:
        M.append(Mflat[k_:k_ + len(l)]); k_ += len(l)
    if rc2 != 0 or len(Mflat) != len(flat):
        chk.violation("driver", "model driver failed rc=%d lines=%d/%d %s" % (rc2, len(M), len(cases), mout[-300:]), {"kind": "driver"}, found=False)
        return chk.finish()
    spec_bad, model_bad = {}, {}
    nontriv = set()
    stats = {"puts": 0, "gets": 0, "overwrites": 0}

    def model_obs(line):
        """-> (list of get results, final hex or None, error flag)"""
        if line == "?":
            return None
        parts = line.split("|")
        gets = [[int(x, 16) for x in q[2:].split()] for q in parts[:-1] if q.startswith("g:")]
        fin = parts[-1]
        return gets, (fin[2:] if fin.startswith("f:") else None), ("!" in line)

    for ci, c in enumerate(cases):
        t, sex, enc = c["t"], c["sex"], c["enc"]
        key = "history/%s" % enc
        chk.cov["evaluations"] += 1
        r = res[c["first"]:c["first"] + len(c["script"])]
        bad = None
        impl_gets, spec_gets = [], []
        for line, ex, got in zip(c["script"], c["expect"], r):
            if ex[0] == "open" and got != "open 0":
                bad = bad or "%s -> %s" % (line, got)
            elif ex[0] == "put":
                stats["puts"] += 1
                if got != "put %d 0" % ex[1]:
                    bad = bad or "%s -> %s" % (line[:120], got)
            elif ex[0] == "rc0" and not got.endswith(" 0"):
                bad = bad or "%s -> %s" % (line, got)
            elif ex[0] == "nframes" and got != "nframes %d 0" % ex[1]:
                bad = bad or "%s -> %s (expected %d frames)" % (line, got, ex[1])
            elif ex[0] == "seek" and got not in ("seek %d 0" % ex[1], "seek %d 0" % ex[2]):
                bad = bad or "%s -> %s (expected position %d, or the end of the field %d)" % (line, got, ex[1], ex[2])
            elif ex[0] == "get":
                stats["gets"] += 1
                g = gdlib.parse_get(got)
                impl_gets.append(g[2] if g is not None and g[1] == 0 else None)
                spec_gets.append(ex[1])
                if g is None or g[1] != 0 or g[2] != ex[1]:
                    bad = bad or "%s -> %s ; the flat array holds %s" % (line, got[:200], gdlib.hexs(ex[1])[:200])
        # final data file
        raw = gdlib.read_field_file(c["dir"], "a", enc)
        try:
            payload = gdlib.container_decode(enc, raw) if raw is not None else None
        except Exception as ex_:
            payload = None
        others = [f for f in os.listdir(c["dir"]) if f not in ("format", "a" + EXT[enc])]
        if not bad:
            if payload is None:
                bad = "data file a%s missing or undecodable after close" % EXT[enc]
            elif enc == "sie":
                recs, exp, inc = gdlib.sie_decode(t, sex, payload)
                if exp != c["final"]:
                    bad = "final a.sie expands to %s, flat array %s" % (gdlib.hexs(exp)[:160], gdlib.hexs(c["final"])[:160])
                elif not inc:
                    bad = "final a.sie has non-increasing record ends: %s" % [e for e, _ in recs][:20]
                    key = KEY_SIE_ZEROLEN
            elif enc == "text":
                nc = NCOMP[t]
                want = "".join(gdlib.text_line(t, c["final"][i:i + nc]) for i in range(0, len(c["final"]), nc)).encode()
                if payload != want:
                    bad = "final a.txt %r, expected %r" % (payload[:100], want[:100])
            else:
                want = gdlib.enc_samples(t, sex, c["final"])
                if payload != want:
                    bad = "final data %s, flat array layout %s" % (payload.hex()[:160], want.hex()[:160])
            if not bad and others:
                bad = "stray files left after close: %s" % others
        # the models
        mo = [model_obs(x) for x in M[ci]]
        mo = [x for x in mo if x is not None]
        agree = None
        for k_, (mg, mf, merr) in enumerate(mo):
            if not merr and mg == impl_gets and payload is not None and mf == payload.hex():
                agree = k_
                break
        mbad = None
        if mo and agree != 0:
            # (SIE: agreement is required with the variant the source has; agreeing with the other one only is a broken tie)
            mg, mf, merr = mo[0]
            mbad = ("the library behaves like the OTHER variant of the seek shortcut than the one read from src/sie.c; " if agree == 1 else "") + "library reads %s / final %s ; model reads %s / final %s%s" % (
                [gdlib.hexs(x)[:60] if x is not None else None for x in impl_gets][:4], payload.hex()[:120] if payload is not None else None,
                [gdlib.hexs(x)[:60] for x in mg][:4], (mf or "")[:120], " (model write error)" if merr else "")
        if (bad and enc == "sie" and agree == 0 and not guarded and len(mo) == 2 and any(l.startswith("seek ") for l in c["script"])
                and not mo[1][2] and mo[1][0] == spec_gets and gdlib.sie_decode(t, sex, bytes.fromhex(mo[1][1] or ""))[1] == c["final"]):
            # the source has the unguarded shortcut, the library does exactly what that variant of the model does, and the
            # guarded variant gives the flat array: the defect repaired by a110f5b is back
            key = KEY_SIE_SEEKPUT
        if c["crashed"]:
            bad = "gdrun died: " + c["crash_info"]
            key = "crash/%s" % enc
        if bad:
            spec_bad.setdefault(key, []).append((c, bad))
        elif mbad:
            model_bad.setdefault(key, []).append((c, mbad))
        else:
            nontriv.add((enc, t, sex, tuple(c["final"]), len(c["script"])))
        if ci % 37 == 3:
            chk.sample({"encoding": enc, "type": NAMES[t], "endian": sex, "frameoffset": c["off"], "spf": c["spf"],
                        "script": [l[:70] for l in c["script"][1:6]], "final_len": len(c["final"]) // NCOMP[t]})

    # ---------------------------------------------------------------- complex text padding (known defect, exact witness)
    d = os.path.join(root, "tp"); os.mkdir(d)
    open(os.path.join(d, "format"), "w").write("/ENCODING text\na RAW COMPLEX128 1\n")
    rc, out = vlib.sh([exe], inp=("open %s rw\nput a 11 2 0 2 %x %x %x %x\nget a 11 0 0 10\nclose\n" % (d, f64(1), f64(2), f64(3), f64(4))).encode())
    r = out.strip().split("\n")
    chk.cov["evaluations"] += 1
    want = "get 4 0 0 0 0 0 %x %x %x %x" % (f64(1), f64(2), f64(3), f64(4))
    if len(r) > 2 and r[2] != want:
        chk.violation(KEY_TEXTPAD, "text COMPLEX128: after a write at frame 2 of an empty field the whole field reads back as '%s' (expected '%s'); a.txt = %r" % (
            r[2], want, open(os.path.join(d, "a.txt"), "rb").read()[:60]), {"kind": "impl-vs-spec", "script": ["format: /ENCODING text ; a RAW COMPLEX128 1",
                                                                                                   "put a COMPLEX128 frame 2: 1+2i 3+4i", "get a 0..10"], "got": r[2], "want": want})

    # ---------------------------------------------------------------- recorded witnesses, replayed on every run
    def replay(name, enc, tname, lines, getline, want, key, what):
        d_ = os.path.join(root, name); os.mkdir(d_)
        open(os.path.join(d_, "format"), "w").write("/ENCODING %s\na RAW %s 1\n" % (enc, tname))
        rc_, out_ = vlib.sh([exe], inp=("open %s rw\n%s\nclose\n" % (d_, "\n".join(lines))).encode(), timeout=120)
        r_ = out_.strip().split("\n")
        chk.cov["evaluations"] += 1
        raw_ = gdlib.read_field_file(d_, "a", enc)
        try:
            pay_ = gdlib.container_decode(enc, raw_) if raw_ is not None else b""
        except Exception:
            pay_ = b"<undecodable>"
        got_ = r_[getline] if getline is not None and len(r_) > getline else ""
        return d_, r_, pay_, got_
    d_, r_, pay_, got_ = replay("w-oop", "gzip", "UINT8", ["put a 1 0 0 3 1 2 3", "put a 1 0 1 1 9", "get a 1 0 0 9", "get a 1 0 0 9"], 4, None, None, None)
    if got_ != "get 3 0 1 9 3" or pay_ != bytes([1, 9, 3]):
        chk.violation(KEY_OOP_READ, "gzip: put 1 2 3 at 0; put 9 at 1; get; get; close: second read gives '%s' (expected 'get 3 0 1 9 3'), a.gz then holds %s (expected 010903)" % (got_, pay_.hex()),
                      {"kind": "impl-vs-spec", "script": r_, "final": pay_.hex()})
    d_, r_, pay_, got_ = replay("w-stale", "sie", "UINT8", ["put a 1 0 0 2 1 0", "put a 1 0 2 3 0 0 1", "put a 1 0 4 1 0", "get a 1 0 0 8"], 4, None, None, None)
    if got_ != "get 5 0 1 0 0 0 0":
        chk.violation(KEY_SIE_STALE, "sie: put 1 0 at 0; put 0 0 1 at 2; put 0 at 4: the field reads back as '%s' (expected 'get 5 0 1 0 0 0 0'); a.sie = %s" % (got_, pay_.hex()),
                      {"kind": "impl-vs-spec", "script": r_, "final": pay_.hex()})
    d_, r_, pay_, got_ = replay("w-zlen", "sie", "UINT8", ["put a 1 0 0 2 1 2", "put a 1 0 1 1 3", "put a 1 0 1 1 4", "get a 1 0 0 5"], 4, None, None, None)
    recs_, exp_, inc_ = gdlib.sie_decode(1, "l", pay_)
    if not inc_ or exp_ != [1, 4]:
        chk.violation(KEY_SIE_ZEROLEN, "sie: put 1 2 at 0; put 3 at 1; put 4 at 1: a.sie record ends %s are not strictly increasing (expands to %s)" % ([e for e, _ in recs_], exp_),
                      {"kind": "impl-vs-spec", "script": r_, "final": pay_.hex()})
    d_, r_, pay_, got_ = replay("w-seekput", "sie", "UINT8", ["put a 1 0 0 10 " + " ".join(["5"] * 10), "seek a 0 20 0", "put a 1 0 20 10 " + " ".join(["7"] * 10),
                                                        "get a 1 0 0 40"], 4, None, None, None)
    want_ = "get 30 0 " + " ".join(["5"] * 10 + ["0"] * 10 + ["7"] * 10)
    if got_ != want_:
        chk.violation(KEY_SIE_SEEKPUT, "sie: put ten 5s at 0; gd_seek(GD_SEEK_SET) to 20; put ten 7s at 20: the field reads back as '%s' (expected '%s'); a.sie = %s" % (
            got_, want_, pay_.hex()), {"kind": "impl-vs-spec", "script": r_, "final": pay_.hex()})
    d_, r_, pay_, got_ = replay("w-bz2", "bzip2", "UINT32", ["put a 5 0 0 4 1 3 1 0", "flush a", "put a 5 0 1 1 ffffffff", "put a 5 0 9 1 80000000"], None, None, None, None)
    want_ = gdlib.enc_samples(5, "l", [1, 0xffffffff, 1, 0, 0, 0, 0, 0, 0, 0x80000000])
    if pay_ != want_:
        chk.violation(KEY_BZ2_EXTRA, "bzip2: field 1 3 1 0; put ffffffff at 1; put 80000000 at 9; close: a.bz2 holds %d bytes %s (expected %d bytes)" % (len(pay_), pay_.hex(), len(want_)),
                      {"kind": "impl-vs-spec", "script": r_, "final": pay_.hex()})

    # ---------------------------------------------------------------- text encoding, byte level: the model (Text.v) against the
    # library, inside the region the property claims (same-width overwrites, appends, gaps: file = rendering of the flat
    # array, proved) and outside it (a wider or narrower value in the middle of the file clobbers its neighbour: the model
    # predicts the bytes; not a finding, the property excludes it)
    tcases = []
    for ti in range(12 if not chk.thorough else 120):
        n0 = rng.randint(1, 6)
        old = [rng.choice([rng.randint(0, 9), rng.randint(10, 99), rng.randint(100, 999)]) for _ in range(n0)]
        p_ = rng.randint(0, n0 + 2)
        newv = [rng.choice([rng.randint(0, 9), rng.randint(10, 99), rng.randint(100, 99999)]) for _ in range(rng.randint(1, 3))]
        tcases.append((old, p_, newv))
    tlines = []
    for ti, (old, p_, newv) in enumerate(tcases):
        dt = os.path.join(root, "tb%d" % ti); os.mkdir(dt)
        open(os.path.join(dt, "format"), "w").write("/ENCODING text\na RAW INT32 1\n")
        rct, outt = vlib.sh([exe], inp=("open %s rw\nput a 4 0 0 %d %s\nput a 4 0 %d %d %s\nclose\n" % (
            dt, len(old), gdlib.hexs(old), p_, len(newv), gdlib.hexs(newv))).encode(), timeout=60)
        tlines.append("textput 30 %d %s %s" % (p_, ",".join(("%d" % v).encode().hex() for v in old), ",".join(("%d" % v).encode().hex() for v in newv)))
    rct, mt = vlib.sh([drv], inp=("\n".join(tlines) + "\n").encode(), timeout=300)
    MT = mt.strip().split("\n")
    for ti, (old, p_, newv) in enumerate(tcases):
        chk.cov["evaluations"] += 1
        fb = open(os.path.join(root, "tb%d" % ti, "a.txt"), "rb").read()
        same = all(len("%d" % a_) == len("%d" % b_) for a_, b_ in zip(old[p_:], newv))
        if ti < len(MT) and MT[ti] != fb.hex():
            chk.violation("model/text-bytes", "correspondence broken (text, byte level): old %s, put %s at %d: a.txt = %r, model %r" % (
                old, newv, p_, fb[:80], bytes.fromhex(MT[ti])[:80] if MT[ti] != "?" else MT[ti]),
                {"kind": "model-vs-impl", "correspondence": "C03 text byte model vs library", "old": old, "p": p_, "new": newv, "file": fb.hex(), "model": MT[ti]}, found=False)
        elif same:
            arr = list(old) + [0] * max(0, p_ - len(old))
            arr[p_:p_ + len(newv)] = newv
            want_b = "".join("%d\n" % v for v in arr).encode()
            if fb != want_b:
                chk.violation("history/text-bytes", "text: old %s, same-width put %s at %d: a.txt = %r, flat array renders as %r" % (old, newv, p_, fb[:80], want_b[:80]),
                              {"kind": "impl-vs-spec", "old": old, "p": p_, "new": newv, "file": fb.hex()})
            else:
                nontriv.add(("textb", tuple(old), p_, tuple(newv)))

    # ---------------------------------------------------------------- GD_HERE sequential writes
    for enc in ENCS:
        d = os.path.join(root, "here-" + enc); os.mkdir(d)
        open(os.path.join(d, "format"), "w").write("/ENCODING %s\na RAW UINT8 1\n" % enc)
        rc, out = vlib.sh([exe], inp=("open %s rw\nput a 1 0 0 3 1 2 3\nput a 1 HERE 0 2 4 5\nput a 1 HERE 0 2 6 7\nget a 1 0 0 12\nclose\n" % d).encode())
        r = out.strip().split("\n")
        chk.cov["evaluations"] += 1
        want = "get 7 0 1 2 3 4 5 6 7"
        if len(r) < 5 or r[4] != want:
            key = KEY_HERE_SIE if enc == "sie" else KEY_HERE_OOP if enc in ("gzip", "bzip2", "lzma") else "putdata/GD_HERE/" + enc
            chk.violation(key, "GD_HERE sequential writes, encoding %s: put 1 2 3 at 0, then 4 5 and 6 7 at GD_HERE; the field reads back as '%s' (expected '%s')" % (
                enc, r[4] if len(r) > 4 else out[-200:], want),
                {"kind": "impl-vs-spec", "encoding": enc, "script": ["put a UINT8 0: 1 2 3", "put a UINT8 GD_HERE: 4 5", "put a UINT8 GD_HERE: 6 7", "get a 0..12"],
                 "got": r, "want": want})

    # ---------------------------------------------------------------- derived writes: BIT/SBIT, PHASE, MPLEX
    derived_bad = []
    d = os.path.join(root, "der"); os.mkdir(d)
    open(os.path.join(d, "format"), "w").write(
        "/ENCODING none\nr RAW UINT64 1\nb BIT r 5 7\nsb SBIT r 60 4\nw BIT r 0 64\nph PHASE r 2\n"
        "x RAW INT32 2\nc RAW INT32 1\nm MPLEX x c 1\ny RAW INT32 1\nc2 RAW INT32 1\nm2 MPLEX y c2 1\n")
    olds = [rng.getrandbits(64) for _ in range(6)]
    vs = [rng.getrandbits(64) for _ in range(6)]
    sc = ["open %s rw" % d, "put r 7 0 0 6 " + gdlib.hexs(olds), "put b 7 0 0 6 " + gdlib.hexs(vs), "get r 7 0 0 6", "get b 7 0 0 6",
          "put sb 7 0 1 3 " + gdlib.hexs(vs[:3]), "get r 7 0 0 6", "put ph 7 0 1 2 aa bb", "get r 7 0 0 8",
          # equal-rate MPLEX
          "put y 4 0 0 6 1 2 3 4 5 6", "put c2 4 0 0 6 1 0 1 1 0 2", "put m2 4 0 0 6 11 12 13 14 15 16", "get y 4 0 0 6",
          # unequal rates: x has 2 samples per frame, c one
          "put x 4 0 0 4 1 2 3 4", "put c 4 0 0 2 1 0", "put m 4 0 0 4 11 12 13 14", "get x 4 0 0 4", "close"]
    rc, out = vlib.sh([exe], inp=("\n".join(sc) + "\n").encode())
    r = out.strip().split("\n")
    chk.cov["evaluations"] += 5
    if len(r) == len(sc):
        m7 = (1 << 7) - 1
        after_b = [(o & ~(m7 << 5)) | ((v & m7) << 5) for o, v in zip(olds, vs)]
        g = gdlib.parse_get(r[3])
        if g is None or g[2] != after_b:
            derived_bad.append(("putdata/bit", "BIT r 5 7 write: r reads %s, expected %s" % (r[3][:200], gdlib.hexs(after_b))))
        g = gdlib.parse_get(r[4])
        if g is None or g[2] != [v & m7 for v in vs]:
            derived_bad.append(("putdata/bit", "BIT read-back %s, expected %s" % (r[4][:200], gdlib.hexs([v & m7 for v in vs]))))
        after_sb = list(after_b)
        for i in range(3):
            after_sb[1 + i] = (after_sb[1 + i] & ~(0xf << 60)) | ((vs[i] & 0xf) << 60)
        g = gdlib.parse_get(r[6])
        if g is None or g[2] != after_sb:
            derived_bad.append(("putdata/sbit", "SBIT r 60 4 write: r reads %s, expected %s" % (r[6][:200], gdlib.hexs(after_sb))))
        after_ph = list(after_sb) + [0, 0]
        after_ph[3] = 0xaa; after_ph[4] = 0xbb
        g = gdlib.parse_get(r[8])
        if g is None or g[2] != after_ph[:max(6, len(g[2]))]:
            derived_bad.append(("putdata/phase", "PHASE r 2 write at 1: r reads %s, expected %s" % (r[8][:200], gdlib.hexs(after_ph[:6]))))
        g = gdlib.parse_get(r[12])
        if g is None or g[2] != [0x11, 2, 0x13, 0x14, 5, 6]:
            derived_bad.append(("putdata/mplex-equal-spf", "MPLEX (equal rates) write: y reads %s, expected 11 2 13 14 5 6" % r[12][:120]))
        g = gdlib.parse_get(r[16])
        # inverting the read formula: frame 0 (c=1) takes 11 12, frame 1 (c=0) keeps 3 4
        if g is None or g[2] != [0x11, 0x12, 3, 4]:
            chk.violation(KEY_MPLEX, "MPLEX write with spf(input)=2, spf(index)=1, index = 1 0, count 1: x = 1 2 3 4, put m 11 12 13 14 -> x reads %s, "
                          "inverting the read formula gives 11 12 3 4" % (r[16][:100]),
                          {"kind": "impl-vs-spec", "format": open(os.path.join(d, "format")).read(), "script": sc[13:17], "got": r[16], "want": "get 4 0 11 12 3 4"})
    else:
        derived_bad.append(("harness", "derived-write script failed: " + out[-300:]))
    # ---------------------------------------------------------------- every caller type x field type, boundary values
    # (type limits, 2^31, 2^32, 2^63 neighbourhoods as far as the caller type holds them): what is written is "the value
    # converted to the field's type" (the C conversion; cases that are undefined in C are left out)
    import math

    def from_pattern(tt, comps):
        """value of one sample: int, float or complex"""
        if tt < 8:
            return gdlib.int_value(tt, comps[0])
        if tt < 10:
            return gdlib.float_value(tt, comps[0])
        return complex(gdlib.float_value(tt, comps[0]), gdlib.float_value(tt, comps[1]))

    def to_pattern(tt, v):
        """patterns of value v converted to type tt as C does, None when the conversion is undefined"""
        w_ = CSIZE[tt]
        if tt < 8:
            if isinstance(v, complex):
                v = v.real
            if isinstance(v, float):
                if math.isnan(v) or math.isinf(v):
                    return None
                v = int(v)          # truncation
                lo_, hi_ = (-(1 << (8 * w_ - 1)), (1 << (8 * w_ - 1)) - 1) if gdlib.ISSIGNED[tt] else (0, (1 << 8 * w_) - 1)
                if not lo_ <= v <= hi_:
                    return None     # out of range float -> integer: undefined behaviour in C
            return [v & ((1 << 8 * w_) - 1)]

        def fbits(x):
            x = float(x) if not isinstance(x, float) else x
            if w_ == 4:
                try:
                    return struct.unpack("<I", struct.pack("<f", x))[0]
                except OverflowError:
                    return struct.unpack("<I", struct.pack("<f", math.copysign(float("inf"), x)))[0]
            return struct.unpack("<Q", struct.pack("<d", x))[0]
        if tt < 10:
            if isinstance(v, complex):
                v = v.real
            return [fbits(v)]
        if isinstance(v, complex):
            return [fbits(v.real), fbits(v.imag)]
        return [fbits(v), fbits(0.0)]

    def boundary(tt):
        """boundary samples of caller type tt, as component patterns"""
        w_ = CSIZE[tt]; bits_ = 8 * w_; mask_ = (1 << bits_) - 1
        if tt < 8:
            vals = [0, 1, mask_, mask_ >> 1, (mask_ >> 1) + 1, 0x7f, 0x80, 0xff, 0x7fff, 0x8000, 0xffff, (1 << 31) - 1, 1 << 31, (1 << 31) + 1,
                    (1 << 32) - 1, 1 << 32, (1 << 32) + 5, (1 << 63) - 1, 1 << 63, (1 << 53) + 1, 3000000000, rng.getrandbits(bits_)]
            return [[v & mask_] for v in dict.fromkeys(v & mask_ for v in vals)]
        fv = [0.0, -0.0, 1.0, -1.0, 0.5, -2.5, 127.0, 128.0, 255.0, 256.0, -128.0, -129.0, 32767.0, 32768.0, 65535.0, 65536.0, 2147483647.0, 2147483648.0,
              -2147483648.0, 4294967295.0, 4294967296.0, 3e9, 9007199254740993.0, 1e-3, 16777217.0, 1e19, -1e19, 9.2e18, 1.8e19]
        pats = []
        for x in fv:
            z = struct.unpack("<I", struct.pack("<f", x))[0] if w_ == 4 else struct.unpack("<Q", struct.pack("<d", x))[0]
            pats.append([z] if tt < 10 else [z, struct.unpack("<I", struct.pack("<f", 1.5))[0] if w_ == 4 else struct.unpack("<Q", struct.pack("<d", 1.5))[0]])
        return pats
    convbad = {}
    cvn = 0
    for tc_ in range(12):
        for tf_ in range(12):
            samples_ = []
            for pat in boundary(tc_):
                out_ = to_pattern(tf_, from_pattern(tc_, pat))
                if out_ is not None:
                    samples_.append((pat, out_))
            if not samples_:
                continue
            enc_ = "none" if (tc_ + tf_) % 3 else rng.choice(["gzip", "sie", "lzma", "bzip2"])
            sex_ = rng.choice(gdlib.sexes_for(tf_))
            dcv = os.path.join(root, "cv%d_%d" % (tc_, tf_)); os.mkdir(dcv)
            open(os.path.join(dcv, "format"), "w").write("/ENCODING %s\n%s\na RAW %s 1\n" % (enc_, gdlib.sex_directive(sex_), NAMES[tf_]))
            flat_in = [x for pat, _ in samples_ for x in pat]
            flat_out = [x for _, o in samples_ for x in o]
            sc_ = ["open %s rw" % dcv, "put a %d 0 0 %d %s" % (tc_, len(samples_), gdlib.hexs(flat_in)), "get a %d 0 0 %d" % (tf_, len(samples_) + 1),
                   "close", "open %s ro" % dcv, "get a %d 0 0 %d" % (tf_, len(samples_) + 1), "close"]
            rc_, out_ = vlib.sh([exe], inp=("\n".join(sc_) + "\n").encode(), timeout=60)
            r_ = out_.strip().split("\n")
            chk.cov["evaluations"] += 1; cvn += 1
            g1 = gdlib.parse_get(r_[2]) if len(r_) > 2 else None
            g2 = gdlib.parse_get(r_[5]) if len(r_) > 5 else None

            def same(gl):
                if gl is None or gl[1] != 0 or len(gl[2]) != len(flat_out):
                    return None
                for i_, (a_, b_) in enumerate(zip(gl[2], flat_out)):
                    if a_ != b_:
                        # NaNs are one class
                        if ISFLOAT[tf_]:
                            fa, fb = gdlib.float_value(tf_, a_), gdlib.float_value(tf_, b_)
                            if math.isnan(fa) and math.isnan(fb):
                                continue
                        return i_
                return -1
            k1_, k2_ = same(g1), same(g2)
            if rc_ != 0 or k1_ != -1 or k2_ != -1:
                kk = k1_ if k1_ not in (-1, None) else k2_
                ix = (kk // NCOMP[tf_]) if isinstance(kk, int) and kk >= 0 else None
                convbad.setdefault("putdata/caller-type-conversion/%s->%s" % (NAMES[tc_], NAMES[tf_]), []).append(
                    (sc_, "put of %s %s into a %s field reads back %s, the C conversion gives %s (same handle: %s | after reopen: %s)" % (
                        NAMES[tc_], gdlib.hexs(samples_[ix][0]) if ix is not None else "?", NAMES[tf_],
                        gdlib.hexs(g1[2][ix * NCOMP[tf_]:(ix + 1) * NCOMP[tf_]]) if (ix is not None and g1 and len(g1[2]) >= (ix + 1) * NCOMP[tf_]) else "?",
                        gdlib.hexs(samples_[ix][1]) if ix is not None else "?", r_[2][:80] if len(r_) > 2 else out_[-80:], r_[5][:80] if len(r_) > 5 else "")))
            else:
                nontriv.add(("conv", tc_, tf_, tuple(flat_out)))
    for key_, l_ in sorted(convbad.items()):
        sc_, why_ = l_[0]
        chk.violation(key_, why_, {"kind": "impl-vs-spec", "script": sc_, "why": why_})

    # generated MPLEX write-through: any pair of sample rates, any index contents; oracle = the read formula
    # (sample i of the data field changes iff index[floor(i*spf2/spf1)] == count value)
    nmp = 24 if not chk.thorough else 300
    mpbad = {}
    for mi in range(nmp):
        s1 = rng.choice([1, 2, 3, 4]); s2 = rng.choice([1, 2, 3, 4])
        nfr = rng.randint(2, 6)
        cval = rng.randint(0, 2)
        xs = [rng.randint(1, 200) for _ in range(nfr * s1)]
        cs_ = [rng.choice([cval, cval, (cval + 1) % 3, (cval + 2) % 3]) for _ in range(nfr * s2)]
        f0 = rng.randint(0, nfr - 1)
        n_ = rng.randint(1, (nfr - f0) * s1)
        new_ = [rng.randint(300, 500) for _ in range(n_)]
        dm = os.path.join(root, "mp%d" % mi); os.mkdir(dm)
        open(os.path.join(dm, "format"), "w").write("/ENCODING none\nx RAW INT32 %d\nc RAW INT32 %d\nm MPLEX x c %d\n" % (s1, s2, cval))
        scm = ["open %s rw" % dm, "put x 4 0 0 %d %s" % (len(xs), gdlib.hexs(xs)), "put c 4 0 0 %d %s" % (len(cs_), gdlib.hexs(cs_)),
               "put m 4 %d 0 %d %s" % (f0, n_, gdlib.hexs(new_)), "get x 4 0 0 %d" % (len(xs) + 2), "get c 4 0 0 %d" % (len(cs_) + 2), "close"]
        rcm, outm = vlib.sh([exe], inp=("\n".join(scm) + "\n").encode(), timeout=60)
        rm = outm.strip().split("\n")
        chk.cov["evaluations"] += 1
        want_x = list(xs)
        for i_ in range(n_):
            k_ = f0 * s1 + i_
            if cs_[k_ * s2 // s1] == cval:
                want_x[k_] = new_[i_]
        gx = gdlib.parse_get(rm[4]) if len(rm) > 4 else None
        gc = gdlib.parse_get(rm[5]) if len(rm) > 5 else None
        if rcm != 0 or gx is None or gx[2] != want_x or gc is None or gc[2] != cs_:
            mpbad.setdefault("putdata/mplex/spf%s" % ("-equal" if s1 == s2 else "-unequal"), []).append(
                (scm, open(os.path.join(dm, "format")).read(), "x reads %s, the read formula dictates %s (index field reads %s)" % (
                    rm[4][:160] if len(rm) > 4 else outm[-100:], gdlib.hexs(want_x), rm[5][:80] if len(rm) > 5 else "")))
        else:
            nontriv.add(("mplex", s1, s2, cval, tuple(want_x)))
    for key_, l_ in sorted(mpbad.items()):
        scm, fm_, why_ = l_[0]
        derived_bad.append((key_, "MPLEX write-through (%d cases): %s ; script %s" % (len(l_), why_, " ; ".join(scm[1:5])[:300])))

    # repeated writes through invertible derived fields on ONE handle: LINTERP over generated monotonic tables (rising and
    # falling y, curved: the slope changes from segment to segment), first-order LINCOM / POLYNOM, RECIP, all over the same
    # RAW field; 3..6 puts per case in random order of kinds, so every kind is also written a second and third time after
    # whatever it cached on the first.  All numbers are dyadic rationals of small magnitude: double arithmetic is exact.
    nrw = 24 if not chk.thorough else 300
    rwbad = {}
    for ri in range(nrw):
        nk = rng.randint(3, 6)
        falling = rng.random() < 0.6
        xk = [float(rng.randint(-8, 8))]; yk = [float(rng.randint(-16, 16))]
        for _ in range(nk - 1):
            dx = rng.choice([1.0, 2.0, 4.0, 8.0]); sl = rng.choice([0.5, 1.0, 2.0, 4.0])
            xk.append(xk[-1] + dx); yk.append(yk[-1] + (-sl if falling else sl) * dx)
        sa = rng.choice([2.0, 4.0, 0.5, -2.0, -0.25]); sb = float(rng.randint(-6, 6))
        pc0 = float(rng.randint(-6, 6)); pc1 = rng.choice([2.0, -4.0, 0.5, 8.0])
        dv = rng.choice([8.0, -16.0, 2.0])
        dr = os.path.join(root, "rw%d" % ri); os.mkdir(dr)
        open(os.path.join(dr, "format"), "w").write("/ENCODING none\nr RAW FLOAT64 1\nli LINTERP r t.lut\nlc LINCOM r %r %r\npo POLYNOM r %r %r\nrc RECIP r %r\n" % (
            sa, sb, pc0, pc1, dv))
        open(os.path.join(dr, "t.lut"), "w").write("".join("%r %r\n" % (x_, y_) for x_, y_ in zip(xk, yk)))
        nr = 24
        rvals = [1.0] * nr
        scr = ["open %s rw" % dr, "put r 9 0 0 %d %s" % (nr, " ".join("%x" % f64(1.0) for _ in range(nr)))]
        kinds = ["li", "li", rng.choice(["lc", "po", "rc"])] + [rng.choice(["li", "li", "lc", "po", "rc"]) for _ in range(rng.randint(0, 3))]
        rng.shuffle(kinds)
        for kd in kinds:
            k_ = rng.randint(1, 4); p_ = rng.randint(0, nr - k_)
            ys_, xs_ = [], []
            for _ in range(k_):
                if kd == "li":
                    sg = rng.randrange(nk - 1)
                    if rng.random() < 0.5:
                        y_, x_ = yk[sg], xk[sg]
                    else:
                        y_, x_ = (yk[sg] + yk[sg + 1]) / 2, (xk[sg] + xk[sg + 1]) / 2
                elif kd == "lc":
                    x_ = float(rng.randint(-20, 20)) / 4; y_ = sa * x_ + sb
                elif kd == "po":
                    x_ = float(rng.randint(-20, 20)) / 4; y_ = pc0 + pc1 * x_
                else:
                    x_ = rng.choice([1.0, -2.0, 4.0, 0.5, -0.25]); y_ = dv / x_
                ys_.append(y_); xs_.append(x_)
            scr.append("put %s 9 0 %d %d %s" % (kd, p_, k_, " ".join("%x" % f64(y_) for y_ in ys_)))
            rvals[p_:p_ + k_] = xs_
        scr += ["get r 9 0 0 %d" % (nr + 2), "close"]
        rcr, outr = vlib.sh([exe], inp=("\n".join(scr) + "\n").encode(), timeout=60)
        rr = outr.strip().split("\n")
        chk.cov["evaluations"] += 1
        gr = gdlib.parse_get(rr[-2]) if len(rr) == len(scr) else None
        puts_ok = len(rr) == len(scr) and all(l.split()[2:] == ["0"] for l in rr[1:-2])
        if rcr != 0 or gr is None or not puts_ok or gr[2] != [f64(v) for v in rvals]:
            first = next((i for i in range(nr) if gr is not None and len(gr[2]) == nr and gr[2][i] != f64(rvals[i])), None)
            rwbad.setdefault("putdata/derived-repeated/%s" % ("falling-table" if falling else "rising-table"), []).append(
                (scr, "table %s ; r reads %s, inverting the read formulas gives %s%s" % (
                    " ".join("(%g,%g)" % (x_, y_) for x_, y_ in zip(xk, yk)), (rr[-2][:200] if len(rr) >= 2 else outr[-100:]),
                    " ".join("%g" % v for v in rvals), "" if first is None else " (first difference at sample %d)" % first)))
        else:
            nontriv.add(("rw", tuple(xk), tuple(yk), tuple(kinds), tuple(rvals)))
    for key_, l_ in sorted(rwbad.items()):
        scr, why_ = l_[0]
        derived_bad.append((key_, "repeated writes through LINTERP/LINCOM/POLYNOM/RECIP on one handle (%d cases): %s ; script %s" % (len(l_), why_, " ; ".join(scr[2:-2])[:400])))

    # first-order LINCOM / POLYNOM, RECIP, monotonic LINTERP (values chosen so that double arithmetic is exact)
    d2 = os.path.join(root, "der2"); os.mkdir(d2)
    open(os.path.join(d2, "format"), "w").write(
        "/ENCODING none\nr1 RAW FLOAT64 1\nr2 RAW FLOAT64 1\nr3 RAW FLOAT64 1\nr4 RAW FLOAT64 1\nr5 RAW INT32 1\n"
        "lc LINCOM r1 2 1\npo POLYNOM r2 3 0.5\nrc RECIP r3 8\nli LINTERP r4 table.lut\nlci LINCOM r5 4 -8\n")
    open(os.path.join(d2, "table.lut"), "w").write("0 0\n10 20\n20 60\n30 120\n")
    ys = [1.0, 3.0, -5.0, 21.0, 0.5]
    sc2 = ["open %s rw" % d2,
           "put r1 9 0 0 7 " + " ".join("%x" % f64(9) for _ in range(7)), "put lc 9 0 1 5 " + " ".join("%x" % f64(y) for y in ys), "get r1 9 0 0 7", "get lc 9 0 0 7",
           "put po 9 0 0 5 " + " ".join("%x" % f64(y) for y in ys), "get r2 9 0 0 5",
           "put rc 9 0 0 4 " + " ".join("%x" % f64(y) for y in (1.0, 2.0, -4.0, 16.0)), "get r3 9 0 0 4", "get rc 9 0 0 4",
           "put li 9 0 0 5 " + " ".join("%x" % f64(y) for y in (0.0, 10.0, 20.0, 40.0, 90.0)), "get r4 9 0 0 5", "get li 9 0 0 5",
           "put lci 4 0 0 3 0 4 64", "get r5 4 0 0 3", "close"]
    rc, out = vlib.sh([exe], inp=("\n".join(sc2) + "\n").encode())
    r2 = out.strip().split("\n")
    chk.cov["evaluations"] += 6
    if len(r2) == len(sc2):
        def want(line, vals, what, intcomps=False):
            g = gdlib.parse_get(line)
            w = vals if intcomps else [f64(v) for v in vals]
            if g is None or g[1] != 0 or g[2] != w:
                derived_bad.append(("putdata/" + what.split()[0].lower(), "%s: reads %s, expected %s" % (what, line[:200], gdlib.hexs(w))))
        want(r2[3], [9.0] + [(y - 1) / 2 for y in ys] + [9.0], "LINCOM r1 2 1 write at 1..5: r1")
        want(r2[4], [19.0] + ys + [19.0], "LINCOM read-back")
        want(r2[6], [(y - 3) / 0.5 for y in ys], "POLYNOM r2 3 0.5 write: r2")
        want(r2[8], [8.0, 4.0, -2.0, 0.5], "RECIP r3 8 write: r3")
        want(r2[9], [1.0, 2.0, -4.0, 16.0], "RECIP read-back")
        want(r2[11], [0.0, 5.0, 10.0, 15.0, 25.0], "LINTERP (0,0)(10,20)(20,60)(30,120) write: r4")
        want(r2[12], [0.0, 10.0, 20.0, 40.0, 90.0], "LINTERP read-back")
        want(r2[14], [2, 3, 27], "LINCOM r5 4 -8 write to an INT32 field: r5", True)
    else:
        derived_bad.append(("harness", "inverse-write script failed: " + out[-300:]))
    for key, why in derived_bad:
        chk.violation(key, why, {"kind": "impl-vs-spec", "why": why, "script": sc})

    # ---------------------------------------------------------------- verdicts
    found_any = bool(derived_bad)
    for key, l in sorted(spec_bad.items()):
        c, why = l[0]
        found_any = True
        chk.violation(key, "%s %s %s off=%d spf=%d: %s (%d such histories)" % (key, NAMES[c["t"]], c["sex"], c["off"], c["spf"], why, len(l)),
                      {"kind": "impl-vs-spec", "format": open(os.path.join(c["dir"], "format")).read() if os.path.exists(os.path.join(c["dir"], "format")) else "",
                       "script": c["script"], "why": why, "count": len(l), "how": "feed the script to harness/C04/gdrun.c built with hook H1 (see gdlib.HOOKS)"})
    for key, l in sorted(model_bad.items()):
        if key in spec_bad:
            continue
        c, why = l[0]
        chk.violation("model/" + key, "correspondence broken (%s, %s %s): %s (%d histories)" % (key, NAMES[c["t"]], c["sex"], why, len(l)),
                      {"kind": "model-vs-impl", "correspondence": "C03 codec model vs library", "script": c["script"], "why": why}, found=False)
    chk.cov["distinct_nontrivial"] = len(nontriv)
    chk.cov["rule"] = ("write/read/flush/sync/reopen histories (3-12 operations) per encoding x random type x byte order x frame offset {0,1,3} x spf {1,2,3}: "
                       "appends, overwrites, writes past the end (gap), backward writes, mixed caller types, interleaved whole-field reads; SIE histories biased to "
                       "equal neighbours, zero runs, run splitting and merging; copy buffers 64 bytes (hook H1).  Every read and the final data file (decoded by python) "
                       "are compared with the flat-array oracle, and with the extracted codec model (raw / out-of-place / SIE cursor machine; data file bytes equal). "
                       "Plus GD_HERE sequential writes per encoding and BIT/SBIT/PHASE/MPLEX write-through.  non-trivial = distinct (encoding, type, order, final array) "
                       "histories that agreed on everything")
    chk.cov["input_distribution"] = dict(stats, histories={e: ncase[e] for e in ENCS})
    if trans_problems and not found_any:
        chk.violation("translator", "translate/tr_sieseek.py cannot read the shortcut of _GD_SampIndSeek in src/sie.c: " + "; ".join(trans_problems[:3]),
                      {"kind": "translator", "problems": trans_problems, "theorem": "sie_write_refines / sie_histories_refine (variant of the cursor model unknown)"}, found=False)
    if not proved and not found_any:
        chk.violation("proof", "Properties_C03 does not check: " + getattr(chk, "proof_log", "")[-1200:],
                      {"kind": "proof", "theorem": "Properties_C03", "log": getattr(chk, "proof_log", "")[-4000:]}, found=False)
    return chk.finish()


if __name__ == "__main__":
    sys.exit(main())
