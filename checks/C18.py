#!/usr/bin/env python3
"""C18 -- a dirfile being appended to can be read concurrently and consistently.

proof:   Properties_C18.v (nframes_monotone, prefix_consistent, no_partial, never_absent_in_place,
         never_absent_out_of_place, oop_sequence_*, sie_observation / sie_window_exact / sie_consistent_refuted, long_lived_consistent (full, current source), long_lived_{fixed,refuted}) over C18/Append.v on the filesystem of C12
tie:     harness/C12/shim.c in interactive mode stops the REAL writer (harness/C18/app.c: a foreign
         raw-byte writer with sample-splitting chunks, and the library's gd_putdata/gd_sync/gd_flush
         on unencoded and gzip data) before every system call; at every stop a reader process runs
         a complete pass with a fresh handle, with a handle opened before the writer started, and a
         greedy sequential pass; file sizes, frame counts and the greedy reader's positions are
         compared with the extracted model (ocaml/C18/driver)
search:  every pass is judged against the writer's own record (sample i of a = 1000+i)."""
import sys, os, re, json, shutil, struct, gzip, subprocess
sys.path.insert(0, os.path.join(os.path.dirname(os.path.abspath(__file__)), "..", "bin"))
sys.path.insert(0, os.path.join(os.path.dirname(os.path.abspath(__file__)), "..", "harness", "C12"))
import vlib, shimlib

K_DESYNC = "raw/long-lived-handle/read-past-partial-sample-desynchronises"
K_SIEHELD = "sie/long-lived-handle/stale-stdio-buffer-after-rewind"
K_SIEZERO = "sie/writer/placeholder-zero-record-visible-before-data"
K_SIEEMPTY = "sie/empty-data-file/gd_nframes-fails"
K_TEXTHELD = "text/long-lived-handle/appended-lines-not-read-after-eof"
K_TEXTPART = "text/partial-trailing-line-reported-as-frame"
K_NOREF = "no-REFERENCE/metaflush-writes-REFERENCE-of-last-RAW/reference-field-changes"
K_GZHELD = "gzip/long-lived-handle/frame-count-from-new-file-data-from-old-descriptor"
SPF_A = 3


def make_dirfile(d, enc, fa=2, fb=2, spf=SPF_A, noref=False, links=False):
    os.makedirs(d)
    if noref:      # no /REFERENCE: the reference field is the FIRST RAW field (a); the last line is a RAW field too
        open(os.path.join(d, "format"), "w").write("/VERSION 9\n/ENDIAN little\n/ENCODING %s\na RAW INT16 %d\nhb CONST UINT32 0\nb RAW UINT8 1\n" % (enc, spf))
    else:
        open(os.path.join(d, "format"), "w").write("/VERSION 9\n/ENDIAN little\n/ENCODING %s\na RAW INT16 %d\nb RAW UINT8 1\nhb CONST UINT32 0\n/REFERENCE a\n" % (enc, spf))
    da = struct.pack("<%dh" % (fa * spf), *[1000 + i for i in range(fa * spf)])
    db = bytes(i & 0xff for i in range(fb))
    ext = {"none": "", "gzip": ".gz", "bzip2": ".bz2", "lzma": ".xz"}.get(enc)
    if ext is not None and fa > 0:
        import bz2, lzma
        comp = {"none": lambda x: x, "gzip": gzip.compress, "bzip2": bz2.compress, "lzma": lzma.compress}[enc]
        for name, data in (("a", da), ("b", db)):
            if links:        # the data file is reached through a symbolic link (data kept on another volume, say)
                os.makedirs(os.path.join(d, "store"), exist_ok=True)
                open(os.path.join(d, "store", name + ext), "wb").write(comp(data))
                os.symlink(os.path.join("store", name + ext), os.path.join(d, name + ext))
            else:
                open(os.path.join(d, name + ext), "wb").write(comp(data))


def parse_pass(line):
    """fresh/held line -> dict"""
    r = {"raw": line.strip()}
    m = re.match(r"(\w+) openerr (-?\d+)", line)
    if m:
        r.update(tag=m.group(1), openerr=int(m.group(2))); return r
    m = re.match(r"(\w+) nf (-?\d+) e (-?\d+)(?: hb (\d+) he (-?\d+))?(.*)", line.strip())
    if not m:
        r["bad"] = True; return r
    r.update(tag=m.group(1), nf=int(m.group(2)), e=int(m.group(3)), fields={}, hb=(int(m.group(4)) if m.group(4) else None), he=(int(m.group(5)) if m.group(5) else 0))
    m = re.match(r"()()()(.*)", m.group(6))
    for part in m.group(4).split("|")[1:]:
        mm = re.match(r"\s*(\w+) spf (\d+) got (\d+) e (-?\d+) :(.*)", part)
        if mm:
            r["fields"][mm.group(1)] = {"spf": int(mm.group(2)), "got": int(mm.group(3)), "e": int(mm.group(4)),
                                         "v": [int(x) for x in mm.group(5).split()]}
    return r


def parse_greedy(line):
    m = re.match(r"greedy from (-?\d+) got (\d+) e (-?\d+) :(.*)", line.strip())
    if not m:
        return {"bad": True, "raw": line}
    return {"from": int(m.group(1)), "got": int(m.group(2)), "e": int(m.group(3)), "v": [int(x) for x in m.group(4).split()]}


def main():
    chk = vlib.Check("C18")
    shimlib.load_staged_findings(chk, "C18")
    rng = chk.rng
    rc, tout = vlib.sh("python3 %s/translate/tr_rawread.py" % vlib.VERIF)
    trans_problems = [l for l in tout.splitlines() if l.startswith("PROBLEM")]
    proved = chk.prove("Properties_C18", extra_targets=["Gen/RawShape.vo"])
    try:
        fx = "read_steps_back : bool := true" in open(os.path.join(vlib.COQ, "Gen", "RawShape.v")).read()
    except OSError:
        fx = False
    chk.cov["trusted_base"] += [
        "Coq 8.16.1 kernel; vm_compute for the desynchronisation witness",
        "abstract filesystem coq/C12/Fs.v: write(2) appends in order and is atomic with respect to an observer, rename(2) is atomic",
        "translate/tr_rawread.py (anchors of _GD_RawRead/_GD_RawSeek/_GD_RawSize; selects the instance read_steps_back=%s)" % fx,
        "coq/C18/Append.v is hand-written from raw.c:60-165 / nframes.c (size rounding, seek short-circuit, read advancing pos by whole samples); tied to the code by the comparison of file sizes, frame counts and greedy-reader positions at every writer stop",
        "harness/C12/shim.c interactive mode, harness/C18/app.c, ocaml/C18/driver.ml (ExtrOcamlBasic extraction)",
    ]
    chk.assumptions += [
        "observation points = system-call boundaries of the writer (the reader runs a complete pass while the writer is stopped); finer interleavings rely on write/rename atomicity",
        "reference field a: INT16, 3 samples per frame; second field b: UINT8; initial 2 frames",
        "gzip, text and sie are exercised through the library writer only (their files are pre-populated through the library too)",
    ]
    try:
        impl = vlib.build_impl()
        exe = vlib.build_harness(impl, os.path.join(vlib.VERIF, "harness/C18/app.c"))
        shim = shimlib.build_shim(impl)
        ok, log = vlib.coq_make(["C18/Append.vo", "Gen/RawShape.vo"])
        drv = vlib.build_ocaml_driver("C18", "C18/Extract.v", "ocaml/C18/driver.ml") if ok else None
    except vlib.BuildError as e:
        chk.violation("build", "build failed: " + str(e)[:2000], {"kind": "build", "log": str(e)}, found=False)
        return chk.finish()
    if drv is None:
        chk.violation("model-build", "Coq model does not compile: " + log[-1500:], {"kind": "model-build"}, found=False)
        return chk.finish()
    base = vlib.scratch("verif-c18-")
    # the implementation cache may be pruned by a concurrent check: run private copies of the binaries
    exe = shutil.copy2(exe, os.path.join(base, "harness-bin")); shim = shutil.copy2(shim, os.path.join(base, "shim-bin"))

    def rand_chunks(n):
        return [rng.choice([1, 1, 2, 3, 3, 5, 5, 7, 4, 6, 11]) for _ in range(n)]

    def lib_ops(n, flushers):
        ops = []
        for _ in range(n):
            r = rng.random()
            if r < 0.55:
                ops.append("p:a:%d" % rng.choice([1, 2, 3, 4, 5, 7]))
            elif r < 0.8:
                ops.append("p:b:%d" % rng.choice([1, 2, 3]))
            else:
                ops.append(rng.choice(flushers))
        return ops
    scen = [("raw-foreign", "none", ["rawwrite", None, "2", "1000", "6", "30"] + [str(c) for c in [5, 3, 7, 2, 1, 4]]),
            ("raw-foreign", "none", ["rawwrite", None, "2", "1000", "6", "24"] + [str(c) for c in rand_chunks(7)]),
            ("lib", "none", ["write", None, "p:a:4", "p:b:1", "p:a:5", "s", "p:a:3", "p:b:2", "m", "p:a:6", "f", "p:a:2", "p:b:4", "p:a:1"]),
            ("lib", "none", ["write", None] + lib_ops(10, ["s", "f", "m", "c"])),
            ("lib", "gzip", ["write", None, "p:a:6", "p:b:2", "s", "p:a:3", "f", "p:a:3", "p:b:1", "c", "p:a:6"]),
            ("lib", "gzip", ["write", None] + lib_ops(6, ["s", "f", "c"])),
            ("lib", "text", ["write", None, "p:a:4", "p:b:1", "s", "p:a:5", "p:b:2", "f", "p:a:3", "m", "p:a:6"]),
            ("lib", "sie", ["write", None, "p:a:4", "p:b:1", "s", "p:a:5", "p:b:2", "f", "p:a:3", "m", "p:a:6"]),
            ("lib", "sie", ["write", None, "p:a:2", "p:a:1", "s", "p:a:3", "f", "p:a:2"], 1),
            # metadata that change between flushes (a CONST heartbeat), observed by fresh readers at every call
            ("lib", "none", ["write", None, "h", "p:a:3", "f", "h", "p:a:6", "m", "h", "p:a:3", "f", "h", "s"]),
            # appends larger than one stdio block: write(2) calls cut samples, lines and records
            ("lib", "none", ["write", None, "p:a:%d" % (2500 + 3 * rng.randrange(40)), "s", "p:a:2400", "f"]),
            ("lib", "text", ["write", None, "p:a:%d" % (2500 + 3 * rng.randrange(40)), "s", "p:a:2400", "f"]),
            ("lib", "sie", ["write", None, "p:a:%d" % (1500 + 3 * rng.randrange(40)), "s", "p:a:1500", "f"]),
            ("lib", "sie", ["write", None, "p:a:%d" % (1400 + rng.randrange(100)), "s", "p:a:1300", "f"], 1),
            ("lib", "gzip", ["write", None, "p:a:3000", "s", "p:a:3000", "f"]),
            ("lib", "text", ["write", None, "p:a:%d" % (2600 + rng.randrange(50)), "s", "p:a:1500", "f"], 1),
            # no /REFERENCE directive: the reference field must stay the first RAW field across the writer's metadata flushes
            ("lib", "none", ["write", None, "p:a:3", "h", "m", "p:a:6", "p:b:1", "f"], SPF_A, "noref"),
            # data files reached through symbolic links
            ("raw-foreign", "none", ["rawwrite", None, "2", "1000", "6", "24"] + [str(c) for c in rand_chunks(6)], SPF_A, "links"),
            ("lib", "none", ["write", None, "p:a:4", "p:b:1", "s", "p:a:5", "f", "p:a:3"], SPF_A, "links"),
            ("lib", "gzip", ["write", None, "p:a:6", "s", "p:a:3", "f", "p:a:3"], SPF_A, "links")] + [
            # a dirfile whose data files do not exist yet; the writer polls gd_nframes/gd_eof between appends at GD_HERE
            ("lib", e_, ["write", None, "p:a:6", "n", "P:a:3", "e", "P:a:3", "s", "n", "P:a:6", "n", "e", "P:a:3"], SPF_A, "empty")
            for e_ in ("none", "gzip", "text", "sie")]
    if chk.thorough:
        scen.append(("lib", "bzip2", ["write", None, "p:a:6", "p:b:2", "s", "p:a:3", "f", "p:a:3", "p:b:1", "c", "p:a:6"]))
        scen.append(("lib", "lzma", ["write", None, "p:a:6", "p:b:2", "s", "p:a:3", "f", "p:a:3", "p:b:1", "c", "p:a:6"]))
        for _ in range(12):
            scen.append(("raw-foreign", "none", ["rawwrite", None, "2", "1000", "6", str(rng.choice([18, 30, 45]))] + [str(c) for c in rand_chunks(9)]))
            scen.append(("lib", rng.choice(["none", "gzip"]), ["write", None] + lib_ops(12, ["s", "f", "m", "c"])))
    spec_bad, model_bad, known = [], [], []
    nontriv = set()
    counts = {"scenarios": len(scen), "stops": 0, "passes": 0, "by_kind": {}}
    mlines, mown = [], []
    for sid, sc_ in enumerate(scen):
        kind, enc, cmd = sc_[:3]
        spf = sc_[3] if len(sc_) > 3 else SPF_A
        noref = len(sc_) > 4 and sc_[4] == "noref"
        links = len(sc_) > 4 and sc_[4] == "links"
        empty = len(sc_) > 4 and sc_[4] == "empty"
        d = os.path.join(base, "s%d" % sid, "df")
        make_dirfile(d, enc, spf=spf, noref=noref, links=links, fa=(0 if empty else 2), fb=(0 if empty else 2))
        if enc in ("text", "sie") and not empty:
            vlib.sh([exe, "write", d, "p:a:%d" % (2 * spf), "p:b:2"], timeout=60)
        counts["by_kind"][kind + "/" + enc] = counts["by_kind"].get(kind + "/" + enc, 0) + 1
        cmd = [exe] + [(os.path.join(d, "a") if cmd[0] == "rawwrite" else d) if c is None else c for c in cmd]
        desc = {"writer": kind, "encoding": enc, "spf_of_reference_field": spf, "command": " ".join(cmd[1:]).replace(d, "DIR"),
                "how": "harness/C18/app reader DIR (commands fresh/held/greedy on stdin) while harness/C12/shim -r DIR -i -- harness/C18/app %s is stepped with 'c'" % " ".join(cmd[1:]).replace(d, "DIR")}
        reader = subprocess.Popen([exe, "reader", d], stdin=subprocess.PIPE, stdout=subprocess.PIPE)
        ready = reader.stdout.readline().decode()
        wr = subprocess.Popen([shim, "-r", d, "-i", "--"] + cmd, stdin=subprocess.PIPE, stdout=subprocess.PIPE)
        obs = []            # (stop label, fresh, held, greedy, size of a)

        def observe(label):
            res = {}
            for tag in ("fresh", "held", "greedy"):
                reader.stdin.write((tag + "\n").encode()); reader.stdin.flush()
                res[tag] = reader.stdout.readline().decode()
            fa = os.path.join(d, {"none": "a", "gzip": "a.gz", "text": "a.txt", "sie": "a.sie", "bzip2": "a.bz2", "lzma": "a.xz"}[enc])
            sz = os.path.getsize(fa) if os.path.exists(fa) else -1
            obs.append((label, parse_pass(res["fresh"]), parse_pass(res["held"]), parse_greedy(res["greedy"]), sz))
        stops = []
        while True:
            l = wr.stdout.readline().decode()
            if not l:
                break
            if l.startswith("STOP"):
                f = l.rstrip("\n").split("\t")
                stops.append(f)
                observe("before call %s %s(%s)" % (f[1], f[2], f[3]))
                wr.stdin.write(b"c\n"); wr.stdin.flush()
            elif l.startswith("END"):
                observe("after the last call")
        wr.wait()
        observe("after the writer exited")
        reader.stdin.close(); reader.wait()
        counts["stops"] += len(stops); counts["passes"] += 3 * len(obs)
        chk.cov["evaluations"] += 3 * len(obs)
        if wr.returncode != 0 or not stops:
            chk.violation("harness", "writer failed: %s rc=%s" % (desc, wr.returncode), dict(desc, kind="harness"), found=False)
            continue
        # ---- the property text
        last_nf = {"fresh": -1, "held": -1}
        last_hb = [0]
        total_a = ((0 if empty else 2 * spf) + sum(int(c.split(":")[2]) for c in cmd if c.startswith(("p:a:", "P:a:")))) if kind == "lib" else \
                  (int(cmd[5]) + int(cmd[6]) if cmd[1] == "rawwrite" else None)
        for label, fr, he, gr, sz in obs:
            if empty and sz < 0:
                continue          # nothing has been written yet: the data file of the reference field does not exist
            if empty and sz == 0 and enc == "sie" and (fr.get("e") or he.get("e")):
                spec_bad.append((K_SIEEMPTY, "readers %s: the sie data file exists but is still empty and gd_nframes fails with %s instead of reporting 0 frames" % (label, fr.get("e")),
                                 dict(desc, at=label, kind="impl-vs-spec")))
                continue
            for tag, p in (("fresh", fr), ("held", he)):
                if p.get("bad") or "openerr" in p:
                    spec_bad.append(("%s/%s/%s-reader-fails" % (kind, enc, tag), "%s reader %s: %s" % (tag, label, p["raw"][:200]), dict(desc, at=label, kind="impl-vs-spec")))
                    continue
                nontriv.add((sid, tag, p["nf"]))
                if p["e"] != 0:
                    spec_bad.append(("%s/%s/%s-nframes-error" % (kind, enc, tag), "%s reader %s: gd_nframes fails with %d" % (tag, label, p["e"]), dict(desc, at=label, kind="impl-vs-spec")))
                    continue
                if tag == "fresh" and p.get("hb") is not None:
                    if p["he"] != 0 or p["hb"] < last_hb[0]:
                        spec_bad.append(("%s/%s/fresh-metadata-absent-or-older" % (kind, enc),
                                         "fresh reader %s: the CONST the writer rewrites at every flush reads %s (error %s) after %d had been seen: the format file is not entirely old or entirely new" % (
                                             label, p["hb"], p["he"], last_hb[0]), dict(desc, at=label, kind="impl-vs-spec", seen=p["raw"][:300])))
                    last_hb[0] = max(last_hb[0], p["hb"] or 0)
                if p["nf"] < last_nf[tag]:
                    spec_bad.append((K_NOREF if noref else "%s/%s/%s-nframes-decreases" % (kind, enc, tag), "%s reader %s: gd_nframes went from %d to %d" % (tag, label, last_nf[tag], p["nf"]),
                                     dict(desc, at=label, kind="impl-vs-spec")))
                last_nf[tag] = max(last_nf[tag], p["nf"])
                a = p["fields"].get("a")
                if total_a is not None and p["nf"] * spf > total_a:
                    spec_bad.append(("%s/%s/%s-nframes-beyond-what-was-written" % (kind, enc, tag),
                                     "%s reader %s: gd_nframes reports %d frames although the writer writes only %d samples (%d frames) in all" % (
                                         tag, label, p["nf"], total_a, total_a // spf), dict(desc, at=label, kind="impl-vs-spec")))
                    continue
                if p["nf"] > 0:
                    want = [1000 + i for i in range(p["nf"] * spf)]
                    if a is None or a["e"] != 0 or a["v"] != want:
                        spec_bad.append((K_TEXTPART if (enc == "text" and a is not None and a["e"] == 0 and len(a["v"]) == len(want) and a["v"][:-1] == want[:-1] and str(want[-1]).startswith(str(a["v"][-1]))) else
                                         K_SIEZERO if (enc == "sie" and tag == "fresh" and a is not None and a["e"] == 0 and len(a["v"]) == len(want) and a["v"][:-1] == want[:-1] and a["v"][-1] == 0) else
                                         K_SIEHELD if (enc == "sie" and tag == "held" and a is not None and a["e"] == 0) else K_GZHELD if (enc in ("gzip", "bzip2", "lzma") and tag == "held" and a is not None and a["e"] == 0 and a["v"] == want[:len(a["v"])]) else "%s/%s/%s-frames-differ" % (kind, enc, tag),
                                         "%s reader %s: %d frames reported but reading them gives %s (error %s) instead of the %d samples the writer wrote" % (
                                             tag, label, p["nf"], (a or {}).get("v", [])[:12], (a or {}).get("e"), len(want)), dict(desc, at=label, kind="impl-vs-spec", seen=p["raw"][:600])))
                    b = p["fields"].get("b")
                    # (sie pads a read beyond the last record, so a lagging second field cannot be judged there)
                    if enc != "sie" and b is not None and b["v"] != [i & 0xff for i in range(len(b["v"]))]:
                        spec_bad.append(("%s/%s/%s-second-field-differs" % (kind, enc, tag), "%s reader %s: field b returns %s" % (tag, label, b["v"][:12]), dict(desc, at=label, kind="impl-vs-spec")))
            if gr.get("bad") or gr["e"] != 0:
                spec_bad.append(("%s/%s/greedy-reader-fails" % (kind, enc), "sequential reader %s: %s" % (label, gr), dict(desc, at=label, kind="impl-vs-spec")))
            elif gr["v"] != [1000 + gr["from"] + i for i in range(gr["got"])]:
                known.append(("sequential reader with a long-lived handle, %s: asked for samples from %d, got %s instead of %s" % (
                    label, gr["from"], gr["v"][:6], [1000 + gr["from"] + i for i in range(min(6, gr["got"]))]), dict(desc, at=label, kind="impl-vs-spec"), kind, enc))
            nontriv.add((sid, "greedy", gr.get("from"), gr.get("got")))
        if total_a is not None and obs and "nf" in obs[-1][1] and not obs[-1][1].get("e") and obs[-1][1]["nf"] != total_a // spf:
            spec_bad.append(("%s/%s/final-frame-count-incomplete" % (kind, enc), "after the writer has exited a fresh reader reports %d frames although %d complete frames were written" % (
                obs[-1][1]["nf"], total_a // spf), dict(desc, kind="impl-vs-spec", seen=obs[-1][1]["raw"][:200])))
        # ---- the model, for the foreign raw writer (file a only)
        if kind == "raw-foreign":
            wsz = []
            for i, f in enumerate(stops):
                if f[2] == "write":
                    wsz.append(int(f[5]))
            mlines.append("W %d %d %d %s" % (2 * SPF_A, 2 * SPF_A * 2, len(wsz), " ".join(str(x) for x in wsz)))
            mlines.append("G %d 2 %d %s" % (1 if fx else 0, len(obs), " ".join(str(max(0, o[4])) for o in obs)))
            mown.append((sid, desc, stops, obs))
        if enc == "sie" and spf == 1:
            nv = sum(int(c.split(":")[2]) for c in cmd if c.startswith("p:a:"))
            n0 = 2 * spf
            cand = []
            for label, fr, he, gr, sz in obs:
                a = (fr.get("fields") or {}).get("a")
                L = len(a["v"]) if a else 0
                cand.append([j for j in (2 * (L - n0) - 1, 2 * (L - n0)) if 0 <= j <= 2 * nv] if a else [])
            qs = sorted(set(j for c in cand for j in c))
            rcs, so = vlib.sh([drv], inp="".join("S1 %d %d %d\n" % (n0, nv, j) for j in qs).encode(), timeout=300)
            states = {}
            for l in so.splitlines():
                if l.startswith("S "):
                    f = l.split()
                    states[int(f[1])] = [int(x) for x in f[2:]]
            last = 0
            for (label, fr, he, gr, sz), cj in zip(obs, cand):
                a = (fr.get("fields") or {}).get("a")
                if a is None:
                    continue
                idx = [j for j in cj if states.get(j) == a["v"] and j >= last]
                if not idx:
                    model_bad.append(("model/sie", "fresh reader %s decodes %d samples ending %s, which is not a state of the record-level model C18/Sie.v at or after step %d" % (
                        label, len(a["v"]), a["v"][-3:], last), dict(desc, kind="model-vs-impl", correspondence="C18 sie_observed")))
                    break
                last = idx[0]
                nontriv.add((sid, "sie-state", last))
        if sid < 3:
            chk.sample({"scenario": desc, "stops": len(stops), "nframes_seen_by_fresh_reader": [o[1].get("nf") for o in obs][:40]})
    # ---------------------------------------------------------------- the long-running reader (soak): one handle polled for
    # hundreds of rounds (idle polls asking for no new frames, polls on a still-empty dirfile), resources must stay constant
    rounds = 300 if not chk.thorough else 1500
    for enc in ("none", "text", "sie", "gzip", "bzip2", "lzma"):
        d = os.path.join(base, "soak-" + enc)
        os.makedirs(d)
        open(os.path.join(d, "format"), "w").write("/VERSION 9\n/ENDIAN little\n/ENCODING %s\na RAW INT16 %d\n/REFERENCE a\n" % (enc, SPF_A))
        rc, out = vlib.sh([exe, "soak", d, str(rounds)], timeout=600)
        chk.cov["evaluations"] += rounds
        counts["soak_rounds"] = counts.get("soak_rounds", 0) + rounds
        m = re.search(r"soak rounds (\d+) nf (-?\d+) written_frames (-?\d+) fdmin (-?\d+) fdmax (-?\d+) recmax (-?\d+) bad (\d+) first_bad (-?\d+) errs (\d+) first_err (-?\d+) errcode (-?\d+) nfdec (\d+)", out)
        sdesc = {"kind": "impl-vs-spec", "encoding": enc, "rounds": rounds,
                 "how": "harness/C18/app soak DIR %d   (DIR/format: ENCODING %s, a RAW INT16 %d, no data yet; a writer handle of the same process appends 0..4 samples per round and flushes)" % (rounds, enc, SPF_A)}
        if rc != 0 or not m:
            spec_bad.append(("soak/%s/crash" % enc, "long-running reader on %s data: the process died or hung (rc %d): %s" % (enc, rc, out[-200:]), sdesc)); continue
        g = [int(x) for x in m.groups()]
        _, nf, wf, fdmin, fdmax, recmax, bad, first_bad, errs, first_err, errcode, nfdec = g
        nontriv.add(("soak", enc, nf, bad > 0))
        if fdmin != fdmax:
            spec_bad.append(("soak/%s/descriptor-count-grows" % enc, "long-running reader on %s data: the number of open descriptors went from %d to %d over %d polls" % (enc, fdmin, fdmax, rounds), sdesc))
        if recmax != 0:
            spec_bad.append(("soak/%s/recurse-level-leaks" % enc, "long-running reader on %s data: D->recurse_level reached %d between calls" % (enc, recmax), sdesc))
        if errs:
            spec_bad.append(("soak/%s/poll-fails" % enc, "long-running reader on %s data: %d polls failed (first in round %d, error %d) after data had been written" % (enc, errs, first_err, errcode), sdesc))
        if nfdec or nf != wf:
            spec_bad.append(("soak/%s/nframes" % enc, "long-running reader on %s data: gd_nframes decreased %d times / ends at %d while %d frames were written" % (enc, nfdec, nf, wf), sdesc))
        if bad:
            key = {"text": K_TEXTHELD, "sie": K_SIEHELD}.get(enc, K_GZHELD if enc != "none" else "soak/none/frames-not-readable")
            mb = re.search(r"soakbad (.*)", out)
            spec_bad.append((key, "long-running reader on %s data: in %d of %d polls the frames reported by gd_nframes could not be read back through the same handle (first: %s)" % (
                enc, bad, rounds, mb.group(1) if mb else "?"), sdesc))
    if mlines:
        rcm, mout = vlib.sh([drv], inp=("\n".join(mlines) + "\n").encode(), timeout=600)
        blocks = mout.split("E\n")
        for n, (sid, desc, stops, obs) in enumerate(mown):
            P = {}
            for l in blocks[2 * n].splitlines():
                f = l.split()
                if f and f[0] == "P":
                    P[int(f[1])] = (int(f[2]), int(f[3]))
            G = [tuple(int(x) for x in l.split()[1:]) for l in blocks[2 * n + 1].splitlines() if l.startswith("G")]
            nwr = 0
            for i, f in enumerate(stops):
                # state before call i: model prefix = 1 (open) + number of writes done, 0 before the open
                j = 0 if f[2] == "openat" and nwr == 0 and i == 0 else 1 + nwr
                want = P.get(j)
                fr = obs[i][1]
                if want is None or want[0] != obs[i][4] or ("nf" in fr and want[1] != fr["nf"]):
                    model_bad.append(("model/raw-append", "before call %s of the raw writer: file size %s, fresh nframes %s; model prefix %d gives %s" % (
                        f[1], obs[i][4], fr.get("nf"), j, want), dict(desc, kind="model-vs-impl", correspondence="C18 file size / nframes per prefix")))
                    break
                if f[2] == "write":
                    nwr += 1
            for i, o in enumerate(obs):
                if i < len(G) and not o[3].get("bad") and (G[i][1], G[i][2]) != (o[3]["from"], o[3]["got"]):
                    model_bad.append(("model/greedy", "observation %d: the long-lived sequential reader read from %d got %d; the model of raw.c predicts from %d got %d" % (
                        i, o[3]["from"], o[3]["got"], G[i][1], G[i][2]), dict(desc, kind="model-vs-impl", correspondence="C18 rd_read")))
                    break
                if i < len(G) and not o[3].get("bad") and o[3]["got"] > 0:
                    aligned_model = (G[i][3] == (G[i][1] * 2) % 251)
                    aligned_real = o[3]["v"][:1] == [1000 + o[3]["from"]]
                    if aligned_model != aligned_real:
                        model_bad.append(("model/greedy", "observation %d: model says the sequential read is %s, the real one is %s" % (
                            i, "aligned" if aligned_model else "shifted", "aligned" if aligned_real else "shifted"), dict(desc, kind="model-vs-impl", correspondence="C18 rd_read")))
                        break
    chk.cov["distinct_nontrivial"] = len(nontriv)
    chk.cov["rule"] = ("%d writer runs (foreign raw-byte writer with chunk sizes 1..11 cutting 2-byte samples and 6-byte frames; library writer with gd_putdata of 1..7 samples on two "
                       "fields and gd_sync/gd_flush/gd_metaflush/gd_raw_close, unencoded and gzip); at EVERY system call of the writer three reader passes (fresh handle, handle "
                       "opened before, greedy sequential); distinct = distinct (run, observer, frame count / position)") % len(scen)
    chk.cov["distribution"] = counts
    found_any = False
    if known:
        d0, rep, kind, enc = known[0]
        rep["occurrences"] = len(known)
        if enc != "none":
            spec_bad.append(("%s/%s/greedy-values-differ" % (kind, enc), d0, rep))
        elif chk.violation(K_DESYNC, d0 + " (%d such passes)" % len(known), rep):
            found_any = True
    seen = set()
    for key, desc, rep in spec_bad:
        if key in seen:
            continue
        seen.add(key)
        if chk.violation(key, desc, rep):
            found_any = True
    seen = set()
    for key, desc, rep in model_bad:
        if found_any or key in seen:
            continue
        seen.add(key)
        chk.violation(key, "correspondence broken: " + desc, rep, found=False)
    if trans_problems and not found_any:
        chk.violation("translator", "translator cannot recognise _GD_RawRead/_GD_RawSeek/_GD_RawSize: " + "; ".join(trans_problems[:3]),
                      {"kind": "translator", "problems": trans_problems, "theorem": "raw_shape_recognised"}, found=False)
    if not proved and not found_any and not trans_problems:
        chk.violation("proof", "Properties_C18 does not check: " + getattr(chk, "proof_log", "")[-1200:],
                      {"kind": "proof", "theorem": "Properties_C18", "log": getattr(chk, "proof_log", "")[-4000:]}, found=False)
    return chk.finish()


if __name__ == "__main__":
    sys.exit(main())
