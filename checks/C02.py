#!/usr/bin/env python3
"""C02 -- a read is a pure function of the database contents.

proof:   Properties_C02.v (cursor invariants of the raw/gzip, bzip2-window and text codecs, the
         field layer for RAW/PHASE/LINCOM/BIT/MULTIPLY, history independence by fold_left)
tie:     translate/tr_c02cfg.py (which defect sites are repaired in this tree) + correspondence:
         generated call histories run on the freshly built library (tiny H1 buffers) and on the
         extracted model
search:  every read of every history is judged against the whole-field contents the generator
         wrote (the specification: the value of absolute sample k never depends on the history).
"""
import sys, os, struct, gzip, bz2, lzma, shutil, json, random, time, math
sys.path.insert(0, os.path.join(os.path.dirname(os.path.abspath(__file__)), "..", "bin"))
import vlib

V = vlib.VERIF
H1 = ("-DGD_VERIF_BUFFER_SIZE=64 -DGD_VERIF_BZIP_BUFFER_SIZE=64 -DGD_VERIF_LZMA_DATA_OUT=64 "
      "-DGD_VERIF_LZMA_DATA_IN=64 -DGD_VERIF_LZMA_LOOKBACK=16")
BZBUF = 64
FMT = {"UINT8": "B", "INT8": "b", "UINT16": "H", "INT16": "h", "UINT32": "I", "INT32": "i", "UINT64": "Q", "INT64": "q", "FLOAT32": "f", "FLOAT64": "d"}
SIZE = {"UINT8": 1, "INT8": 1, "UINT16": 2, "INT16": 2, "UINT32": 4, "INT32": 4, "UINT64": 8, "INT64": 8, "FLOAT32": 4, "FLOAT64": 8}
NATIVE = {"INT8": "i8", "UINT8": "u8", "INT16": "i16", "UINT16": "u16", "INT32": "i32", "UINT32": "u32", "INT64": "i64", "UINT64": "u64",
          "FLOAT32": "f32", "FLOAT64": "f64"}
EXT = {"none": "", "gzip": ".gz", "bzip2": ".bz2", "lzma": ".xz", "sie": ".sie", "text": ".txt"}
MODEL_ENC = {"none": "r", "gzip": "r", "bzip2": "b", "text": "t"}
FLAGS = ["fix_bz_rewind", "fix_bz_eof", "fix_here", "fix_text_pseudo", "fix_leak", "fix_negseek", "fix_phase_sign", "fix_bz_err"]
KEYS = {"fix_bz_rewind": "C02/bzip2/seek-to-before-window",
        "fix_bz_eof": "C02/bzip2/read-reaching-eof",
        "fix_here": "C02/phase/input-start-minus-one-read-as-GD_HERE",
        "fix_text_pseudo": "C02/text/pseudo-position-before-frameoffset",
        "fix_leak": "C02/recurse-level-leak-on-GD_E_RANGE",
        "fix_negseek": "C02/raw/all-padding-read-seeks-negative",
        "fix_phase_sign": "C17/phase/pointer-shift-applied-with-wrong-sign",
        "fix_bz_err": "C02/bzip2/decoder-error-leaves-stale-position-and-overwritten-window"}
E_RANGE, E_RECURSE, E_DOMAIN, E_IO = -8, -10, -28, -5
ALL_TYPES = ["i8", "u8", "i16", "u16", "i32", "u32", "i64", "u64", "f32", "f64", "c64", "c128"]
FLOAT_TYPES = ("f32", "f64", "c64", "c128")
_RANGE = {"i8": (-128, 127), "u8": (0, 255), "i16": (-32768, 32767), "u16": (0, 65535), "i32": (-2**31, 2**31 - 1),
          "u32": (0, 2**32 - 1), "i64": (-2**63, 2**63 - 1), "u64": (0, 2**64 - 1),
          "f32": (-2**24, 2**24), "c64": (-2**24, 2**24), "f64": (-2**53, 2**53), "c128": (-2**53, 2**53)}


def rep(v, T):
    """is the value exactly representable in return type T (NaN = the padding of a float type)"""
    if v != v: return T in FLOAT_TYPES
    lo, hi = _RANGE[T]
    return lo <= v <= hi


def fmtv(v):
    return "nan" if v != v else str(int(v))


# ---------------------------------------------------------------- dirfiles
def sie_bytes(vals, t):
    out = b""; i = 0
    while i < len(vals):
        j = i
        while j + 1 < len(vals) and vals[j + 1] == vals[i]:
            j += 1
        out += struct.pack("<q", j) + struct.pack("<" + FMT[t], vals[i]); i = j + 1
    return out


def raw_bytes(r):
    return b"".join(struct.pack("<" + FMT[r["type"]], v) for v in r["vals"]) + bytes(r.get("tail", []))


def write_raw(d, enc, r):
    b = raw_bytes(r)
    p = os.path.join(d, r["name"] + EXT[enc])
    if enc == "none":
        open(p, "wb").write(b)
    elif enc == "gzip":
        open(p, "wb").write(gzip.compress(b, mtime=0))
    elif enc == "bzip2":
        open(p, "wb").write(bz2.compress(b))
    elif enc == "lzma":
        open(p, "wb").write(lzma.compress(b))
    elif enc == "sie":
        open(p, "wb").write(sie_bytes(r["vals"], r["type"]))
    elif enc == "text":
        open(p, "w").write("".join("%d\n" % v for v in r["vals"]))


def derived_line(f):
    k = f["kind"]
    if k == "P": return "%s PHASE %s %d" % (f["name"], f["in"], f["shift"])
    if k == "L": return "%s LINCOM 1 %s %s %s" % (f["name"], f["in"], f.get("mc") or f["m"], f.get("bc") or f["b"])
    if k == "B": return "%s BIT %s %d %d" % (f["name"], f["in"], f["bitnum"], f["numbits"])
    if k == "M": return "%s MULTIPLY %s %s" % (f["name"], f["a"], f["b"])
    if k == "X": return "%s MPLEX %s %s %d %d" % (f["name"], f["in"], f["cnt"], f["cval"], f["period"])
    if k == "W": return "%s WINDOW %s %s %s %d" % (f["name"], f["in"], f["cnt"], f["op"], f["thr"])
    if k == "N": return "%s LINCOM %d %s" % (f["name"], len(f["ins"]), " ".join("%s %d %d" % x for x in zip(f["ins"], f["ms"], f["bs"])))
    if k == "D": return "%s DIVIDE %s %s" % (f["name"], f["a"], f["b"])
    if k == "I": return "%s INDIR %s %s" % (f["name"], f["in"], f["carr"])
    raise ValueError(k)


def make_dirfile(d, case):
    shutil.rmtree(d, ignore_errors=True); os.makedirs(d)
    t = "/ENCODING %s\n/ENDIAN little\n" % case["enc"]
    if case.get("foff"):
        t += "/FRAMEOFFSET %d\n" % case["foff"]
    for r in case["raws"]:
        t += "%s RAW %s %d\n" % (r["name"], r["type"], r.get("spf", case.get("spf", 1)))
        write_raw(d, case["enc"], r)
    dmg = case.get("damage")
    if dmg:
        # a damaged compressed data file: ("flip", offset) xors one byte (negative = from the end), ("trunc", n) cuts it
        fp_ = os.path.join(d, case["raws"][0]["name"] + EXT[case["enc"]])
        b = bytearray(open(fp_, "rb").read())
        if dmg[0] == "flip" and b: b[dmg[1] % len(b)] ^= 0x5A
        elif dmg[0] == "trunc": b = b[:max(1, min(len(b) - 1, dmg[1]))]
        open(fp_, "wb").write(bytes(b))
    for name, v in case.get("consts", {}).items():
        t += "%s CONST INT64 %d\n" % (name, v)
    for name, vs in case.get("carrays", {}).items():
        t += "%s CARRAY INT64 %s\n" % (name, " ".join(str(v) for v in vs))
    for f in case.get("derived", []):
        t += derived_line(f) + "\n"
    for l in case.get("extra_lines", []):       # fields that cannot be read (see gen_failing): literal format lines
        t += l + "\n"
    inc = case.get("include")
    if inc:
        # a second, empty fragment of another encoding / byte order (gd_move target); same frame offset
        t += "/INCLUDE sub.fmt\n"
        open(os.path.join(d, "sub.fmt"), "w").write("/ENCODING %s\n/ENDIAN %s\n%s" % (
            inc["enc"], "big" if inc["endian"] == "b" else "little", "/FRAMEOFFSET %d\n" % case["foff"] if case.get("foff") else ""))
    open(os.path.join(d, "format"), "w").write(t)


# ---------------------------------------------------------------- specification oracle (whole-field contents)
def bswap(v, t):
    if SIZE[t] == 1: return v
    return struct.unpack(">" + FMT[t], struct.pack("<" + FMT[t], v))[0]


class Spec:
    """Values by absolute sample number, and the documented I/O pointer rules (gd_seek(3),
    gd_getdata(3), gd_raw_close(3)); a pointer the documents do not determine is None."""

    def __init__(self, case):
        self.case = case
        self.foff = case.get("foff", 0) * case.get("spf", 1)
        self.raw = {r["name"]: r for r in case["raws"]}
        self.der = {f["name"]: dict(f) for f in case.get("derived", [])}
        self.const = dict(case.get("consts", {}))
        self.tail = {r["name"]: list(r.get("tail", [])) for r in case["raws"]}
        self.data = {r["name"]: list(r["vals"]) for r in case["raws"]}
        self.ptr = {r["name"]: self.foff for r in case["raws"]}
        self.enc = case.get("enc")

    def put(self, f, at, vals):
        """gd_putdata of vals at absolute sample `at` of RAW field f (in-place encoding): a hole is zero filled;
        bytes of a partial trailing sample that end up inside a sample become part of it"""
        a = self.data[f]; j = at - self.foff
        if j < 0: return False
        t = self.raw[f]["type"]; size = SIZE[t]
        if j > len(a):
            first = 0
            if self.tail[f]:
                bs = bytes(self.tail[f]) + bytes(size - len(self.tail[f]))
                first = struct.unpack("<" + FMT[t], bs)[0]
            a.extend([first] + [0] * (j - len(a) - 1)); self.tail[f] = []
        if j + len(vals) > len(a): self.tail[f] = []
        a[j:j + len(vals)] = vals
        return True

    def val(self, f, k):
        if f in self.raw:
            if k < self.foff: return 0
            i = k - self.foff
            return self.data[f][i] if i < len(self.data[f]) else None
        g = self.der[f]; kd = g["kind"]
        if kd == "P": return self.val(g["in"], k + g["shift"])
        if kd == "L":
            m = self.const[g["mc"]] if g.get("mc") else g["m"]
            b = self.const[g["bc"]] if g.get("bc") else g["b"]
            x = self.val(g["in"], k); return None if x is None else m * x + b
        if kd == "B":
            x = self.val(g["in"], k)
            return None if x is None else ((x % (1 << 64)) >> g["bitnum"]) & ((1 << g["numbits"]) - 1)
        if kd == "M":
            x = self.val(g["a"], k); y = self.val(g["b"], k)
            return None if x is None or y is None else x * y
        if kd == "W":
            x = self.val(g["in"], k); c = self.val(g["cnt"], k)
            if x is None or c is None: return None
            t = g["thr"]
            ok = {"EQ": c == t, "NE": c != t, "GT": c > t, "LT": c < t, "GE": c >= t, "LE": c <= t}[g["op"]]
            return x if ok else (float("nan") if self.fl else 0)
        if kd == "X":
            x = self.val(g["in"], k); c = self.val(g["cnt"], k)
            if x is None or c is None: return None
            j = k
            while j >= 0:
                cj = self.val(g["cnt"], j)
                if cj == g["cval"]:
                    return self.val(g["in"], j)
                j -= 1
            return float("nan") if self.fl else 0      # _GD_FillZero(start, return_type)
        raise ValueError(kd)

    endian = "l"

    def alter(self, o):
        """apply a gd_alter_* / gd_put_constant op to the metadata; F E N R V O are the changes that move or rewrite the data
        files: what every sample is afterwards (gd_alter_frameoffset(3), gd_alter_endianness(3), gd_alter_encoding(3),
        gd_alter_entry(3), gd_rename(3), gd_move(3))"""
        if o[0] == "a" and o[1] in "FENRVO":
            k = o[1]; spf = self.case.get("spf", 1)
            if k == "F":
                new, rec = o[2], o[3]; d = new * spf - self.foff
                if rec:
                    # the files are shifted so that every frame keeps its number: the front is cut or padded
                    for r in self.data:
                        self.data[r] = self.data[r][d:] if d > 0 else [0] * (-d) + self.data[r]
                self.foff = new * spf
                for r in self.ptr: self.ptr[r] = self.foff
            elif k == "E":
                if not o[3] and o[2] != self.endian:
                    for r in self.data: self.data[r] = [bswap(v, self.raw[r]["type"]) for v in self.data[r]]
                self.endian = o[2]
            elif k == "N": self.enc = o[2]
            elif k == "R": self.raw[o[2]] = dict(self.raw[o[2]], type=o[3])
            elif k == "V":
                old, new = o[2], o[3]
                for dct in (self.raw, self.data, self.tail, self.ptr): dct[new] = dct.pop(old)
                self.raw[new] = dict(self.raw[new], name=new)
                for g in self.der.values():
                    for key in ("in", "a", "b", "cnt"):
                        if g.get(key) == old: g[key] = new
            return
        if o[0] == "C": self.const[o[1]] = o[2]; return
        kind, f = o[1], o[2]; g = self.der[f]
        if kind == "P": g.update({"in": o[3], "shift": o[4]})
        elif kind == "L": g.update({"in": o[3], "m": o[4], "b": o[5], "mc": None, "bc": None})
        elif kind == "B": g.update({"in": o[3], "bitnum": o[4], "numbits": o[5]})
        elif kind == "M": g.update({"a": o[3], "b": o[4]})
        elif kind == "X": g.update({"in": o[3], "cnt": o[4], "cval": o[5], "period": o[6]})

    fl = False     # is the return type of the read being evaluated a floating point / complex type

    def ok_type(self, f, s, n, T):
        """are all inputs and results of reading [s, s+n) of f exactly representable in return type T
        (inputs are read in T: PHASE/LINCOM/MPLEX pass it down, MULTIPLY reads its first input in T;
        BIT reads its input as a 64-bit integer whatever T is)"""
        self.fl = T in FLOAT_TYPES
        res = self.window(f, s, n)
        if not all(rep(v, T) for v in res): return False
        if f in self.raw: return True
        g = self.der[f]; kd = g["kind"]
        m = len(res)
        if kd == "P": return self.ok_type(g["in"], s + g["shift"], m, T)
        if kd == "L": return self.ok_type(g["in"], s, m, T)
        if kd == "B": return True
        if kd == "M": return self.ok_type(g["a"], s, m, T)
        if kd == "W": return self.ok_type(g["in"], s, m, T)
        if kd == "X":
            if not self.ok_type(g["in"], s, m, T): return False
            self.fl = T in FLOAT_TYPES
            j = s
            while j >= 0:
                if self.val(g["cnt"], j) == g["cval"]:
                    v = self.val(g["in"], j)
                    return v is None or rep(v, T)
                j -= 1
            return True
        return False

    def window(self, f, s, n):
        out = []
        for k in range(s, s + n):
            v = self.val(f, k)
            if v is None: break
            out.append(v)
        return out

    def eof(self, f):
        if f in self.raw: return self.foff + len(self.data[f])
        g = self.der[f]; kd = g["kind"]
        if kd == "P": return self.eof(g["in"]) - g["shift"]
        if kd in ("L", "B"): return self.eof(g["in"])
        if kd == "M": return min(self.eof(g["a"]), self.eof(g["b"]))
        if kd in "XW": return min(self.eof(g["in"]), self.eof(g["cnt"]))

    def bof(self, f):
        if f in self.raw: return self.foff
        g = self.der[f]; kd = g["kind"]
        if kd == "P": return max(0, self.bof(g["in"]) - g["shift"])
        if kd in ("L", "B"): return self.bof(g["in"])
        if kd == "M": return max(self.bof(g["a"]), self.bof(g["b"]))
        if kd in "XW": return max(self.bof(g["in"]), self.bof(g["cnt"]))

    def inputs(self, f, sh=0):
        """[(raw, shift)] reached from f"""
        if f in self.raw: return [(f, sh)]
        g = self.der[f]; kd = g["kind"]
        if kd == "P": return self.inputs(g["in"], sh + g["shift"])
        if kd in ("L", "B"): return self.inputs(g["in"], sh)
        if kd == "M": return self.inputs(g["a"], sh) + self.inputs(g["b"], sh)
        if kd in "XW": return self.inputs(g["in"], sh) + self.inputs(g["cnt"], sh)

    def shifted(self, f):
        """is there a PHASE with a non-zero shift anywhere below f"""
        if f in self.raw: return False
        g = self.der[f]; kd = g["kind"]
        if kd == "P": return g["shift"] != 0 or self.shifted(g["in"])
        if kd in ("L", "B"): return self.shifted(g["in"])
        if kd == "M": return self.shifted(g["a"]) or self.shifted(g["b"])
        if kd in "XW": return self.shifted(g["in"]) or self.shifted(g["cnt"])

    def tell(self, f):
        ps = set()
        for r, sh in self.inputs(f):
            if self.ptr[r] is None: return None
            ps.add(self.ptr[r] - sh)
        return ps.pop() if len(ps) == 1 else "DOMAIN"

    def set_ptr(self, f, p, determined=True):
        for r, sh in self.inputs(f):
            self.ptr[r] = (p + sh) if determined else None

    def close(self, f):
        for r in (self.raw if f == "*" else [x for x, _ in self.inputs(f)]):
            self.ptr[r] = self.foff


# ---------------------------------------------------------------- running
_impl_cache = {}


def harness(mode=""):
    if mode not in _impl_cache:
        impl = vlib.build_impl(mode, H1)
        _impl_cache[mode] = vlib.build_harness(impl, os.path.join(V, "harness/C02/gdhist.c"))
    return _impl_cache[mode]


def op_line(op):
    k = op[0]
    if k == "g": return "g %s %s %d %s" % (op[1], op[2], op[3], op[4])
    if k == "s": return "s %s %d %s 0" % (op[1], op[2], op[3])
    if k in "tceb": return "%s %s" % (k, op[1])
    if k == "f": return "f %s" % op[1]
    if k == "l": return "l %d" % op[1]
    if k == "k": return "k %d" % op[1]
    if k == "r": return "r"
    if k == "x": return "x"
    if k == "p": return "p %s %s %d %s %s" % (op[1], op[2], op[3], op[4], " ".join(str(v) for v in op[5]))
    if k == "a" and op[1] == "R": return "a R %s %s %d" % (op[2], NATIVE[op[3]], op[4])
    if k == "a": return "a " + " ".join(str(v) for v in op[1:])
    if k == "C": return "C %s %d" % (op[1], op[2])
    raise ValueError(op)


def run_impl(exe, d, case, rw=False, timeout=20):
    rw = rw or any(o[0] in "paC" for o in case["ops"])
    lines = ["o %d" % (1 if rw else 0)] + [op_line(o) for o in case["ops"]]
    rc, out = vlib.sh([exe, "-O", d], inp=("\n".join(lines) + "\n").encode(), timeout=timeout)
    res = []
    for l in out.split("\n"):
        if " |" in l:
            a, b = l.split(" |", 1)
            try:
                res.append((a.split(), dict(x.split("=") for x in b.split())))
            except ValueError:
                break
    return rc, out, res[1:] if res else []     # drop the "o" line


def gen_damaged(rng):
    """a history with failing calls over a damaged compressed data file"""
    enc = rng.choice(["bzip2", "bzip2", "bzip2", "gzip", "lzma"])
    t = rng.choice(["UINT8", "UINT8", "INT16"])
    n = rng.choice([40, 64, 100, 128, 300, 700, 1000, 1500])
    if enc in ("gzip", "lzma") and rng.random() < 0.25:
        n = rng.choice([20000, 40000])     # beyond zlib's / the xz reader's internal buffers: errors arrive in mid-history
    lo, hi = (0, 255) if t == "UINT8" else (-400, 400)
    vals = [rng.randint(lo, hi) for _ in range(n)] if rng.random() < 0.7 else [lo + (k * 7) % (hi - lo + 1) for k in range(n)]
    raws = [dict(name="a", type=t, vals=vals)]
    derived = []
    if rng.random() < 0.3: derived.append(dict(name="p", kind="P", shift=rng.choice([-1, 1, 2]), plain=True, **{"in": "a"}))
    kind = rng.random()
    if enc == "bzip2" and kind < 0.45: dmg = ("flip", rng.choice([10, 11, 12, 13])); dec = "crc"     # stored block CRC
    elif kind < 0.6: dmg = ("flip", -rng.randint(1, 12)); dec = None                                  # trailer / stream CRC / size
    elif kind < 0.8: dmg = ("flip", rng.randint(14, 400)); dec = None                                 # somewhere in the data
    else: dmg = ("trunc", rng.randint(8, 600)); dec = None
    case = dict(enc=enc, spf=1, foff=rng.choice([0, 0, 2]), raws=raws, derived=derived, damage=dmg)
    if dec: case["dec"] = dec
    fields = ["a"] + [f["name"] for f in derived]
    ops = []
    for _ in range(rng.randint(5, 22)):
        f = rng.choice(fields); u = rng.random()
        if u < 0.7:
            st = rng.choice([0, rng.randint(0, n), rng.randint(0, n), max(0, n - rng.randint(0, 30)), n + rng.randint(0, 5), 5 * n])
            ops.append(("g", f, st, rng.choice([1, 3, 5, 20, 70, 200] + ([3000] if n > 5000 else [])), "i64"))
        elif u < 0.8: ops.append(("s", f, rng.choice([rng.randint(0, n), 5 * n]), "S"))
        elif u < 0.9: ops.append(("t", f))
        else: ops.append((rng.choice("cf"), rng.choice([f, "*"])))
        if rng.random() < 0.3:
            # where does the handle say it is after that call (failed or not), and is that where it reads from
            ops.append(("t", f)); ops.append(("g", f, "H", rng.choice([1, 3, 20, 70]), "i64"))
    case["ops"] = ops
    return case


def fresh_answers(exe, d, case, idxs, asks=None):
    """what a fresh handle returns for each of the reads case.ops[i] (or asks[i]), i in idxs (one reopen per read)"""
    lines = ["o 0"]
    for i in idxs: lines += ["x", op_line((asks or {}).get(i, case["ops"][i]))]
    rc, out = vlib.sh([exe, d], inp=("\n".join(lines) + "\n").encode(), timeout=30)
    ls = [l for l in out.split("\n") if l.startswith("g ")]
    return {i: impl_canon(l.split()) for i, l in zip(idxs, ls)} if len(ls) == len(idxs) else {}


def in_model(case, strict=True):
    if case["enc"] not in MODEL_ENC: return False
    if any(f["kind"] not in "PLBM" for f in case.get("derived", [])): return False
    if case.get("mixed") or case.get("extra_lines") or case.get("recode") or case.get("boundary"): return False
    if any(o[0] in "kxaC" for o in case["ops"]): return False
    if any(o[0] == "p" for o in case["ops"]) and case["enc"] != "none": return False     # writes: in-place encoding only
    if any(f.get("mc") or f.get("bc") for f in case.get("derived", [])): return False
    # under an open limit _GD_InitRawIO may close and reopen the very file being used in the
    # middle of a call (LRU by time(NULL)); that resets codec state the model would keep, so such
    # histories are judged against the specification only (the theorems cover every CAuto choice)
    if strict and any(o[0] == "l" for o in case["ops"]): return False
    return True


def model_line(case, cfg, eager, auto_events=None):
    """one driver input line; auto_events[i] = list of raw indices auto-closed during op i"""
    names = [r["name"] for r in case["raws"]] + [f["name"] for f in case.get("derived", [])]
    idx = {n: i for i, n in enumerate(names)}
    spf = case.get("spf", 1)
    raws = []
    for r in case["raws"]:
        raws.append("%s,%d,%d,%d,%s" % (MODEL_ENC[case["enc"]], SIZE[r["type"]], 1 if r["type"][0] == "I" else 0,
                                        case.get("foff", 0) * spf,
                                        (raw_bytes(r) if case["enc"] != "text" else raw_bytes(dict(r, tail=[]))).hex()))
    fields = ["R,%d" % i for i in range(len(case["raws"]))]
    for f in case.get("derived", []):
        k = f["kind"]
        if k == "P": fields.append("P,%d,%d" % (idx[f["in"]], f["shift"]))
        elif k == "L": fields.append("L,%d,%d,%d" % (idx[f["in"]], f["m"], f["b"]))
        elif k == "B": fields.append("B,%d,%d,%d" % (idx[f["in"]], f["bitnum"], f["numbits"]))
        elif k == "M": fields.append("M,%d,%d" % (idx[f["a"]], idx[f["b"]]))
    calls = []; opmap = []
    for i, o in enumerate(case["ops"]):
        k = o[0]
        if k == "g": calls.append("g,%d,%s,%d" % (idx[o[1]], o[2], o[3]))
        elif k == "s": calls.append("s,%d,%d,%s" % (idx[o[1]], o[2], o[3]))
        elif k == "t": calls.append("t,%d" % idx[o[1]])
        elif k in "cf": calls.append("c,%s" % ("*" if o[1] == "*" else idx[o[1]]))
        elif k == "r": calls.append("r")
        elif k == "p":
            r = [x for x in case["raws"] if x["name"] == o[1]][0]
            bs = b"".join(struct.pack("<" + FMT[r["type"]], v) for v in o[5][:o[3]])
            calls.append("w,%d,%d,%s" % (idx[o[1]], o[2], bs.hex()))
        else: continue
        opmap.append(i)
        for r in (auto_events or {}).get(i, []):
            calls.append("a,%d" % r); opmap.append(None)
    bits = "".join("1" if cfg.get(f) else "0" for f in FLAGS)
    return "%s %d %d%s|%s|%s|%s" % (bits, BZBUF, 1 if eager else 0, " crc" if case.get("dec") == "crc" else "",
                                     ";".join(raws), ";".join(fields), ";".join(calls)), opmap


def run_model(drv, lines):
    rc, out = vlib.sh([drv], inp=("\n".join(lines) + "\n").encode(), timeout=600)
    return rc, out.strip("\n").split("\n")


def impl_canon(tokens):
    """harness line -> canonical model-style string"""
    k = tokens[0]
    if k == "g":
        n, err = int(tokens[1]), int(tokens[2])
        if err: return "E %d" % err
        if "OVERRUN" in tokens: return "OVERRUN"
        # IEEE -0 (0 * negative in a FLOAT64 MULTIPLY) is the value 0
        return ("D " + " ".join("0" if t == "-0" else t for t in tokens[3:3 + n])).strip()
    if k in "st":
        r, err = int(tokens[1]), int(tokens[2])
        return "E %d" % err if err else "P %d" % r
    if k in "cfy":
        return "K" if int(tokens[1]) == 0 else "E %s" % tokens[2]
    if k == "r":
        return "P %s" % tokens[1]
    if k == "p":
        return "E %s" % tokens[2] if int(tokens[2]) else "W %s" % tokens[1]
    if k in "aC":
        return "K" if int(tokens[1]) == 0 else "E %s" % tokens[2]
    return " ".join(tokens)


def auto_events(case, res):
    """raws that the library closed behind our back during op i (LRU auto-close): open before, closed
    after, and the op was not an explicit close of that raw"""
    ev = {}
    prev = None
    names = [r["name"] for r in case["raws"]]
    for i, (tok, opn) in enumerate(res):
        if prev is not None and case["ops"][i][0] not in "cfx":
            cl = [names.index(n) for n in names if prev.get(n) == "1" and opn.get(n) == "0"]
            if cl: ev[i] = cl
        prev = opn
    return ev


# ---------------------------------------------------------------- generator
def gen_case(rng, encs=None, model_only=False):
    enc = rng.choice(encs or ["none", "gzip", "bzip2", "bzip2", "bzip2", "text", "text", "lzma", "lzma", "sie"])
    spf = rng.choice([1, 1, 1, 2])
    foff = rng.choice([0, 0, 0, 1, 2, 3])
    nraw = rng.choice([1, 1, 2, 2, 3])
    types = ["UINT8", "INT8", "UINT16", "INT16", "INT32", "UINT32"]
    common_len = rng.choice([0, 1, 7, 63, 64, 65, 127, 128, 129, 200]) if rng.random() < 0.4 else rng.randint(20, 330)
    raws = []
    for i in range(nraw):
        t = rng.choice(types)
        n = common_len if (i < 2 or rng.random() < 0.5) else rng.randint(0, 300)
        if rng.random() < 0.25:      # byte length an exact multiple of the 64-byte window
            n = max(1, (n * SIZE[t] // 64)) * 64 // SIZE[t]
            if i < 2: common_len = n
        lo, hi = (0, 255) if t == "UINT8" else (-128, 127) if t == "INT8" else (-400, 400) if t[0] == "I" else (0, 800)
        if enc == "sie" or rng.random() < 0.2:
            vals = []
            while len(vals) < n:
                vals += [rng.randint(lo, hi)] * rng.randint(1, 9)
            vals = vals[:n]
        elif rng.random() < 0.5:
            vals = [lo + (k * 7 + i) % (hi - lo + 1) for k in range(n)]
        else:
            vals = [rng.randint(lo, hi) for _ in range(n)]
        if enc == "sie" and not vals:
            vals = [rng.randint(lo, hi)]       # an empty .sie file cannot be opened at all (sie.c:78): not a history effect
        r = dict(name="r%d" % i, type=t, vals=vals)
        if enc in ("none", "gzip", "bzip2", "lzma") and SIZE[t] > 1 and rng.random() < 0.15:
            r["tail"] = [rng.randint(0, 255) for _ in range(rng.randint(1, SIZE[t] - 1))]
        raws.append(r)
    # the first two raws share their length so that MULTIPLY inputs have equal extents (unequal
    # extents are property C16's business)
    if nraw >= 2:
        raws[1]["vals"] = (raws[1]["vals"] + [1] * len(raws[0]["vals"]))[:len(raws[0]["vals"])]
    derived = []
    consts = {}
    names = [r["name"] for r in raws]
    for j in range(rng.choice([0, 1, 2, 2, 3, 4])):
        k = rng.choice("PPPLBM")
        nm = "d%d" % j
        src = rng.choice(names + [f["name"] for f in derived])
        if k == "B":
            # BIT reads its input as UINT64: keep it over RAW/PHASE chains (a negative LINCOM or
            # product converted to an unsigned type is C06's business, not a history effect)
            ok = names + [f["name"] for f in derived if f["kind"] == "P" and f.get("plain")]
            src = rng.choice(ok)
        if k == "P":
            plain = src in names or any(f["name"] == src and f.get("plain") for f in derived)
            derived.append(dict(name=nm, kind="P", shift=rng.choice([-1, -1, -2, -3, -7, 1, 1, 2, 5, 0]), plain=plain, **{"in": src}))
        elif k == "L":
            dl = dict(name=nm, kind="L", m=rng.choice([-3, -1, 1, 2, 5]), b=rng.randint(-9, 9), **{"in": src})
            if not model_only and rng.random() < 0.3:
                # scalar parameters taken from CONST fields (changed later by gd_put_constant)
                dl["mc"] = "k%dm" % j; dl["bc"] = "k%db" % j
                consts[dl["mc"]] = dl["m"]; consts[dl["bc"]] = dl["b"]
            derived.append(dl)
        elif k == "B":
            derived.append(dict(name=nm, kind="B", bitnum=rng.randint(0, 4), numbits=rng.randint(1, 5), **{"in": src}))
        elif k == "M" and nraw >= 2:
            a = rng.choice(["r0", "r1"]); b = "r1" if a == "r0" else "r0"
            if rng.random() < 0.3: b = a
            derived.append(dict(name=nm, kind="M", a=a, b=b))
    if nraw >= 2 and rng.random() < 0.15 and not model_only:
        derived.append(dict(name="wn", kind="W", cnt="r1", op=rng.choice(["EQ", "NE", "GT", "LT", "GE", "LE"]),
                            thr=rng.choice([-1, 0, 1, 2, 50, 300]), **{"in": "r0"}))
    mplex = nraw >= 2 and rng.random() < 0.25 and not model_only
    if mplex:
        # index field r1 takes few values so that the count value recurs; inputs of equal length
        raws[1]["vals"] = [rng.randint(0, 3) for _ in raws[0]["vals"]]
        raws[1].pop("tail", None); raws[0].pop("tail", None)
        # the count value recurs, is rare, or never occurs at all (then every look-back comes back empty)
        derived.append(dict(name="mx", kind="X", cnt="r1", cval=rng.choice([0, 1, 2, 3, rng.randint(0, 3), 7]), period=rng.choice([0, 0, 4]), **{"in": "r0"}))
        if rng.random() < 0.3:
            # long stretches without the count value
            rare = derived[-1]["cval"]; other = [v for v in (0, 1, 2, 3) if v != rare]
            raws[1]["vals"] = [rare if rng.random() < 0.04 else rng.choice(other) for _ in raws[0]["vals"]]
        if rng.random() < 0.5:
            derived.append(dict(name="mxl", kind="L", m=2, b=1, **{"in": "mx"}))
    case = dict(enc=enc, spf=spf, foff=foff, raws=raws, derived=derived, consts=consts)
    sp = Spec(case)
    fields = names + [f["name"] for f in derived]
    ops = []
    limit = rng.random() < 0.2
    if limit:
        ops.append(("l", rng.choice([1, 2, 3])))
    if mplex:
        ops.append(("k", -1))       # GD_LOOKBACK_ALL: the documented setting under which lookback cannot change the result
    nops = rng.randint(5, 60)
    bad = rng.random() < 0.06
    FO = foff * spf
    last_type = {}; last_read = {}

    def gen_put(rf, at, vals):
        ops.append(("p", rf, at, len(vals), "i64", vals))
        sp.put(rf, at, vals)

    def pick_type(f, st, n):
        """a return type in which every input and result of this read is exactly representable; changes
        from the previous read of the same field most of the time (the value must not depend on it)"""
        if st == "H":
            cand = ["i32", "i64", "f32", "f64", "c64", "c128"]     # all generated values are below 2^24 in magnitude
            if any(g["kind"] in "XW" for g in derived): cand = ["i32", "i64"]   # the MPLEX/WINDOW filling differs by type family
        else:
            cand = [T for T in ALL_TYPES if sp.ok_type(f, st, n, T)] or ["i64"]
        pref = [T for T in cand if T != last_type.get(f)]
        T = rng.choice(pref if pref and rng.random() < 0.8 else cand)
        if st != "H" and rng.random() < 0.12:
            # any type at all: the answer of this read is then not judged unless representable, but it
            # must not influence what later reads (in a type that does hold the values) return
            T = rng.choice(ALL_TYPES)
        last_type[f] = T
        if st != "H": last_read[f] = (st, len(sp.window(f, st, n)))
        return T

    def gen_alter():
        """a successful metadata change between reads: gd_alter_* of a derived field's inputs/parameters
        (inputs chosen among earlier fields, so the graph stays acyclic) or gd_put_constant"""
        if consts and rng.random() < 0.4:
            o = ("C", rng.choice(sorted(consts)), rng.choice([-3, -2, -1, 1, 2, 3, 5]))
        else:
            j = rng.randrange(len(derived)); g = sp.der[derived[j]["name"]]; kd = g["kind"]
            earlier = names + [x["name"] for x in derived[:j] if x["kind"] != "X" and not x["name"].startswith("mx")]
            plain = names + [x["name"] for x in derived[:j] if x["kind"] == "P" and x.get("plain")]
            if kd == "P": o = ("a", "P", g["name"], rng.choice(plain if g.get("plain") else earlier), rng.choice([-3, -1, 0, 1, 2, 4]))
            elif kd == "L": o = ("a", "L", g["name"], rng.choice(earlier) if g["name"] != "mxl" else "mx", rng.choice([-2, 1, 3, 4]), rng.randint(-5, 5))
            elif kd == "B": o = ("a", "B", g["name"], rng.choice(plain), rng.randint(0, 4), rng.randint(1, 5))
            elif kd == "M":
                a = rng.choice(["r0", "r1"]); b = rng.choice(["r0", "r1"])
                if (a, b) == (g["a"], g["b"]): a, b = b, a
                o = ("a", "M", g["name"], a, b)
            elif kd == "X": o = ("a", "X", g["name"], g["cnt"] if rng.random() < 0.3 else g["in"], g["cnt"], rng.randint(0, 3), g["period"])
            else: return
        ops.append(o); sp.alter(o)
        last_read.clear()

    for _ in range(nops):
        f = rng.choice(fields)
        e = sp.eof(f)
        u = rng.random()
        if derived and not model_only and rng.random() < 0.06:
            gen_alter(); continue
        if enc == "none" and not mplex and rng.random() < 0.05:
            # gd_putdata between reads (in-place encoding; also inside the Coq model: coq/C02/Writes.v)
            rr = rng.choice(raws); t = rr["type"]
            lo, hi = (0, 255) if t == "UINT8" else (-128, 127) if t == "INT8" else (-400, 400) if t[0] == "I" else (0, 800)
            gen_put(rr["name"], rng.randint(FO, FO + len(sp.data[rr["name"]]) + 3) if rng.random() < 0.9 else max(0, FO - 1),
                    [rng.randint(lo, hi) for _ in range(rng.randint(1, 6))])
            last_read.clear(); continue
        if last_read and rng.random() < 0.15:
            # continue an earlier read of some field where it ended, in another return type
            # (a differently split window must give the same samples)
            f2 = rng.choice(sorted(last_read)); s2, m2 = last_read[f2]
            n2 = rng.choice([1, 2, 3, 5, 8])
            ops.append(("g", f2, s2 + m2, n2, pick_type(f2, s2 + m2, n2)))
            continue
        def position():
            c = rng.random()
            size = SIZE[raws[0]["type"]]
            if c < 0.25: return max(0, rng.choice([0, FO, FO - 1, FO + 1, e, e - 1, e - 3, e + 1, e + 4]))
            if c < 0.5: return max(0, FO + (64 // size) * rng.randint(0, 6) + rng.randint(-2, 2))
            return rng.randint(0, max(1, e + 3))
        if mplex and enc == "none" and rng.random() < 0.2:
            # a write to one of the MPLEX inputs: later reads must reflect exactly that change
            rf = rng.choice(["r0", "r1"]); t = [r for r in raws if r["name"] == rf][0]["type"]
            nn = rng.randint(1, 6); stp = max(FO, position())
            lo, hi = (0, 3) if rf == "r1" else ((0, 255) if t == "UINT8" else (-128, 127) if t == "INT8" else (-400, 400) if t[0] == "I" else (0, 800))
            if rng.random() < 0.5:
                # aimed at the start-value cache: read [s, s+n), change a sample just before s+n, read on from s+n
                s_ = max(FO, position()); n_ = rng.randint(3, 12)
                ops.append(("g", "mx", s_, n_, pick_type("mx", s_, n_)))
                gen_put(rf, max(FO, s_ + n_ - 1 - rng.randint(0, 3)), [rng.randint(lo, hi)])
                ops.append(("g", "mx", s_ + n_, 3, pick_type("mx", s_ + n_, 3)))
            else:
                gen_put(rf, stp, [rng.randint(lo, hi) for _ in range(nn)])
            continue
        if u < 0.55:
            st = "H" if rng.random() < 0.18 else position()
            n = rng.choice([0, 1, 1, 2, 3, 5, 8, 13, 40, 70, 200]) if rng.random() < 0.8 else rng.randint(0, 64)
            ops.append(("g", f, st, n, pick_type(f, st, n)))
        elif u < 0.70:
            w = rng.choice("SSSCE")
            off = position() if w == "S" else rng.randint(-6, 6) if w == "C" else rng.randint(-8, 2)
            ops.append(("s", f, off, w))
        elif u < 0.82:
            ops.append(("t", f))
        elif u < 0.90:
            ops.append((rng.choice("cf"), rng.choice([f, f, "*"])))
        elif u < 0.93:
            ops.append(("r",))
        elif bad:
            if rng.random() < 0.5: ops.append(("s", f, -rng.randint(1, 9) - e, rng.choice("SE")))
            else: ops.append(("g", f, -rng.randint(2, 9), 3, "i64"))
        else:
            ops.append(("t", f))
    case["ops"] = ops
    case["derived"] = derived
    return case


def tags(case):
    """which interesting situations a history exercises (for distinct_nontrivial)"""
    t = set()
    last = {}
    size = SIZE[case["raws"][0]["type"]]
    for o in case["ops"]:
        if o[0] == "g":
            if o[2] == "H": t.add("here")
            else:
                if o[1] in last and o[2] < last[o[1]]: t.add("backward")
                if (o[2] * size) // 64 != ((o[2] + o[3]) * size) // 64: t.add("window-cross")
                last[o[1]] = o[2] + o[3]
        elif o[0] == "s": t.add("seek")
        elif o[0] in "cf": t.add("close")
        elif o[0] == "l": t.add("limit")
    return t


# ---------------------------------------------------------------- judging
def judge_spec(case, res):
    """compare every observable of the implementation with the specification oracle.
    returns [(op index, expected, got)] for the ops where C02 determines the answer:
      * an absolute read returns exactly the whole-field contents of that window;
      * gd_seek to a position inside the field (unshifted fields) returns it; right after a
        successful gd_seek(f) -> p, gd_tell(f) = p and a GD_HERE read of f = the absolute read at p;
      * close/flush succeed; D->recurse_level is 0 between calls; failing calls report GD_E_RANGE.
    (what the pointer is after reads, closes, and through PHASE shifts is property C17's business)"""
    sp = Spec(case)
    bad = []
    fp = {}          # field -> position established by the immediately preceding gd_seek of that field
    # under an open limit one input of a two-input field may be auto-closed (pointer reset, as
    # documented) while the other is being positioned: no pointer claims for such fields
    limited = any(o[0] == "l" for o in case["ops"])
    multi = lambda f: limited and len(set(r for r, _ in sp.inputs(f))) > 1
    broken = set(case.get("broken", []))
    for i, (o, (tok, opn)) in enumerate(zip(case["ops"], res)):
        got = impl_canon(tok)
        k = o[0]
        if k in "gstebcf" and (o[1] in broken or (k == "g" and o[4] == "bad")):
            # a call that cannot succeed (unreadable field / not a return type): it must fail, and that is all it does
            fp = {}
            if k == "g" and not got.startswith("E"): bad.append((i, "E (this read cannot succeed)", got))
            continue
        if k == "g":
            f, st, n = o[1], o[2], o[3]
            exp = None
            sp.fl = o[4] in FLOAT_TYPES
            if st == "H":
                if f in fp and not multi(f):
                    exp = ("D " + " ".join(fmtv(v) for v in sp.window(f, fp[f], n))).strip()
            elif st < -1:
                exp = "E %d" % E_RANGE
            elif st >= 0:
                if sp.ok_type(f, st, n, o[4]):
                    sp.fl = o[4] in FLOAT_TYPES
                    exp = ("D " + " ".join(fmtv(v) for v in sp.window(f, st, n))).strip()
            if exp is not None and exp != got: bad.append((i, exp, got))
            if n > 0 or st != "H": fp = {}
        elif k == "s":
            f, off, w = o[1], o[2], o[3]
            base = 0 if w == "S" else fp.get(f) if w == "C" else sp.eof(f)
            exp = None
            fp = {}
            if base is not None:
                tgt = base + off
                if tgt < 0: exp = "E %d" % E_RANGE
                elif multi(f): pass
                elif not sp.shifted(f):
                    if sp.bof(f) <= tgt <= sp.eof(f): exp = "P %d" % tgt
                if got == "P %d" % tgt and tgt >= 0: fp = {f: tgt}
            if exp is not None and exp != got: bad.append((i, exp, got))
        elif k == "t":
            if o[1] in fp and not multi(o[1]) and got != "P %d" % fp[o[1]]: bad.append((i, "P %d" % fp[o[1]], got))
        elif k in "cf":
            fp = {}
            if got != "K": bad.append((i, "K", got))
        elif k == "x":
            fp = {}
        elif k == "r":
            if tok[1] != "0": bad.append((i, "r 0", " ".join(tok)))
        elif k in "aC":
            # a successful change of metadata: later reads reflect exactly that change
            fp = {}
            sp.alter(o)
            if got != "K": bad.append((i, "K", got))
        elif k == "p":
            # gd_putdata on a RAW field of an in-place encoding: reads reflect exactly that change
            f, st, n, vals = o[1], o[2], o[3], o[5]
            fp = {}
            exp = "W %d" % n if sp.put(f, st, vals[:n]) else "E %d" % E_RANGE
            if exp != got: bad.append((i, exp, got))
        # an LRU auto-close during this call: documented to act like gd_raw_close
        if i > 0 and any(res[i - 1][1].get(r) == "1" and opn.get(r) == "0" for r in sp.raw): fp = {}
    return bad


def shrink(exe, work, case, i, budget=80):
    """greedy removal of calls before op i while the implementation still contradicts the
    specification at (what was) op i with the same expected answer"""
    ops = list(case["ops"][:i + 1])
    d = os.path.join(work, "shrink")

    def fails(ops_):
        c = dict(case, ops=ops_)
        make_dirfile(d, c)
        _, _, res = run_impl(exe, d, c)
        if len(res) < len(ops_): return len(res) == len(ops_) - 1
        b = judge_spec(c, res)
        return bool(b) and b[0][0] == len(ops_) - 1
    n = 0
    k = 0
    while k < len(ops) - 1 and n < budget:
        trial = ops[:k] + ops[k + 1:]
        n += 1
        if fails(trial): ops = trial
        else: k += 1
    return dict(case, ops=ops)


def shrink_runs(exe, work, case, i):
    """drop whole kinds of calls, then halve the runs, while op i still fails the same way"""
    d = os.path.join(work, "shrinkf")
    target = case["ops"][i]

    def fails(ops_):
        c = dict(case, ops=ops_)
        make_dirfile(d, c)
        _, _, res = run_impl(exe, d, c)
        if len(res) != len(ops_): return False
        b = judge_spec(c, res)
        return bool(b) and b[0][0] == len(ops_) - 1
    pre = list(case["ops"][:i])
    for kind in sorted(set(str(o) for o in pre)):
        trial = [o for o in pre if str(o) != kind]
        if len(trial) < len(pre) and fails(trial + [target]): pre = trial
    for _ in range(8):
        trial = pre[len(pre) // 4:]
        if trial != pre and fails(trial + [target]): pre = trial
        else: break
    while pre and fails(pre[1:] + [target]): pre = pre[1:]
    return dict(case, ops=pre + [target])


def compare_model(case, res, mout, opmap):
    """first op where the model (until it reports undefined behaviour) and the implementation differ"""
    sp = Spec(case)
    for j, m in enumerate(mout):
        i = opmap[j] if j < len(opmap) else None
        if i is None: continue
        m0 = m.split(" #")[0].strip()
        if m0 in ("UB", "X"): return None
        o = case["ops"][i]
        if o[0] == "p": sp.put(o[1], o[2], o[5][:o[3]])
        if o[0] == "g" and o[2] != "H" and o[2] >= 0 and not sp.ok_type(o[1], o[2], o[3], o[4]):
            continue       # the model has no types: a read whose values the return type cannot hold is not compared
        got = impl_canon(res[i][0])
        if m0 != got: return (i, m0, got)
    return None


def mplex_line(case):
    """driver line for the MPLEX layer model (coq/C02/MplexCache.v) of field mx, or None when the history
    has calls the layer does not describe exactly (GD_HERE reads of mx, reads the return type cannot hold)"""
    g = [f for f in case.get("derived", []) if f["kind"] == "X"]
    if not g or any(o[0] in "aC" for o in case["ops"]): return None
    g = g[0]
    sp = Spec(case)
    if sp.shifted(g["in"]) or sp.shifted(g["cnt"]): return None
    FO = sp.foff
    evs = []; idx = []
    for i, o in enumerate(case["ops"]):
        if o[0] == "g" and o[1] in ("mx", "mxl"):
            if o[2] == "H" or o[2] < 0: return None
            if not sp.ok_type(o[1], o[2], o[3], o[4]): return None
            rt = ALL_TYPES.index(o[4]) + (100 if o[4] in FLOAT_TYPES else 0)
            if o[3] > 0:
                evs.append("g,%d,%d,%d" % (rt, o[2], o[3])); idx.append(i if o[1] == "mx" else None)
        elif o[0] == "p":
            which = 0 if o[1] == g["in"] else 1 if o[1] == g["cnt"] else None
            if not sp.put(o[1], o[2], o[5][:o[3]]): continue
            if which is not None:
                evs.append("p,%d,%d,%s" % (which, o[2], ":".join(str(v) for v in o[5][:o[3]]))); idx.append(None)
    if not evs: return None
    sp0 = Spec(case)
    vin = [0] * FO + sp0.data[g["in"]]; vcnt = [0] * FO + sp0.data[g["cnt"]]
    if not vin or not vcnt: return None
    return "M %d 64 | %s | %s | %s" % (g["cval"], ",".join(map(str, vin)), ",".join(map(str, vcnt)), ";".join(evs)), idx


def model_outputs(drv, cases_res, cfg, eager):
    lines = []; maps = []
    for case, res in cases_res:
        ln, opmap = model_line(case, cfg, eager, auto_events(case, res))
        lines.append(ln); maps.append(opmap)
    rc, out = run_model(drv, lines)
    if rc != 0 or len(out) != len(lines):
        raise RuntimeError("model driver failed rc=%d lines=%d/%d %s" % (rc, len(out), len(lines), "\n".join(out[-3:])[:500]))
    return [o.split(";") for o in out], maps


def _model_ok_under(drv, case, res, cfg, eager, upto):
    """does the model under cfg satisfy the specification on ops 0..upto (no UB either)"""
    (mo,), (opmap,) = model_outputs(drv, [(case, res)], cfg, eager)
    mi = {opmap[j]: mo[j] for j in range(min(len(opmap), len(mo))) if opmap[j] is not None}
    fake = []
    for i, o in enumerate(case["ops"]):
        if i > upto: break
        m = mi.get(i)
        if m is None:
            fake.append((res[i][0], res[i][1])); continue
        m0 = m.split(" #")[0].strip()
        if m0 in ("UB", "X"): return False
        if o[0] == "g":
            tok = ["g", "0", m0.split()[1]] if m0.startswith("E") else ["g", str(len(m0.split()) - 1), "0"] + m0.split()[1:]
        elif o[0] in "st":
            tok = [o[0], "0", m0.split()[1]] if m0.startswith("E") else [o[0], m0.split()[1], "0"]
        elif o[0] == "r":
            tok = ["r", m0.split()[1]]
        else:
            tok = [o[0], "0", "0"]
        fake.append((tok, res[i][1]))
    sub = dict(case); sub["ops"] = case["ops"][:len(fake)]
    return not [b for b in judge_spec(sub, fake) if b[0] <= upto]


def attribute(drv, case, res, cfg, eager, upto):
    """smallest set of repair flags under which the model satisfies the specification up to op
    `upto`: single flags first, then all flags with greedy removal"""
    off = [f for f in FLAGS if not cfg.get(f) and f != "fix_phase_sign"]     # that one is C17's
    for fl in off:
        if _model_ok_under(drv, case, res, dict(cfg, **{fl: True}), eager, upto): return [fl]
    allon = dict(cfg, **{f: True for f in off})
    if not _model_ok_under(drv, case, res, allon, eager, upto): return []
    keep = list(off)
    for fl in off:
        trial = [f for f in keep if f != fl]
        if _model_ok_under(drv, case, res, dict(cfg, **{f: True for f in trial}), eager, upto): keep = trial
    return keep


ALTER_KEY = "C02/alter/literal-equal-to-stale-cached-value-keeps-the-CONST-value"
MPLEX_ALTER_KEY = "C02/mplex/start-value-cache-survives-metadata-change"
MPLEX_KEY = "C02/mplex/lookback-restores-pointers-with-whence-as-file-mode"
MPLEX_CACHE_KEY = "C02/mplex/start-value-cache-survives-putdata-on-an-input"
GZPAD_KEY = "C02/gzip/padding-of-an-empty-field-is-uninitialised-memory"

WITNESSES = {
    MPLEX_ALTER_KEY: dict(
        enc="none", raws=[dict(name="r0", type="UINT8", vals=list(range(100))), dict(name="r1", type="UINT8", vals=[k % 4 for k in range(100)])],
        derived=[dict(name="mx", kind="X", cnt="r1", cval=2, period=0, **{"in": "r0"})],
        ops=[("k", -1), ("g", "mx", 10, 9, "i64"), ("a", "X", "mx", "r1", "r1", 2, 0), ("g", "mx", 19, 3, "i64")]),
    ALTER_KEY: dict(
        enc="none", raws=[dict(name="r0", type="UINT8", vals=list(range(100)))], consts={"km": 2, "kb": -8},
        derived=[dict(name="d0", kind="L", m=2, b=-8, mc="km", bc="kb", **{"in": "r0"})],
        ops=[("a", "L", "d0", "r0", 3, 0), ("g", "d0", 10, 3, "i64")]),
    "C02/bzip2/seek-to-before-window": dict(
        enc="bzip2", raws=[dict(name="a", type="UINT8", vals=list(range(200)))],
        ops=[("g", "a", 150, 4, "i64"), ("g", "a", 3, 4, "i64")]),
    "C02/bzip2/read-reaching-eof": dict(
        enc="bzip2", raws=[dict(name="a", type="UINT8", vals=list(range(200)))],
        ops=[("g", "a", 190, 4, "i64"), ("g", "a", 194, 10, "i64"), ("g", "a", 194, 3, "i64")]),
    "C02/phase/input-start-minus-one-read-as-GD_HERE": dict(
        enc="none", raws=[dict(name="a", type="UINT8", vals=list(range(200)))],
        derived=[dict(name="p", kind="P", shift=-1, **{"in": "a"})],
        ops=[("g", "a", 100, 2, "i64"), ("g", "p", 0, 4, "i64")]),
    "C02/text/pseudo-position-before-frameoffset": dict(
        enc="text", foff=3, raws=[dict(name="a", type="UINT8", vals=list(range(200)))],
        ops=[("g", "a", 8, 1, "i64"), ("g", "a", 0, 1, "i64"), ("g", "a", 7, 1, "i64")]),
    "C02/recurse-level-leak-on-GD_E_RANGE": dict(
        enc="none", raws=[dict(name="a", type="UINT8", vals=list(range(200)))],
        ops=[("s", "a", -5, "S")] * 31 + [("r",), ("g", "a", 0, 2, "i64")]),
    "C02/raw/all-padding-read-seeks-negative": dict(
        enc="none", raws=[dict(name="a", type="UINT8", vals=list(range(200)))],
        derived=[dict(name="q", kind="P", shift=-3, **{"in": "a"})],
        ops=[("g", "q", 0, 5, "i64"), ("g", "q", 0, 2, "i64"), ("r",)]),
    # an EMPTY gzip field padded by a recode to a smaller frame offset: the padding is left to gzseek()+gzclose() on a stream
    # nothing was written to; zlib then compresses a buffer it never cleared (whatever the heap held: here the input's bytes)
    GZPAD_KEY: dict(
        enc="gzip", foff=3, raws=[dict(name="a", type="INT32", vals=[]), dict(name="b", type="INT32", vals=[1, 2, 3])],
        ops=[("g", "b", 3, 3, "i64"), ("a", "F", 1, 1), ("g", "a", 0, 12, "i64")]),
}


def _sie_past_eof(case, i):
    """does some call up to op i put a sie RAW input past its end (or move it relatively)"""
    sp = Spec(case)
    for o in case["ops"][:i + 1]:
        if o[0] == "g" and o[2] == "H": return True      # wherever the pointer happens to be
        if o[0] == "g" and o[2] != "H" and o[3] > 0:
            if any(o[2] + sh > sp.foff + len(sp.data[r]) for r, sh in sp.inputs(o[1])): return True
        if o[0] == "s":
            if o[3] != "S": return True
            if any(o[2] - sh > sp.foff + len(sp.data[r]) or o[2] + sh > sp.foff + len(sp.data[r]) for r, sh in sp.inputs(o[1])): return True
    return False


DAMAGE_WITNESS = dict(
    enc="bzip2", spf=1, foff=0, raws=[dict(name="a", type="UINT8", vals=[(37 * k * k + 11 * k) % 251 for k in range(1000)])],
    derived=[], damage=("flip", 10), dec="crc",
    ops=[("g", "a", 0, 10, "i64"), ("g", "a", 5000, 4, "i64"), ("g", "a", 10, 5, "i64"),
         ("g", "a", 950, 70, "i64"), ("g", "a", 900, 5, "i64")])



# ---------------------------------------------------------------- changes that move or rewrite data files, in the middle of histories
RECODE_KEY = "C02/recode/reads-after-a-data-moving-change-differ-from-the-contents"
def gen_recode(rng):
    case = gen_case(rng, encs=["none", "none", "gzip", "bzip2", "lzma", "sie", "text"], model_only=True)
    for r in case["raws"]:
        r.pop("tail", None)
        # an empty data file is left out: what padding it gets is encoding specific, an empty .sie file cannot be opened,
        # and see the listed finding about gzip
        if not r["vals"]: r["vals"] = [rng.randint(0, 100) for _ in range(rng.randint(1, 9))]
    if len(case["raws"]) >= 2: case["raws"][1]["vals"] = (case["raws"][1]["vals"] * len(case["raws"][0]["vals"]))[:len(case["raws"][0]["vals"])]
    case["recode"] = True
    if rng.random() < 0.4: case["include"] = dict(enc=rng.choice(["none", "gzip", "bzip2", "lzma", "sie"]), endian=rng.choice("bl"))
    sp = Spec(case)
    spf = case["spf"]
    ops = []
    moved = set(); recoded = False
    nren = 0
    for _ in range(rng.randint(12, 45)):
        raws = sorted(sp.raw); fields = raws + sorted(sp.der)
        f = rng.choice(fields); e = sp.eof(f); u = rng.random()
        pos = lambda: rng.choice([rng.randint(0, max(1, e + 2)), max(0, e - rng.randint(0, 5)), sp.foff + rng.randint(0, 4)])
        if u < 0.5:
            st = pos(); n = rng.choice([1, 2, 3, 8, 20, 70])
            T = "i64" if sp.ok_type(f, st, n, "i64") else "f64"
            ops.append(("g", f, st, n, T))
        elif u < 0.58: ops.append(("g", f, "H", rng.choice([1, 3, 9]), "i64"))
        elif u < 0.66: ops.append(("s", f, pos(), "S"))
        elif u < 0.72 and sp.enc == "none" and not recoded and not moved:
            rr = rng.choice(raws); t = sp.raw[rr]["type"]
            lo, hi = (0, 255) if t == "UINT8" else (-128, 127) if t == "INT8" else (-400, 400) if t[0] == "I" else (0, 800)
            at = rng.randint(sp.foff, sp.foff + len(sp.data[rr]) + 2); vs = [rng.randint(lo, hi) for _ in range(rng.randint(1, 5))]
            ops.append(("p", rr, at, len(vs), "i64", vs)); sp.put(rr, at, vs)
        elif u < 0.76: ops.append((rng.choice("cf"), rng.choice([f, "*"])))
        elif u < 0.80: ops.append(("t", f))
        else:
            # a change that moves or rewrites data files, with files left open wherever the calls before left them
            c = rng.choice("FFFFEENNRRVO")
            cur = sp.foff // spf
            if c == "F":
                new = rng.choice([x for x in (0, 1, 2, 3, 5, cur + 1, max(0, cur - 1)) if x != cur])
                o = ("a", "F", new, 1 if rng.random() < 0.8 else 0)
                if o[3] and (new - cur) * spf >= min(len(v) for v in sp.data.values()): continue      # would empty a data file
            elif c == "E":
                rec = 1 if rng.random() < 0.7 or sp.enc in ("sie", "text") or case.get("include") or any(SIZE[sp.raw[r]["type"]] > 2 for r in raws) else 0      # (swapped 4-byte values would leave the range products are exact in)
                o = ("a", "E", "b" if sp.endian == "l" else "l", rec)
            elif c == "N":
                o = ("a", "N", rng.choice([x for x in ("none", "gzip", "bzip2", "lzma", "sie", "text") if x != sp.enc]), 1)
            elif c == "R":
                rr = rng.choice(raws); vals = sp.data[rr]
                ok = [t for t in ("INT16", "INT32", "INT64", "UINT16", "UINT32", "UINT64", "INT8", "UINT8") if t != sp.raw[rr]["type"]
                      and all(rep(v, NATIVE[t]) for v in vals)]
                if not ok: continue
                o = ("a", "R", rr, rng.choice(ok), 1)
            elif c == "V":
                rr = rng.choice(raws); nren += 1; o = ("a", "V", rr, "%sn%d" % (rr.split("n")[0], nren))
            else:
                if not case.get("include"): continue
                rr = rng.choice(raws); o = ("a", "O", rr, 0 if rr in moved else 1)
                moved.symmetric_difference_update({rr})
            if c in "NO": recoded = True
            ops.append(o); sp.alter(o)
    case["ops"] = ops
    return case


# ---------------------------------------------------------------- every return type, values at the edges of the types
BOUNDARY_KEY = "C02/return-type/exactly-representable-value-differs-by-return-type"
REPR_ARG_KEY = "C02/repr/argument-in-an-unsigned-return-type-tests-a-data-bit"
def f32(x):
    try: return struct.unpack("<f", struct.pack("<f", x))[0]
    except OverflowError: return None

def exact_in(v, T):
    """is the real number v (python int or float, finite) exactly representable in return type T"""
    if T in ("f64", "c128"): return float(v) == v if isinstance(v, int) else True
    if T in ("f32", "c64"):
        if isinstance(v, int) and float(v) != v: return False
        r = f32(float(v)); return r is not None and r == v
    if isinstance(v, float):
        if v != int(v): return False
        v = int(v)
    lo, hi = _RANGE[T]
    if T == "i64": lo, hi = -2**63, 2**63 - 1
    if T == "u64": lo, hi = 0, 2**64 - 1
    return lo <= v <= hi

BOUNDS = [0, 1, -1, 2, 127, 128, 255, 256, -128, -129, 32767, 32768, 65535, 65536, -32768, -32769,
          2**24, 2**24 + 1, 2**31 - 1, 2**31, 2**31 + 1, -2**31, -2**31 - 1, 2**32 - 1, 2**32, 2**32 + 1, 2**53 - 1, 2**53, 2**53 + 1, 2**53 + 2,
          2**62, 2**63 - 1, 2**63 - 1024, 2**63, 2**63 + 2048, 2**63 + 2**40, 2**64 - 2048, 2**64 - 2**40, 2**64 - 1, -2**63, -2**63 + 1, -2**62,
          0.5, -0.5, 2.5, 1e30, -1e30, 3e9 + 0.5, 1e19]

def gen_boundary(rng):
    """RAW fields of every native type holding values at the edges of every return type, and LINCOM(1, 0) / PHASE
    views of them; every field read in EVERY return type: wherever the value is exactly representable in the
    return type the answer is that value -- the same in every return type"""
    enc = rng.choice(["none", "none", "gzip", "sie"])
    n = rng.randint(8, 40)
    raws = []
    for i in range(rng.randint(1, 3)):
        t = rng.choice(list(NATIVE))
        pool = [v for v in BOUNDS if exact_in(v, NATIVE[t])]
        vals = [rng.choice(pool) if rng.random() < 0.8 else rng.choice([v for v in (rng.randint(-300, 300), rng.randint(0, 200)) if exact_in(v, NATIVE[t])] or [0]) for _ in range(n)]
        vals = [float(v) for v in vals] if t in ("FLOAT32", "FLOAT64") else [int(v) for v in vals]
        raws.append(dict(name="r%d" % i, type=t, vals=vals))
    derived = []
    for j in range(rng.randint(0, 3)):
        src = rng.choice([r["name"] for r in raws] + [f["name"] for f in derived])
        if rng.random() < 0.5: derived.append(dict(name="d%d" % j, kind="L", m=1, b=0, **{"in": src}))
        else: derived.append(dict(name="d%d" % j, kind="P", shift=rng.choice([0, 1, 2]), plain=True, **{"in": src}))
    case = dict(enc=enc, spf=1, foff=0, raws=raws, derived=derived, boundary=True)
    fields = [r["name"] for r in raws] + [f["name"] for f in derived]
    ops = []
    for _ in range(rng.randint(6, 30)):
        f = rng.choice(fields); s = rng.randint(0, n - 1); k = rng.choice([1, 1, 2, 5, n])
        # a representation suffix (gd_getdata(3)/dirfile-format(5): .r real part, .i imaginary part, .m modulus, .a argument)
        # of these real-valued fields, a third of the time
        fc = f + rng.choice([".r", ".i", ".m", ".m", ".a"]) if rng.random() < 0.35 else f
        ops.append(("g", fc, s, k, rng.choice(ALL_TYPES)))
        if rng.random() < 0.6:
            # the same samples in other return types, straight away
            for T in rng.sample(ALL_TYPES, rng.randint(1, 4)): ops.append(("g", fc, s, k, T))
    case["ops"] = ops
    return case

def bval(case, f, k):
    """(value, through a LINCOM?) of sample k"""
    for r in case["raws"]:
        if r["name"] == f: return (r["vals"][k] if 0 <= k < len(r["vals"]) else None), False
    g = [x for x in case["derived"] if x["name"] == f][0]
    if g["kind"] == "P": return bval(case, g["in"], k + g["shift"])
    v, _ = bval(case, g["in"], k)
    return v, True

def judge_boundary(case, res):
    bad = []; seen = {}
    for i, (o, (tok, _)) in enumerate(zip(case["ops"], res)):
        if o[0] != "g" or tok[0] != "g": continue
        fc, s, n, T = o[1:5]
        f, _, rp = fc.partition(".")
        if tok[2] != "0": bad.append((i, "data", "E " + tok[2])); continue
        vals = tok[3:3 + int(tok[1])]
        for j, t in enumerate(vals):
            v, lin = bval(case, f, s + j)
            if v is None: bad.append((i, "no sample %d" % (s + j), t)); break
            key = (fc, T, s + j)
            if seen.setdefault(key, t) != t: bad.append((i, "sample %d = %s as before" % (s + j, seen[key]), t)); break
            # through a LINCOM the value passes through double precision arithmetic
            if lin and not exact_in(v, "f64"): continue
            if not exact_in(v, T): continue
            # the representation is taken of the value as held in the return type
            if rp == "i": v = 0
            elif rp == "m": v = -v if v < 0 else v
            elif rp == "a":
                if T not in FLOAT_TYPES: v = 3 if v < 0 else 0          # (T) of pi / 0
                else: v = (f32(math.pi) if T in ("f32", "c64") else math.pi) if v < 0 else 0.0
            if not exact_in(v, T): continue
            t0 = t.split(";")[0]
            try: got = int(t0) if T not in FLOAT_TYPES else float(t0)
            except ValueError: got = float(t0)
            if got != v:
                v0, _ = bval(case, f, s + j)
                if rp == "a" and T in ("u8", "u16", "u32", "u64") and got == 3 and v0 >= 0 and (int(v0) >> {"u8": 1, "u16": 2, "u32": 4, "u64": 8}[T]) & 1:
                    # the listed finding: the argument in an unsigned return type tests bit sizeof(type) of the value
                    bad.append((i, "sample %d = %r (exactly representable in %s)" % (s + j, v, T), t, REPR_ARG_KEY)); break
                bad.append((i, "sample %d = %r (exactly representable in %s)" % (s + j, v, T), t)); break
    return bad


# ---------------------------------------------------------------- long runs of failing calls
FAIL_KEY = "C02/failing-calls/later-call-depends-on-earlier-failures"
# fields that exist but cannot be read, one per way a read can fail below the public call
# (name, format lines, what fails)
UNREADABLE = [
    ("zbs", ["zbs LINCOM 1 r0 zznone 0"], "scalar parameter names a missing field (GD_E_BAD_SCALAR)"),
    ("zbp", ["zbp PHASE r0 zznone"], "scalar shift names a missing field"),
    ("zbb", ["zbb BIT r0 zznone 2"], "scalar bitnum names a missing field"),
    ("zbr", ["zbr RECIP r0 zznone"], "scalar dividend names a missing field"),
    ("zbq", ["zbq POLYNOM r0 1 zznone"], "scalar coefficient names a missing field"),
    ("zbx", ["zbx MPLEX r0 r0 zznone 0"], "scalar count value names a missing field"),
    ("zbw", ["zbw WINDOW r0 r0 EQ zznone"], "scalar threshold names a missing field"),
    ("zbc", ["zbc PHASE zznone 1"], "input names a missing field (GD_E_BAD_CODE)"),
    ("zbl", ["zbl LINCOM 2 r0 1 0 zznone 1 0"], "second input names a missing field"),
    ("zbm", ["zbm MULTIPLY r0 zznone"], "second input names a missing field"),
    ("zdm", ["zk CONST INT64 3", "zdm LINCOM 1 zk 1 0"], "input is a scalar (GD_E_DIMENSION)"),
    ("zdi", ["zk2 CONST INT64 3", "zdi INDIR r0 zk2"], "INDIR over a CONST (GD_E_DIMENSION)"),
    ("zlp", ["zlp PHASE zlq 0", "zlq PHASE zlp 1"], "field defined in terms of itself (GD_E_RECURSE_LEVEL)"),
    ("zlt", ["zlt LINTERP r0 /nonexistent/zz/table"], "LINTERP table cannot be opened (GD_E_IO)"),
    ("zmr", ["zmr RAW UINT8 1"], "RAW field without a data file (GD_E_IO)"),
    ("zst", ["zst STRING hello"], "not a vector field (GD_E_BAD_FIELD_TYPE)"),
    ("zznone", [], "no such field (GD_E_BAD_CODE)"),
]


def gen_failing(rng, runlen=(40, 80)):
    """a healthy database with a deep derived chain + fields that cannot be read; long runs of ONE failing call
    (every failure kind, through every public entry point) between reads of the healthy fields: what the
    healthy fields return, and the library's recursion counter, must not depend on how many calls failed"""
    case = gen_case(rng, encs=["none", "none", "gzip", "bzip2", "text"], model_only=True)
    case["ops"] = [o for o in case["ops"] if o[0] != "l"][:rng.randint(0, 20)]
    names = [r["name"] for r in case["raws"]]
    depth = rng.randint(6, 29)
    prev = rng.choice(names)
    for j in range(depth):
        nm = "q%d" % j
        if rng.random() < 0.8: case["derived"].append(dict(name=nm, kind="P", shift=rng.choice([0, 0, 1, -1]), plain=True, **{"in": prev}))
        else: case["derived"].append(dict(name=nm, kind="L", m=rng.choice([1, -1]), b=rng.randint(-2, 2), **{"in": prev}))
        prev = nm
    chosen = rng.sample(UNREADABLE, rng.randint(3, 7))
    lines = []; broken = []
    for nm, ls, _ in chosen:
        lines += ls; broken.append(nm)
        if ls and rng.random() < 0.4:
            # the failure happens some levels down
            w = nm
            for lv in range(rng.randint(1, 4)):
                w2 = "%sw%d" % (nm, lv); lines.append("%s PHASE %s %d" % (w2, w, rng.choice([0, 1]))); w = w2
            broken.append(w)
    case["extra_lines"] = lines
    case["broken"] = broken + ["zznone"]
    sp = Spec(case)
    healthy = names + [f["name"] for f in case["derived"]]
    deep = ["q%d" % (depth - 1), "q%d" % (depth // 2), "q0"]
    ops = case["ops"]

    def healthy_read():
        f = rng.choice(deep + deep + healthy)
        e = sp.eof(f); st = rng.randint(0, max(1, e)); n = rng.choice([1, 2, 5, 20])
        ops.append(("g", f, st, n, "i64" if not sp.ok_type(f, st, n, "f64") or rng.random() < 0.5 else "f64"))

    for _ in range(rng.randint(1, 3)):
        b = rng.choice(case["broken"]); h = rng.choice(healthy)
        form = rng.choice(["g", "g", "g", "s", "t", "e", "b", "c", "type", "range", "seekrange"])
        if form == "g": call = ("g", b, rng.randint(0, 30), rng.choice([1, 3, 10]), rng.choice(["i64", "f64", "u8", "c128", "null"]))
        elif form == "s": call = ("s", b, rng.randint(0, 30), "S")
        elif form in "tebc": call = (form, b)
        elif form == "type": call = ("g", h, rng.randint(0, 30), 3, "bad")
        elif form == "range": call = ("g", h, -rng.randint(2, 9), 3, "i64")
        else: call = ("s", h, -rng.randint(1, 9) - sp.eof(h), "S")
        every = rng.choice([7, 11, 1000])
        for k in range(rng.randint(*runlen)):
            ops.append(call)
            if k % every == every - 1: healthy_read()
        ops.append(("r",))
        for f in deep: ops.append(("g", f, rng.randint(0, max(1, sp.eof(f) - 3)), rng.choice([1, 4]), "i64"))
        for _ in range(rng.randint(0, 4)): healthy_read()
    case["ops"] = ops
    return case


# ---------------------------------------------------------------- inputs of different sample rates
class MixSpec:
    """whole-field contents when the inputs of a derived field have different samples per frame
    (dirfile-format(5): the field has the rate of its FIRST input; sample k of it pairs with sample
    floor(k * spf_i / spf_0) of input i).  Sample numbers are absolute, in the rate of the field asked."""

    def __init__(self, case):
        self.case = case
        self.fo = case.get("foff", 0)
        self.raw = {r["name"]: r for r in case["raws"]}
        self.der = {f["name"]: f for f in case.get("derived", [])}
        self.carr = case.get("carrays", {})
        self.fl = False
        self._spf = {}

    def first(self, f):
        g = self.der[f]
        return g["ins"][0] if g["kind"] == "N" else g["a"] if g["kind"] in "MD" else g["in"]

    def spf(self, f):
        if f not in self._spf:
            self._spf[f] = self.raw[f]["spf"] if f in self.raw else self.spf(self.first(f))
        return self._spf[f]

    def at(self, f, g, k):
        """value of input g at the time of sample k of field f"""
        return self.val(g, k * self.spf(g) // self.spf(f))

    def val(self, f, k):
        if f in self.raw:
            i = k - self.fo * self.raw[f]["spf"]
            if i < 0: return 0
            v = self.raw[f]["vals"]
            return v[i] if i < len(v) else None
        g = self.der[f]; kd = g["kind"]
        if kd == "P": return self.val(g["in"], k + g["shift"])
        if kd == "L":
            x = self.val(g["in"], k); return None if x is None else g["m"] * x + g["b"]
        if kd == "B":
            x = self.val(g["in"], k)
            return None if x is None else ((x % (1 << 64)) >> g["bitnum"]) & ((1 << g["numbits"]) - 1)
        if kd == "N":
            tot = 0
            for nm, m, b in zip(g["ins"], g["ms"], g["bs"]):
                x = self.at(f, nm, k)
                if x is None: return None
                tot += m * x + b
            return tot
        if kd in "MD":
            x = self.val(g["a"], k); y = self.at(f, g["b"], k)
            if x is None or y is None: return None
            if kd == "M": return x * y
            if y == 0: return float("nan") if x == 0 or x != x else float("inf") * (1 if x > 0 else -1)
            return x / y
        if kd == "W":
            x = self.val(g["in"], k); c = self.at(f, g["cnt"], k)
            if x is None or c is None: return None
            t = g["thr"]
            ok = {"EQ": c == t, "NE": c != t, "GT": c > t, "LT": c < t, "GE": c >= t, "LE": c <= t}[g["op"]]
            return x if ok else (float("nan") if self.fl else 0)
        if kd == "X":
            if self.val(g["in"], k) is None or self.at(f, g["cnt"], k) is None: return None
            j = k
            while j >= 0:
                if self.at(f, g["cnt"], j) == g["cval"]: return self.val(g["in"], j)
                j -= 1
            return float("nan") if self.fl else 0
        if kd == "I":
            i = self.val(g["in"], k)
            if i is None: return None
            a = self.carr[g["carr"]]
            return a[i] if 0 <= i < len(a) else 0
        raise ValueError(kd)

    def window(self, f, s, n):
        out = []
        for k in range(s, s + n):
            v = self.val(f, k)
            if v is None: break
            out.append(v)
        return out

    def full(self, f, s, n):
        """every input of every sample of the window exists (then the read must return all n samples)"""
        return len(self.window(f, s, n)) == n

    def kinds_below(self, f):
        if f in self.raw: return set()
        g = self.der[f]; kd = g["kind"]
        ins = g["ins"] if kd == "N" else [g["a"], g["b"]] if kd in "MD" else [g["in"], g["cnt"]] if kd in "XW" else [g["in"]]
        out = {kd}
        for x in ins: out |= self.kinds_below(x)
        return out

    def mplex_multirate_below(self, f):
        """an MPLEX whose index has another rate than its input, at or below f (C01 getdata/mplex-multirate)"""
        if f in self.raw: return False
        g = self.der[f]; kd = g["kind"]
        if kd == "X" and self.spf(g["in"]) != self.spf(g["cnt"]): return True
        ins = g["ins"] if kd == "N" else [g["a"], g["b"]] if kd in "MD" else [g["in"], g["cnt"]] if kd in "XW" else [g["in"]]
        return any(self.mplex_multirate_below(x) for x in ins)

    def carried(self, f, s, k):
        """f is an MPLEX of mixed rates and sample k of a window starting at s is the value carried in from before
        the window (no index match in [s, k]): the start value _GD_DoMplex looks back for (C01 getdata/mplex-multirate)"""
        g = self.der.get(f)
        if not g or g["kind"] != "X" or self.spf(g["in"]) == self.spf(g["cnt"]): return False
        return all(self.at(f, g["cnt"], j) != g["cval"] for j in range(s, k + 1))

    def ok_type(self, f, s, n, T):
        """all values the library holds in the return type T while reading [s, s+n) of f are exact in T
        (the first input is read in T, the others as FLOAT64; BIT/INDIR read their input as 64-bit integers)"""
        self.fl = T in FLOAT_TYPES
        res = self.window(f, s, n)
        if not all(rep(v, T) if v == v and abs(v) != float("inf") else T in FLOAT_TYPES for v in res): return False
        if any(v != int(v) for v in res if v == v and abs(v) != float("inf")) and T not in ("f64", "c128"): return False
        if f in self.raw: return True
        g = self.der[f]; kd = g["kind"]; m = len(res)
        if kd == "P": return self.ok_type(g["in"], s + g["shift"], m, T)
        if kd in "BI": return True
        return self.ok_type(self.first(f), s, m, T)


MIX_KEY = "C02/mixed-rate/sample-value-depends-on-the-window"
MIX_SPEC_KEY = "C02/mixed-rate/value-differs-from-whole-field-contents"
MIX_MPLEX_KEY = "C02/mplex/multirate-lookback-start-value"


def gen_mixed(rng):
    """multi-input derived fields (LINCOM 2/3, MULTIPLY, DIVIDE, MPLEX, WINDOW; INDIR, PHASE, BIT, LINCOM 1 over
    them, nested) over RAW inputs of DIFFERENT samples per frame; reads with unaligned first samples, single
    samples, overlapping windows: a sample has one value, alone or inside any window"""
    enc = rng.choice(["none", "none", "gzip", "bzip2", "text", "lzma"])
    nfr = rng.randint(5, 40)
    foff = rng.choice([0, 0, 0, 1, 2])
    rates = rng.sample([1, 2, 3, 4, 5, 6, 8, 12], rng.choice([2, 3, 3, 4]))
    if rng.random() < 0.3: rates.append(rates[0])
    raws = []
    for i, sp in enumerate(rates):
        t = rng.choice(["UINT8", "INT16", "INT32", "UINT16"])
        lo, hi = (1, 200) if t[0] == "U" else (-90, 90)
        n = nfr * sp
        vals = [rng.randint(lo, hi) for _ in range(n)] if rng.random() < 0.6 else [lo + (k * 7 + i) % (hi - lo + 1) for k in range(n)]
        raws.append(dict(name="r%d" % i, type=t, vals=vals, spf=sp))
    ix = rng.randrange(len(raws))              # index field for MPLEX / WINDOW / INDIR: few values
    raws[ix]["vals"] = [rng.randint(0, 3) for _ in raws[ix]["vals"]]; raws[ix]["type"] = "UINT8"
    names = [r["name"] for r in raws]
    carrays = {"ca": [rng.randint(-50, 50) for _ in range(rng.choice([4, 4, 3]))]}
    derived = []
    for j in range(rng.randint(2, 6)):
        pool = names + [f["name"] for f in derived if f["kind"] not in "XWD"]
        kd = rng.choice("NNNNMMDXWIPLB")
        nm = "m%d" % j
        pick = lambda: rng.choice(pool)
        if kd == "N":
            k = rng.choice([2, 3, 3])
            derived.append(dict(name=nm, kind="N", ins=[pick() for _ in range(k)], ms=[rng.choice([-2, -1, 1, 2, 3]) for _ in range(k)],
                                bs=[rng.randint(-4, 4) for _ in range(k)]))
        elif kd == "M": derived.append(dict(name=nm, kind=kd, a=pick(), b=pick()))
        # DIVIDE by a RAW field only: a derived zero may be -0 and the sign of x/-0 is not a matter of which samples pair up
        elif kd == "D": derived.append(dict(name=nm, kind=kd, a=pick(), b=rng.choice(names)))
        elif kd == "X":
            # not over a PHASE: the look-back's re-seek through a forward shift fails with GD_E_RANGE
            # (C01 getdata/mplex-lookback-reseek-range-error, root C17/phase/pointer-shift-applied-with-wrong-sign)
            tmp = MixSpec(dict(foff=foff, raws=raws, derived=derived))
            derived.append(dict(name=nm, kind="X", cnt=names[ix], cval=rng.randint(0, 3), period=0,
                                **{"in": rng.choice([x for x in pool if "P" not in tmp.kinds_below(x)])}))
        elif kd == "W": derived.append(dict(name=nm, kind="W", cnt=pick(), op=rng.choice(["EQ", "NE", "GT", "LT", "GE", "LE"]),
                                            thr=rng.choice([0, 1, 2, 50]), **{"in": pick()}))
        elif kd == "I": derived.append(dict(name=nm, kind="I", carr="ca", **{"in": names[ix]}))
        elif kd == "P": derived.append(dict(name=nm, kind="P", shift=rng.choice([-3, -1, 1, 2, 5]), **{"in": pick()}))
        elif kd == "L": derived.append(dict(name=nm, kind="L", m=rng.choice([-3, -1, 2]), b=rng.randint(-5, 5), **{"in": pick()}))
        elif kd == "B": derived.append(dict(name=nm, kind="B", bitnum=rng.randint(0, 3), numbits=rng.randint(1, 5), **{"in": rng.choice(names)}))
    case = dict(enc=enc, foff=foff, raws=raws, derived=derived, carrays=carrays, mixed=True)
    sp = MixSpec(case)
    multi = [f["name"] for f in derived if f["kind"] in "NMDXW"] or [derived[-1]["name"]]
    ops = [("k", -1)] if any(f["kind"] == "X" for f in derived) else []

    def rd(f, s, n):
        fragile = sp.kinds_below(f) & set("DXW")
        cand = ["f64"] if fragile else [T for T in ("f64", "i64", "i32", "f32", "c128", "i16", "u16", "u64") if sp.ok_type(f, s, n, T)] or ["f64"]
        ops.append(("g", f, s, n, rng.choice(cand)))

    for _ in range(rng.randint(6, 30)):
        f = rng.choice(multi if rng.random() < 0.8 else names + [x["name"] for x in derived])
        q = sp.spf(f); last = (foff + nfr) * q
        u = rng.random()
        if u < 0.75:
            s = rng.choice([rng.randint(0, last), rng.randint(0, last), foff * q + rng.randint(0, 3 * q), max(0, last - rng.randint(1, 3 * q))])
            n = rng.choice([1, 1, 1, 2, 3, q, q + 1, 2 * q + 1, 20, 70])
            rd(f, s, n)
            if rng.random() < 0.5:
                # the same samples again: alone, and inside a window that starts somewhere else
                k = s + rng.randrange(n)
                if rng.random() < 0.5: ops.append((rng.choice("cf"), "*"))
                rd(f, k, 1)
                s2 = max(0, k - rng.randint(0, 2 * q + 1)); rd(f, s2, k - s2 + rng.randint(1, q + 2))
        elif u < 0.85: ops.append(("s", f, rng.randint(0, last), "S"))
        elif u < 0.95: ops.append(("g", f, "H", rng.choice([1, 2, 5]), "f64"))
        else: ops.append((rng.choice("cf"), rng.choice([f, "*"])))
    case["ops"] = ops
    return case


def judge_mixed(case, res):
    """[(op index, expected, got, key)]: every absolute read against MixSpec; and, whatever the oracle says,
    one (field, return type, sample) never has two values in one history"""
    sp = MixSpec(case)
    seen = {}
    bad = []
    for i, (o, (tok, _)) in enumerate(zip(case["ops"], res)):
        if o[0] != "g" or o[2] == "H" or tok[0] != "g": continue
        f, s, n, T = o[1], o[2], o[3], o[4]
        got = impl_canon(tok)
        if got.startswith("E") or got == "OVERRUN":
            bad.append((i, "data", got, MIX_SPEC_KEY)); continue
        vals = got.split()[1:]
        for j, v in enumerate(vals):
            if sp.carried(f, s, s + j): continue       # judged against the oracle below, under the listed finding's key
            prev = seen.setdefault((f, T, s + j), (v, i))
            if prev[0] != v:
                bad.append((i, "sample %d = %s as in op %d %s" % (s + j, prev[0], prev[1], case["ops"][prev[1]]), "sample %d = %s" % (s + j, v), MIX_KEY))
                break
        if sp.ok_type(f, s, n, T):
            sp.fl = T in FLOAT_TYPES
            w = sp.window(f, s, n)
            # how many samples a window reaching the last frames of its slower inputs returns is property C16's
            # business (the library rounds the inputs' extents down): the count is judged only when the field
            # goes on for two more frames, otherwise the samples returned are compared (never more than exist)
            if sp.full(f, s, n + 2 * sp.spf(f) + 6): m = n; gv = vals
            else: m = min(len(w), len(vals)); gv = vals[:m] if len(vals) <= len(w) else vals
            ev = [fmtm(v) for v in w[:m]]
            if ev != gv:
                diff = [j for j in range(max(len(ev), len(gv))) if j >= len(ev) or j >= len(gv) or ev[j] != gv[j]]
                only_start = all(sp.carried(f, s, s + j) for j in diff)
                bad.append((i, "D " + " ".join(ev), "D " + " ".join(gv), MIX_MPLEX_KEY if only_start else MIX_SPEC_KEY))
    bad.sort(key=lambda b: b[0])
    return bad


def fmtm(v):
    if v != v: return "nan"
    if abs(v) == float("inf"): return "inf" if v > 0 else "-inf"
    if v == int(v) and abs(v) < 9e15: return str(int(v))
    return "%.17g" % v


def load_staged_known(chk):
    """vlib.load_known reads known_findings.d/*.json itself now; kept as a no-op for C17.py"""
    return


UNBALANCED = []     # exits that leave D->recurse_level incremented (translator scan of every counting function)


def read_cfg():
    """flags written by translate/tr_c02cfg.py"""
    rc, out = vlib.sh("python3 %s/translate/tr_c02cfg.py --print" % V)
    cfg = {}
    problems = []
    for l in out.splitlines():
        if l.startswith("FLAG "):
            _, k, v = l.split(); cfg[k] = (v == "true")
        if l.startswith("PROBLEM"): problems.append(l)
        if l.startswith("UNBALANCED"): UNBALANCED.append(l)
    return rc, cfg, problems


def main():
    chk = vlib.Check("C02")
    load_staged_known(chk)
    rng = chk.rng
    rc, cfg, trans_problems = read_cfg()
    proved = chk.prove("Properties_C02", extra_targets=["Gen/C02Cfg.vo"])
    chk.cov["trusted_base"] += [
        "Coq 8.16.1 kernel, vm_compute",
        "hand-written model coq/C02/Model.v of raw.c, gzip.c (zlib contract: gzseek/gzread address the decoded stream), bzip.c, ascii.c, "
        "_GD_DoRaw/_GD_DoField/_GD_GetIOPos/_GD_Seek/_GD_Flush; validated against the compiled library on every run",
        "libbz2 as a section variable `dec` with the contract dec_ok (delivers the next <= BUF bytes of the stream, BZ_OK only with a full buffer)",
        "translate/tr_c02cfg.py (regex recognition of the repair sites; a wrong flag shows up as a correspondence disagreement; textual scan that every exit of a recursion-counting function undoes the count)",
        "extraction: ExtrOcamlBasic only; OCaml driver ocaml/C02/driver.ml; harness harness/C02/gdhist.c; H1 hook buffer sizes 64/64/64/16",
        "specification oracle: class Spec in checks/C02.py (whole-field contents by absolute sample number) and spec_window extracted from Coq",
    ]
    chk.assumptions += [
        "MPLEX, lzma, sie, gd_putdata are outside the Coq model; they are covered by implementation-vs-specification comparison only",
        "LRU auto-close decisions depend on time(NULL); the harness reports which files were closed and the model takes them as CAuto events (theorems hold for every choice)",
        "in the main histories all RAW fields of one dirfile share spf and MULTIPLY inputs have equal extents; inputs of different rates are section 2d (values; sample counts near the end of such fields are C16)",
    ]
    try:
        exe = harness("")
        ok, log = vlib.coq_make(["Gen/C02Cfg.vo", "C02/Model.vo"])
        drv = vlib.build_ocaml_driver("C02", "C02/Extract.v", "ocaml/C02/driver.ml") if ok else None
    except vlib.BuildError as e:
        chk.violation("build", "build failed: " + str(e)[:2000], {"kind": "build", "log": str(e)}, found=False)
        return chk.finish()
    if drv is None:
        chk.violation("model-build", "Coq model does not compile: " + log[-1500:], {"kind": "model-build", "log": log[-4000:]}, found=False)
        return chk.finish()

    work = vlib.scratch("C02-")
    for fn in os.listdir(os.path.join(V, "replay", "C02")):
        os.unlink(os.path.join(V, "replay", "C02", fn))
    found_any = False

    # ---- 1. replay the witnesses of the listed findings
    for key, case in WITNESSES.items():
        fl = [f for f in FLAGS if KEYS[f] == key]
        d = os.path.join(work, "w")
        make_dirfile(d, case)
        rc1, out, res = run_impl(exe, d, case)
        bad = judge_spec(case, res) if len(res) == len(case["ops"]) else [(-1, "complete run", out[-300:])]
        if bad:
            i, exp, got = bad[0]
            found_any = True
            chk.violation(key, "%s: op %d %s: implementation %s, whole-field contents say %s" % (key, i, case["ops"][i] if i >= 0 else "", got[:80], exp[:80]),
                          {"kind": "impl-vs-spec", "case": case, "op_index": i, "expected": exp, "got": got,
                           "how": "checks/C02.py make_dirfile + harness/C02/gdhist.c"})
        elif fl and not cfg.get(fl[0]):
            chk.notes.append("witness %s no longer fails although the translator says the site is unrepaired" % key)

    # ---- 2. generated histories
    ncases = 2500 if not chk.thorough else 40000
    t_end = time.time() + (100 if not chk.thorough else 1500)
    from concurrent.futures import ThreadPoolExecutor
    cases = [gen_case(rng) for _ in range(ncases)]

    def run_one(ic):
        i, case = ic
        d = os.path.join(work, "c%d" % (i % 64 + 64 * (i // 64 % 4)))
        d = os.path.join(work, "c%d" % i)
        make_dirfile(d, case)
        r = run_impl(exe, d, case)
        shutil.rmtree(d, ignore_errors=True)
        return r
    with ThreadPoolExecutor(max_workers=vlib.NPROC) as ex:
        results = list(ex.map(run_one, enumerate(cases)))
    evals = 0
    nontriv = set()
    enc_count = {}
    inmodel = []
    spec_bad = {}
    for case, (rc1, out, res) in zip(cases, results):
        enc_count[case["enc"]] = enc_count.get(case["enc"], 0) + 1
        if len(res) != len(case["ops"]):
            # crash / sanitizer stop: judge what we have; the op after the last answer is the culprit
            sub = dict(case); sub["ops"] = case["ops"][:len(res)]
            bad = judge_spec(sub, res)
            if not bad:
                bad = [(len(res), "an answer", "process died rc=%d: %s" % (rc1, out[-200:].replace("\n", " ")))]
        else:
            bad = judge_spec(case, res)
        evals += len(res)
        tg = tags(case)
        if tg: nontriv.add(json.dumps(case, sort_keys=True))
        if in_model(case) and len(res) == len(case["ops"]):
            inmodel.append((case, res))
        if bad:
            spec_bad[id(case)] = (case, res, bad)
    # ---- 2a. the extracted Coq handle model, call by call, on all in-scope histories
    mouts, maps = model_outputs(drv, inmodel, cfg, True)
    mouts0, _ = model_outputs(drv, inmodel, cfg, False)
    model_bad = []
    model_dev = {}
    for (case, res), mo, mo0, opmap in zip(inmodel, mouts, mouts0, maps):
        dm = compare_model(case, res, mo, opmap)
        if dm is not None:
            # libbz2 may report BZ_STREAM_END one call later when the data ends exactly at a buffer boundary
            if case["enc"] == "bzip2" and compare_model(case, res, mo0, opmap) is None:
                continue
            model_bad.append((case, res, dm))
            model_dev[id(case)] = dm
    # ---- 2b. MPLEX layer model (cache, look-back, invalidation by putdata) on the histories it describes
    mlines = []; mcases = []
    for case, (rc1, out, res) in zip(cases, results):
        if len(res) != len(case["ops"]) or case["enc"] == "sie": continue
        ml = mplex_line(case)
        if ml is not None: mlines.append(ml[0]); mcases.append((case, res, ml[1]))
    mplex_bad = []
    if mlines:
        rcm, mout = run_model(drv, mlines)
        for (case, res, idx), mo in zip(mcases, mout if rcm == 0 else []):
            for j, m in enumerate(mo.split(";")):
                i = idx[j] if j < len(idx) else None
                if i is None: continue
                got = impl_canon(res[i][0])
                if got.startswith("E"): break
                if m.strip() != got:
                    mplex_bad.append((case, res, (i, m.strip(), got))); break
    chk.cov["mplex_layer_histories"] = len(mlines)
    chk.cov["evaluations"] = evals
    chk.cov["distinct_nontrivial"] = len(nontriv)
    chk.cov["histories"] = len(cases)
    chk.cov["histories_in_model_scope"] = len(inmodel)
    chk.cov["encodings"] = enc_count
    chk.cov["rule"] = ("histories of 5-60 calls (getdata absolute/GD_HERE with windows aimed at frame offset, EOF and 64-byte window edges; "
                       "seek SET/CUR/END; tell; raw_close/flush of a field or all; open_limit; failing calls) over 1-3 RAW fields + PHASE/LINCOM/BIT/MULTIPLY "
                       "sharing inputs, encodings none/gzip/bzip2/text (model + spec) and lzma/sie (spec only), H1 buffers of 64 bytes; "
                       "non-trivial = distinct history with a backward read, window crossing, GD_HERE, seek, close or open limit")
    for c in cases[:3]:
        chk.sample({"enc": c["enc"], "foff": c["foff"], "raws": [(r["name"], r["type"], len(r["vals"])) for r in c["raws"]],
                    "derived": c["derived"], "ops": c["ops"][:6]})

    # ---- 2c. damaged compressed streams: histories with failing calls; "the value of sample k equals what a
    #          fresh handle returns for k, whenever both calls succeed"; bzip2 block-CRC damage also against the model
    BZERR_KEY = KEYS["fix_bz_err"]
    ndam = 150 if not chk.thorough else 2500
    dcases = [gen_damaged(rng) for _ in range(ndam)]
    dres = []
    dmodel = []
    for k, case in enumerate([DAMAGE_WITNESS] + dcases):
        dd = os.path.join(work, "dmg"); make_dirfile(dd, case)
        rc1, out, res = run_impl(exe, dd, case)
        evals += len(res)
        okreads = []; asks = {}
        for i, (o, (tok, _)) in enumerate(zip(case["ops"], res)):
            if o[0] != "g" or tok[0] != "g" or tok[2] != "0": continue
            if o[2] == "H":
                # a GD_HERE read is judged when the call before it was a successful gd_tell of the same field:
                # it must return what a fresh handle returns for an absolute read at the position told
                pt = res[i - 1][0] if i > 0 and case["ops"][i - 1] == ("t", o[1]) else None
                if not pt or pt[0] != "t" or pt[2] != "0" or int(pt[1]) < 0: continue
                asks[i] = ("g", o[1], int(pt[1]), o[3], o[4])
            okreads.append(i)
        fresh = fresh_answers(exe, dd, case, okreads, asks) if okreads else {}
        bad = [(i, fresh[i], impl_canon(res[i][0])) for i in okreads
               if i in fresh and not fresh[i].startswith("E") and fresh[i] != impl_canon(res[i][0])]
        if len(res) != len(case["ops"]):
            bad.append((len(res), "an answer", "process died rc=%d: %s" % (rc1, out[-200:].replace("\n", " "))))
        dres.append((case, res, bad))
        if case.get("dec") == "crc" and len(res) == len(case["ops"]): dmodel.append((case, res))
    dm_out, dm_maps = model_outputs(drv, dmodel, cfg, True) if dmodel else ([], [])
    dm_out0, _ = model_outputs(drv, dmodel, cfg, False) if dmodel else ([], [])
    dmodel_bad = []
    for (case, res), mo, mo0, opmap in zip(dmodel, dm_out, dm_out0, dm_maps):
        dmm = compare_model(case, res, mo, opmap)
        if dmm is not None and compare_model(case, res, mo0, opmap) is not None:
            dmodel_bad.append((case, res, dmm))
    chk.cov["damaged_stream_histories"] = len(dres)
    chk.cov["damaged_stream_histories_in_model"] = len(dmodel)
    dreported = set()
    for case, res, bad in dres:
        if not bad: continue
        i, exp, got = bad[0]
        key = BZERR_KEY if case["enc"] == "bzip2" else "C02/damaged-stream/%s/read-depends-on-earlier-failed-call" % case["enc"]
        if key in dreported: continue
        dreported.add(key); found_any = True
        chk.violation(key, "%s: %s file damaged by %s: history op %d %s returns %s, a fresh handle returns %s" % (
            key, case["enc"], case["damage"], i, case["ops"][i] if i < len(case["ops"]) else "", got[:80], exp[:80]),
            {"kind": "impl-vs-spec", "spec": "fresh handle", "case": case, "op_index": i, "expected": exp, "got": got,
             "how": "make_dirfile applies case.damage to the data file; harness/C02/gdhist.c; fresh = 'x' + the same read"})
    for case, res, (i, m0, got) in dmodel_bad[:2]:
        if any(c is case and b and b[0][0] <= i for c, _, b in dres): continue
        chk.violation("model/damaged-bzip2/%s" % case["ops"][i][0],
                      "correspondence broken on a bzip2 stream with a wrong block CRC: op %d %s: implementation %s, model %s" % (
                          i, case["ops"][i], got[:100], m0[:100]),
                      {"kind": "model-vs-impl", "case": case, "op_index": i, "impl": got, "model": m0,
                       "theorem": "bz_read/bz_seek error exits of coq/C02/Model.v (dec_bz2_crc) no longer describe bzip.c"}, found=False)

    # ---- 2d. inputs of different sample rates: one value per sample, alone or inside any window
    nmix = 300 if not chk.thorough else 4000
    mixed_bad = {}
    nm_multi = 0
    for k in range(nmix):
        case = gen_mixed(rng)
        dd = os.path.join(work, "mix"); make_dirfile(dd, case)
        rc1, out, res = run_impl(exe, dd, case)
        evals += len(res)
        if len(res) != len(case["ops"]):
            mixed_bad.setdefault(MIX_SPEC_KEY, (case, len(res), "an answer", "process died rc=%d: %s" % (rc1, out[-200:].replace("\n", " "))))
            continue
        nm_multi += sum(1 for o in case["ops"] if o[0] == "g" and o[2] != "H")
        for i, exp, got, key in judge_mixed(case, res)[:1]:
            mixed_bad.setdefault(key, (case, i, exp, got))
    chk.cov["mixed_rate_histories"] = nmix
    chk.cov["mixed_rate_reads_judged"] = nm_multi
    for key, (case, i, exp, got) in mixed_bad.items():
        found_any = True
        c2 = dict(case, ops=case["ops"][:i + 1])
        chk.violation(key, "%s: fields %s over RAWs of %s samples per frame (%s): op %d %s returns %s, expected %s" % (
            key, [derived_line(f) for f in case["derived"]], [r["spf"] for r in case["raws"]], case["enc"], i,
            case["ops"][i] if i < len(case["ops"]) else "", got[:100], exp[:100]),
            {"kind": "impl-vs-spec", "spec": "MixSpec (dirfile-format(5): sample k pairs with sample floor(k*spf_i/spf_0) of input i) / one value per sample",
             "case": c2, "op_index": i, "expected": exp, "got": got, "how": "checks/C02.py make_dirfile + harness/C02/gdhist.c"})

    # ---- 2e. long runs of one failing call (every failure kind) between reads of healthy, deeply derived fields
    nfail = 100 if not chk.thorough else 1200
    fail_bad = None
    for k in range(nfail):
        case = gen_failing(rng)
        dd = os.path.join(work, "fail"); make_dirfile(dd, case)
        rc1, out, res = run_impl(exe, dd, case)
        evals += len(res)
        b = judge_spec(case, res) if len(res) == len(case["ops"]) else [(len(res), "an answer", "process died rc=%d: %s" % (rc1, out[-200:].replace("\n", " ")))]
        if b and fail_bad is None: fail_bad = (case, b[0])
    chk.cov["failing_run_histories"] = nfail
    if fail_bad:
        case, (i, exp, got) = fail_bad
        found_any = True
        small = shrink_runs(exe, work, case, i)
        chk.violation(FAIL_KEY, "%s: after %d failing calls (%s) op %s returns %s, expected %s; unreadable fields: %s" % (
            FAIL_KEY, sum(1 for o in small["ops"][:-1] if o[0] in "gstebc" and (o[1] in case["broken"] or o[-1] == "bad")),
            sorted(set(str(o) for o in small["ops"][:-1]))[:3], small["ops"][-1], got[:100], exp[:100], case["extra_lines"]),
            {"kind": "impl-vs-spec", "case": small, "op_index": len(small["ops"]) - 1, "expected": exp, "got": got,
             "how": "checks/C02.py make_dirfile + harness/C02/gdhist.c"})

    # ---- 2f. data-moving metadata changes (frame offset / byte order / encoding / RAW type with recode, rename and move
    #          with the data) in the MIDDLE of histories, files left open wherever the calls before left them
    nrec = 150 if not chk.thorough else 3000
    rec_bad = None
    for k in range(nrec):
        case = gen_recode(rng)
        dd = os.path.join(work, "rec"); make_dirfile(dd, case)
        rc1, out, res = run_impl(exe, dd, case, rw=True, timeout=40)
        evals += len(res)
        b = judge_spec(case, res) if len(res) == len(case["ops"]) else [(len(res), "an answer", "process died rc=%d: %s" % (rc1, out[-200:].replace("\n", " ")))]
        if b and rec_bad is None: rec_bad = (case, b[0])
    chk.cov["recode_histories"] = nrec
    if rec_bad:
        case, (i, exp, got) = rec_bad
        found_any = True
        small = shrink(exe, work, case, i) if i < len(case["ops"]) else case
        chk.violation(RECODE_KEY, "%s: %s%s, frame offset %d: after %s op %s returns %s, the contents say %s" % (
            RECODE_KEY, case["enc"], " + fragment %s" % case["include"] if case.get("include") else "", case["foff"],
            [o for o in small["ops"][:-1]][-6:], small["ops"][-1], got[:100], exp[:100]),
            {"kind": "impl-vs-spec", "case": small, "op_index": len(small["ops"]) - 1, "expected": exp, "got": got,
             "how": "checks/C02.py make_dirfile + harness/C02/gdhist.c (opened GD_RDWR)"})

    # ---- 2g. the same value in every return type: values at the edges of the types, all native types, all return types
    nbnd = 200 if not chk.thorough else 4000
    bnd_bad = None; bnd_known = None
    for k in range(nbnd):
        case = gen_boundary(rng)
        dd = os.path.join(work, "bnd"); make_dirfile(dd, case)
        rc1, out, res = run_impl(exe, dd, case)
        evals += len(res)
        b = judge_boundary(case, res) if len(res) == len(case["ops"]) else [(len(res), "an answer", "process died rc=%d: %s" % (rc1, out[-200:].replace("\n", " ")))]
        kn = [x for x in b if len(x) == 4]; b = [x for x in b if len(x) == 3]
        if kn and bnd_known is None: bnd_known = (case, kn[0])
        if b and bnd_bad is None: bnd_bad = (case, b[0])
    chk.cov["boundary_histories"] = nbnd
    if bnd_known:
        case, (i, exp, got, key) = bnd_known
        chk.violation(key, "%s: %s returns %s, expected %s" % (key, case["ops"][i], got[:60], exp[:100]),
                      {"kind": "impl-vs-spec", "case": dict(case, ops=[case["ops"][i]]), "op_index": 0, "expected": exp, "got": got})
    if bnd_bad:
        case, (i, exp, got) = bnd_bad
        found_any = True
        c2 = dict(case, ops=[case["ops"][i]] if i < len(case["ops"]) else case["ops"])
        chk.violation(BOUNDARY_KEY, "%s: %s, fields %s: %s returns %s, expected %s" % (
            BOUNDARY_KEY, case["enc"], [(r["name"], r["type"]) for r in case["raws"]] + [derived_line(f) for f in case["derived"]],
            case["ops"][i] if i < len(case["ops"]) else "", got[:100], exp[:120]),
            {"kind": "impl-vs-spec", "case": c2, "op_index": 0, "expected": exp, "got": got, "how": "checks/C02.py make_dirfile + harness/C02/gdhist.c"})

    # ---- 3. decide
    reported = set()
    for case, res, bad in spec_bad.values():
        i, exp, got = bad[0]
        key = None
        if id(case) in model_dev and model_dev[id(case)][0] <= i:
            # the faithful model (with the listed defects in it) does NOT behave like this:
            # a deviation the listed findings do not explain
            key = "C02/unexplained/%s/%s" % (case["enc"], case["ops"][i][0])
        if key is None and in_model(case, strict=False) and len(res) == len(case["ops"]):
            hits = attribute(drv, case, res, cfg, True, i)
            if len(hits) >= 1: key = KEYS[hits[0]]
        if key is None and any(f["kind"] == "X" for f in case.get("derived", [])) and any(o[0] in "aC" for o in case["ops"][:i]) \
                and case["ops"][i][0] == "g" and case["ops"][i][1].startswith("mx"):
            key = MPLEX_ALTER_KEY
        if key is None and any(f.get("mc") for f in case.get("derived", [])) and any(
                o[0] == "a" and o[1] == "L" and [f for f in case["derived"] if f["name"] == o[2] and f.get("mc")] for o in case["ops"][:i]):
            key = ALTER_KEY
        if key is None and got.startswith("E -5") and any(f["kind"] == "X" for f in case.get("derived", [])) \
                and any(o[0] == "l" for o in case["ops"]) and case["enc"] in ("gzip", "bzip2", "lzma"):
            key = MPLEX_KEY
        if key is None and any(f["kind"] == "X" for f in case.get("derived", [])) and any(o[0] == "p" for o in case["ops"][:i]) \
                and case["ops"][i][0] == "g" and case["ops"][i][1].startswith("mx"):
            key = MPLEX_CACHE_KEY
        if key is None and i < len(case["ops"]) and case["ops"][i][0] == "r":
            key = KEYS["fix_leak"]
        if key is None and not in_model(case, strict=False) and all(f["kind"] in "PLBM" for f in case.get("derived", [])) \
                and not any(o[0] in "pkx" for o in case["ops"]):
            # field-layer defects do not depend on the encoding: replay the history on the raw encoding
            c2 = dict(case, enc="none", raws=[dict(r, tail=[]) for r in case["raws"]])
            d2 = os.path.join(work, "attr"); make_dirfile(d2, c2)
            _, _, res2 = run_impl(exe, d2, c2)
            if len(res2) == len(c2["ops"]):
                bad2 = judge_spec(c2, res2)
                if bad2 and bad2[0][0] == i and bad2[0][1] == exp:
                    hits = attribute(drv, c2, res2, cfg, True, i)
                    if hits: key = KEYS[hits[0]]
        if key is None:
            if case["enc"] == "sie" and _sie_past_eof(case, i):
                key = "C02/sie/read-starting-past-eof"
            else:
                # reduce: try to attribute through the model on the in-scope prefix
                key = "C02/unclassified/%s/%s" % (case["enc"], case["ops"][i][0] if i < len(case["ops"]) else "end")
        if key in reported: continue
        reported.add(key)
        found_any = True
        chk.violation(key, "%s: history op %d %s: implementation %s, whole-field contents say %s" % (
            key, i, case["ops"][i] if i < len(case["ops"]) else "", got[:100], exp[:100]),
            {"kind": "impl-vs-spec", "case": case, "op_index": i, "expected": exp, "got": got,
             "how": "python3 -c 'import C02' ; make_dirfile + harness/C02/gdhist.c -O <dir> with ops o 0 + case.ops"})
    for case, res, (i, m0, got) in model_bad[:3]:
        if id(case) in spec_bad and spec_bad[id(case)][2][0][0] <= i:
            continue
        chk.violation("model/%s/%s" % (case["enc"], case["ops"][i][0]),
                      "correspondence broken: op %d %s: implementation %s, model %s (and the implementation agrees with the specification)" % (
                          i, case["ops"][i], got[:100], m0[:100]),
                      {"kind": "model-vs-impl", "case": case, "op_index": i, "impl": got, "model": m0,
                       "theorem": "step of coq/C02/Model.v no longer describes the code"}, found=False)
    for case, res, (i, m0, got) in mplex_bad[:3]:
        if id(case) in spec_bad and spec_bad[id(case)][2][0][0] <= i:
            continue
        chk.violation("model/mplex-layer/%s" % case["enc"],
                      "correspondence broken: MPLEX layer (coq/C02/MplexCache.v): op %d %s: implementation %s, model %s" % (
                          i, case["ops"][i], got[:100], m0[:100]),
                      {"kind": "model-vs-impl", "case": case, "op_index": i, "impl": got, "model": m0,
                       "theorem": "mplex_read of coq/C02/MplexCache.v no longer describes _GD_DoMplex"}, found=False)
    if UNBALANCED:
        chk.notes.append("translator: " + "; ".join(UNBALANCED[:4]))
        if not found_any:
            chk.violation("C02/recurse-level/exit-without-decrement", "an exit of a recursion-counting function does not undo ++D->recurse_level "
                          "(every failing call through it eats one of the 32 levels for good): " + "; ".join(UNBALANCED[:4]),
                          {"kind": "translator", "problems": UNBALANCED}, found=False)
    if trans_problems and not found_any:
        chk.violation("translator", "tr_c02cfg.py cannot recognise the code: " + "; ".join(trans_problems[:3]),
                      {"kind": "translator", "problems": trans_problems}, found=False)
    if not proved and not found_any:
        chk.violation("proof", "Properties_C02 does not check: " + getattr(chk, "proof_log", "")[-1200:],
                      {"kind": "proof", "log": getattr(chk, "proof_log", "")[-4000:]}, found=False)
    return chk.finish()


if __name__ == "__main__":
    sys.exit(main())
