#!/usr/bin/env python3
"""C14 -- data-file replacement is all-or-nothing and leaves no debris.

proof:   Properties_C14.v over C14/ReplaceProto.v (two-phase convert/commit protocol of
         _GD_RecodeFragment/_GD_ByteSwapFragment/_GD_ShiftFragment/_GD_MogrifyFile/_GD_FiniRawIO,
         and _GD_TruncDir) on the abstract filesystem of C12
tie:     harness/C12/shim.c (ptrace supervisor) + harness/C14/rep.c: system-call traces of the
         real operations, the directory state before EVERY call (snapshot and SIGKILL) and after
         EVERY call made to fail are compared with the extracted model (ocaml/C14/driver)
search:  every state / outcome is judged against the property text (fresh gd_open + full read
         gives the old or the new view; a complete copy of every field's data survives; a failing
         call leaves old data, a usable handle and no *_XXXXXX file; nothing outside changes)."""
import sys, os, re, json, shutil, struct, gzip
from concurrent.futures import ThreadPoolExecutor
sys.path.insert(0, os.path.join(os.path.dirname(os.path.abspath(__file__)), "..", "bin"))
sys.path.insert(0, os.path.join(os.path.dirname(os.path.abspath(__file__)), "..", "harness", "C12"))
import vlib, shimlib
from shimlib import ERRNO

GD_E_UNCLEAN_DB = -27
K_DCLOSE = "double-fault/temp-write-or-read-error-then-temp-close-failure/debris"
K_OOPREAD = "oop-write/read-through-same-handle-then-close/data-loss"
OPNAME = {"enc": "alter_encoding", "end": "alter_endianness", "off": "alter_frameoffset", "ren": "rename",
          "mov": "move", "del": "delete", "typ": "alter_raw", "put": "putdata"}


def k_window(op):
    return "%s/kill-between-data-commit-and-metaflush" % OPNAME.get(op.split(":")[0], op.split(":")[0])


def make_template(p, enc):
    d = os.path.join(p, "df")
    os.makedirs(os.path.join(d, "sub"))
    os.makedirs(os.path.join(p, "odir"))
    open(os.path.join(p, "outside.txt"), "w").write("outside the dirfile\n")
    open(os.path.join(p, "odir", "keep.txt"), "w").write("keep me\n")
    open(os.path.join(d, "format"), "w").write(
        "/VERSION 9\n/ENDIAN little\n/ENCODING %s\n/INCLUDE sub/format1\na RAW INT16 2\nb RAW FLOAT32 1\nc0 CONST UINT8 1\n" % enc)
    open(os.path.join(d, "sub", "format1"), "w").write("/ENCODING none\nz RAW UINT8 1\n")
    files = {"a": struct.pack("<40h", *range(100, 140)), "b": struct.pack("<20f", *[x + 0.5 for x in range(20)])}
    for f, data in files.items():
        if enc == "gzip":
            open(os.path.join(d, f + ".gz"), "wb").write(gzip.compress(data))
        else:
            open(os.path.join(d, f), "wb").write(data)
    open(os.path.join(d, "sub", "z"), "wb").write(bytes(range(20)))
    os.symlink("../outside.txt", os.path.join(d, "link_out"))
    os.symlink("../odir", os.path.join(d, "link_dir"))


def outside_state(p):
    t = shimlib.tree(p)
    return {k: v for k, v in t.items() if not k.startswith("df/")}


class Sc:
    def __init__(self, sid, enc, ops, base, fields=None):
        self.sid = sid; self.enc = enc; self.ops = ops
        self.dir = os.path.join(base, "s%d" % sid)
        self.tmpl = os.path.join(self.dir, "tmpl")
        os.makedirs(self.dir)
        make_template(self.tmpl, enc)
        self.fields = fields            # two-phase model: list of (old rel name, new rel name)
        self.op = ops[-1]            # the operation under judgement; earlier ones only prepare (e.g. a pending out-of-place write)
        self.prev_ops = ops[:-1]

    def desc(self):
        return {"base_encoding": self.enc, "operations": self.ops,
                "dirfile": "format: ENDIAN little, ENCODING %s, a RAW INT16 2 (20 frames), b RAW FLOAT32 1 (20 frames), INCLUDE sub/format1 (z RAW UINT8 1)" % self.enc,
                "how": "harness/C12/shim -r PARENT [-k K | -f K:ERRNO] -- harness/C14/rep run PARENT/df %s ; then harness/C14/rep read PARENT/df" % " ".join(self.ops)}

    def work(self, tag):
        w = os.path.join(self.dir, tag)
        shutil.copytree(self.tmpl, w, symlinks=True)
        return w


def parse_run(out):
    r = {"ops": [], "close": None, "H": [], "open": None}
    for l in out.splitlines():
        w = l.split()
        if not w:
            continue
        if w[0] == "open":
            r["open"] = int(w[1])
        elif w[0] == "op":
            r["ops"].append({"op": w[1], "ret": int(w[3]), "error": int(w[5]), "invalid": int(w[7])})
        elif w[0] == "close":
            r["close"] = int(w[1])
        elif w[0] == "H":
            r["H"].append(l)
    return r


def is_data_tmp(rel):
    """<field>_XXXXXX; format_XXXXXX belongs to the metadata flush (C12)"""
    return re.search(r"(^|/)[A-Za-z0-9.]+_[A-Za-z0-9]{6}$", rel) is not None and not rel.split("/")[-1].startswith("format_")


def main():
    chk = vlib.Check("C14")
    shimlib.load_staged_findings(chk, "C14")
    rng = chk.rng
    vlib.sh("python3 %s/translate/tr_flushproto.py" % vlib.VERIF)
    rc, tout = vlib.sh("python3 %s/translate/tr_replace.py" % vlib.VERIF)
    trans_problems = [l for l in tout.splitlines() if l.startswith("PROBLEM")]
    proved = chk.prove("Properties_C14", extra_targets=["Gen/FlushShape.vo", "Gen/ReplaceShape.vo"])
    try:
        cl = "fdopen_cleans : bool := true" in open(os.path.join(vlib.COQ, "Gen", "FlushShape.v")).read()
    except OSError:
        cl = False
    chk.cov["trusted_base"] += [
        "Coq 8.16.1 kernel; vm_compute for the refutation witness",
        "abstract filesystem coq/C12/Fs.v and its assumptions (atomic rename/O_EXCL, page cache survives a kill)",
        "coq/C14/ReplaceProto.v is hand-written from encoding.c/endian.c/flimits.c/move.c/open.c; translate/tr_replace.py checks at every run that the three drivers, _GD_MoveOver, _GD_FiniRawIO and _GD_MogrifyFile still have the two-phase shape; the model is further tied to the code by the trace and state comparison below",
        "harness/C12/shim.c (ptrace supervisor), harness/C14/rep.c, ocaml/C14/driver.ml (ExtrOcamlBasic extraction)",
        "reads of the old data file are not part of the model (they do not change the filesystem); their failures are judged by the property text only",
    ]
    chk.assumptions += [
        "single-fault schedules enumerated (double-fault schedules sampled and judged by the property text only); errno in {ENOSPC, EIO, EACCES, EMFILE}; plus a short write (half of the bytes transferred) at every write call",
        "GD_VERIF_BUFFER_SIZE=64 (hook H1) so that every conversion needs several read/write calls",
        "GD_E_UNCLEAN_DB outcomes are exempt from the no-debris clause, as the property says",
    ]
    try:
        impl = vlib.build_impl("", "-DGD_VERIF_BUFFER_SIZE=64")
        exe = vlib.build_harness(impl, os.path.join(vlib.VERIF, "harness/C14/rep.c"))
        shim = shimlib.build_shim(impl)
        ok, log = vlib.coq_make(["C14/ReplaceProto.vo", "Gen/FlushShape.vo"])
        drv = vlib.build_ocaml_driver("C14", "C14/Extract.v", "ocaml/C14/driver.ml") if ok else None
    except vlib.BuildError as e:
        chk.violation("build", "build failed: " + str(e)[:2000], {"kind": "build", "log": str(e)}, found=False)
        return chk.finish()
    if drv is None:
        chk.violation("model-build", "Coq model does not compile: " + log[-1500:], {"kind": "model-build"}, found=False)
        return chk.finish()

    base = vlib.scratch("verif-c14-")
    # the implementation cache may be pruned by a concurrent check: run private copies of the binaries
    exe = shutil.copy2(exe, os.path.join(base, "harness-bin")); shim = shutil.copy2(shim, os.path.join(base, "shim-bin"))
    plan = [("none", ["enc:gzip:0"], [("a", "a.gz"), ("b", "b.gz")]),
            ("none", ["end:big:0"], [("a", "a"), ("b", "b")]),
            ("none", ["off:3:0"], [("a", "a"), ("b", "b")]),
            ("none", ["ren:a:q"], None),
            ("none", ["mov:a:1"], None),
            ("none", ["del:a"], None),
            ("none", ["typ:a:0x24:2"], None),
            ("gzip", ["put:a:20:2:500"], None),
            ("gzip", ["enc:none:0"], [("a.gz", "a"), ("b.gz", "b")]),
            ("none", ["end:big:-1"], [("a", "a"), ("b", "b")]),
            # every data-touching operation started WITH a pending out-of-place (gzip) write on the field
            ("gzip", ["put:a:20:2:500", "del:a"], None),
            ("gzip", ["put:a:20:2:500", "ren:a:q"], None),
            ("gzip", ["put:a:20:2:500", "enc:none:0"], None),
            ("gzip", ["put:a:20:2:500", "typ:a:0x24:2"], None),
            ("gzip", ["put:a:20:2:500", "mov:a:1"], None)]
    if chk.thorough:
        plan += [("none", ["enc:bzip2:0"], [("a", "a.bz2"), ("b", "b.bz2")]),
                 ("none", ["off:1:0"], [("a", "a"), ("b", "b")]), ("gzip", ["put:b:5:3:9"], None), ("none", ["ren:b:bb"], None)]
    scs = [Sc(n, e, o, base, f) for n, (e, o, f) in enumerate(plan)]
    errnos = ["ENOSPC", "EIO", "EACCES", "EMFILE"] if chk.thorough else ["ENOSPC", "EIO", "EMFILE"]
    pool = ThreadPoolExecutor(max_workers=vlib.NPROC)
    spec_bad, model_bad, known = [], [], {}
    nontriv = set()
    counts = {"scenarios": len(scs), "kill_points": 0, "snapshots": 0, "fault_runs": 0, "window_states": 0, "by_call": {}, "outcomes": {}}

    def spec_fail(sc, key, desc, extra):
        r = dict(sc.desc()); r.update(extra); r["kind"] = "impl-vs-spec"
        spec_bad.append((key, desc, r))

    def coarse(opn, callname, symptom, sc=None, call=None):
        if symptom == "crash" and callname == "close" and call is not None and not is_data_tmp(call.p1) and not call.p1.endswith((".gz", ".bz2", ".xz")):
            return "raw/close-failure/stale-descriptor-closed-again/crash"
        if sc is not None and opn == "enc" and "bzip2" in sc.op and callname in ("write", "close") and symptom in ("debris", "crash"):
            return "bzip2-target/temp-file-write-or-close-failure/%s" % symptom
        if opn == "put":
            return "putdata-oop/io-failure/%s" % symptom
        if opn in ("mov", "typ", "ren") and callname == "close":
            return "mogrify-finalise/close-failure/%s" % symptom
        return "%s/fail-%s/%s" % (opn, callname, symptom)

    def known_hit(sc, key, desc, extra):
        known.setdefault(key, []).append((desc, dict(sc.desc(), **extra, kind="impl-vs-spec")))

    def view(root):
        rc, out = vlib.sh([exe, "read", os.path.join(root, "df")], timeout=60)
        return re.sub(r"\s+$", "", out) if rc == 0 else "CRASH rc=%d %s" % (rc, out[-200:])

    def baseline(sc):
        w = sc.work("base")
        rc, out = shimlib.run_shim(shim, w, [exe, "run", os.path.join(w, "df")] + sc.ops, log=os.path.join(sc.dir, "base.log"),
                                   snap=os.path.join(sc.dir, "snap"))
        sc.rc = rc; sc.out = out; sc.h = parse_run(out)
        sc.calls = shimlib.read_log(os.path.join(sc.dir, "base.log"))
        sc.old_view = view(sc.tmpl); sc.new_view = view(w)
        sc.base_view = sc.old_view
        if sc.prev_ops:
            # what the preparing operations alone leave behind once the handle is closed
            wp = sc.work("prev")
            vlib.sh([exe, "run", os.path.join(wp, "df")] + sc.prev_ops, timeout=60)
            sc.base_view = view(wp)
        sc.allowed = {sc.old_view, sc.base_view, sc.new_view}
        sc.old_tree = shimlib.tree(os.path.join(sc.tmpl, "df")); sc.new_tree = shimlib.tree(os.path.join(w, "df"))
        sc.outside = outside_state(sc.tmpl)
        sc.outside_after = outside_state(w)
        return sc
    list(pool.map(baseline, scs))
    good = []
    for sc in scs:
        if sc.rc != 0 or sc.h["open"] != 0 or not sc.h["ops"] or any(o["ret"] != 0 for o in sc.h["ops"]) or sc.h["close"] != 0:
            spec_fail(sc, "%s/no-fault" % sc.op.split(":")[0], "operation without any fault fails: rc=%s %s" % (sc.rc, sc.out[-300:]), {})
            continue
        if sc.outside != sc.outside_after:
            spec_fail(sc, "%s/outside-changed" % sc.op.split(":")[0], "files outside the dirfile changed", {})
        if [r for r in sc.new_tree if is_data_tmp(r)]:
            spec_fail(sc, "%s/debris" % sc.op.split(":")[0], "temporary files left after success: %s" % [r for r in sc.new_tree if is_data_tmp(r)], {})
        # the window: first commit call .. last rename onto a format file
        w0 = w1 = None
        for c in sc.calls:
            commit = (c.name.startswith("rename") and not c.p2.split("/")[-1].startswith("format")) or \
                     (c.name.startswith("unlink") and not is_data_tmp(c.p1))
            if commit and w0 is None and c.ok:
                w0 = c.idx
            if c.name.startswith("rename") and c.p2.split("/")[-1].startswith("format") and c.ok:
                w1 = c.idx
        sc.w0, sc.w1 = w0, w1
        sc.n = len(sc.calls)
        good.append(sc)

    # ---------------------------------------------------------------- model of the two-phase scenarios
    def tokens(calls, sc):
        toks, idxs = [], []
        names = {}
        for i, (o, n) in enumerate(sc.fields or []):
            names["df/" + o] = "O%d" % i
            if n != o:
                names["df/" + n] = "N%d" % i
        tmpn = {}

        def T(p):
            if p.split("/")[-1].startswith("format_"):
                return "FT"
            base_ = re.sub(r"_[A-Za-z0-9]{6}$", "", p)
            for i, (o, n) in enumerate(sc.fields or []):
                if base_ in ("df/" + re.sub(r"\.(gz|bz2|xz)$", "", o),):
                    return "T%d" % i
            return "T?"
        for c in calls:
            if c.ret == "KILLED":
                break
            st = "ok" if c.ok else "bad"
            if c.name in ("fstatat", "fstat", "lseek", "read", "fsync", "fdatasync", "stat", "lstat"):
                continue
            tmp = is_data_tmp(c.p1) or c.p1.split("/")[-1].startswith("format_")
            if c.name == "openat" and not (c.arg & 0o100):
                continue                               # opening an existing data file for reading
            if c.name == "close" and not tmp:
                continue                               # closing the old data file / directories
            if c.name in ("unlinkat", "unlink") and tmp and c.ret == "-2":
                continue                               # discarding a temporary file that was never created
            if c.name == "openat" and tmp:
                t = "creat:%s:%s" % (T(c.p1), st)
            elif c.name == "write" and tmp:
                t = "write"
            elif c.name == "fcntl" and tmp and is_data_tmp(c.p1):
                continue                               # fdopen of a bzip2/lzma temporary file: no effect on the filesystem
            elif c.name == "fcntl" and tmp:
                t = "fcntl:%s" % st
            elif c.name == "fchmod" and tmp:
                t = "fchmod:%s" % st
            elif c.name == "close" and tmp:
                t = "close:%s" % st
            elif c.name.startswith("rename") and tmp:
                q = "FMT" if c.p2.split("/")[-1] == "format" else names.get(c.p2, c.p2)
                if q.startswith("O"):
                    q = "O" + q[1:]
                t = "rename:%s:%s:%s" % (T(c.p1), q, st)
            elif c.name.startswith("unlink"):
                t = "unlink:%s:%s" % (T(c.p1) if tmp else names.get(c.p1, c.p1), st)
            else:
                t = "other:%s:%s" % (c.name, c.p1)
            toks.append(t); idxs.append(c.idx)
        return toks, idxs

    def merge(toks):
        out = []
        for t in toks:
            t = "write" if t.startswith("write") else t
            if t == "write" and out and out[-1] == "write":
                continue
            out.append(t)
        return out

    mlines, mown = [], []
    for sc in good:
        if not sc.fields:
            continue
        toks, idxs = tokens(sc.calls, sc)
        sc.toks, sc.idxs = toks, idxs
        # write chunks per temp file in phase 1
        chunks = {}
        byidx = {c.idx: c for c in sc.calls}
        for t, ix in zip(toks, idxs):
            c = byidx[ix]
            if t == "write" and is_data_tmp(c.p1):
                for i, (o, n) in enumerate(sc.fields):
                    if re.sub(r"_[A-Za-z0-9]{6}$", "", c.p1) == "df/" + re.sub(r"\.(gz|bz2|xz)$", "", o):
                        chunks.setdefault(i, []).append(max(0, int(c.ret)))
        oml = len(sc.old_tree["format"]); nml = len(sc.new_tree["format"])
        w = ["R", 1 if cl else 0, -1, oml, nml, len(sc.fields)]
        for i, (o, n) in enumerate(sc.fields):
            ch = chunks.get(i, [])
            w += [1 if o != n else 0, len(sc.old_tree.get(o, b"")), len(ch)] + ch
        mlines.append(" ".join(str(x) for x in w)); mown.append(sc)
    model = {}
    if mlines:
        rcm, mout = vlib.sh([drv], inp=("\n".join(mlines) + "\n").encode(), timeout=600)
        blocks = mout.split("E\n")
        for sc, blk in zip(mown, blocks):
            m = {"trace": [], "P": {}}
            for l in blk.splitlines():
                if l.startswith("T"):
                    m["trace"] = l.split()[1:]
                elif l.startswith("P "):
                    f = l.split()
                    m["P"][int(f[1])] = (int(f[2]), f[3], int(f[4]))
            model[sc.sid] = m
            real_t, model_t = merge(sc.toks), merge(m["trace"])
            if "rename:FT:FMT:ok" in real_t:
                # further fragments flushed by the same gd_close (GD_ALL_FRAGMENTS) follow C12's protocol; only their shape is checked here
                cut = real_t.index("rename:FT:FMT:ok") + 1
                rest = real_t[cut:]
                if all(re.match(r"(creat:FT|fcntl|fchmod|write|close|rename:FT:)", t) for t in rest):
                    real_t = real_t[:cut]
            if model_t != real_t:
                r = dict(sc.desc()); r.update({"kind": "model-vs-impl", "correspondence": "C14 two-phase replace trace",
                                               "real": merge(sc.toks), "model": merge(m["trace"])})
                model_bad.append(("model/" + sc.op.split(":")[0], "system-call trace of %s differs from the model: real %s, model %s" % (
                    sc.ops, merge(sc.toks), merge(m["trace"])), r))

    # ---------------------------------------------------------------- states at every call boundary
    def file_level(sc, tr):
        """a complete copy of every field's data: old bytes under the old name, or the new bytes
        under the new name / a temporary name"""
        bad = []
        for o, n in (sc.fields or []):
            ob, nb = sc.old_tree.get(o), sc.new_tree.get(n)
            if tr.get(o) == ob and ob is not None:
                continue
            if nb is not None and (tr.get(n) == nb or any(v == nb for r, v in tr.items() if is_data_tmp(r))):
                continue
            bad.append(o)
        return bad

    def judge_state(sc, what, k, root, in_window):
        v = view(root)
        tr = shimlib.tree(os.path.join(root, "df"))
        okv = v in sc.allowed
        lost = file_level(sc, tr)
        nontriv.add((sc.sid, what, v == sc.old_view, v == sc.new_view, tuple(sorted(r for r in tr if is_data_tmp(r)) and ["tmp"])))
        if outside_state(root) != sc.outside:
            spec_fail(sc, "%s/outside-changed" % sc.op.split(":")[0], "%s at call %s: a file outside the dirfile was created, changed or removed" % (what, k), {"crash_point": k})
        if lost:
            spec_fail(sc, "%s/data-copy-lost" % sc.op.split(":")[0], "%s at call %s of %s: no complete copy of the old or new data of %s exists" % (what, k, sc.ops, lost),
                      {"crash_point": k, "files": sorted(tr)})
        if not okv:
            if in_window:
                counts["window_states"] += 1
                known_hit(sc, k_window(sc.op), "%s at call %s of %s: a fresh gd_open + read sees neither the old nor the new data (data files committed, metadata not yet written)" % (what, k, sc.ops),
                          {"crash_point": k, "seen": v[:1200], "old_view": sc.old_view[:600]})
            else:
                spec_fail(sc, "%s/unreadable-outside-window" % sc.op.split(":")[0],
                          "%s at call %s of %s: a fresh gd_open + read sees neither the old nor the new data although no data file has been committed / the metadata are already written" % (what, k, sc.ops),
                          {"crash_point": k, "seen": v[:1500], "old_view": sc.old_view[:800], "new_view": sc.new_view[:800]})
        return okv

    def in_window(sc, k):
        if sc.w0 is None:
            return False
        kk = sc.n if k == "end" else k
        hi = sc.w1 if sc.w1 is not None else sc.n
        return sc.w0 < kk <= hi

    def snap_job(a):
        sc, k = a
        return sc, "snapshot", k, judge_state(sc, "concurrent observer", k, os.path.join(sc.dir, "snap", str(k)), in_window(sc, k))

    def kill_job(a):
        sc, k = a
        w = sc.work("kill%d" % k)
        shimlib.run_shim(shim, w, [exe, "run", os.path.join(w, "df")] + sc.ops, kill=k)
        r = judge_state(sc, "kill", k, w, in_window(sc, k))
        shutil.rmtree(w, ignore_errors=True)
        return sc, "kill", k, r
    jobs = []
    for sc in good:
        jobs += [(snap_job, (sc, k)) for k in list(range(sc.n)) + ["end"]]
        jobs += [(kill_job, (sc, k)) for k in range(sc.n)]
    for sc, what, k, okv in pool.map(lambda j: j[0](j[1]), jobs):
        chk.cov["evaluations"] += 1
        counts["snapshots" if what == "snapshot" else "kill_points"] += 1
        m = model.get(sc.sid)
        fmt_renames = [c.idx for c in sc.calls if c.name.startswith("rename") and c.p2.split("/")[-1].startswith("format") and c.ok]
        if m and what == "snapshot" and k != "end" and not (len(fmt_renames) > 1 and fmt_renames[0] < k <= fmt_renames[-1]):
            # (between the renames of several format files of one metaflush the model has a single flush step: those
            #  states belong to C12's prefix shape and, for this property, to the commit-to-metaflush window)
            j = sum(1 for ix in sc.idxs if ix < k)
            if j in m["P"] and bool(m["P"][j][0]) != okv:
                r = dict(sc.desc()); r.update({"kind": "model-vs-impl", "correspondence": "C14 consistency of (metadata, data) per prefix", "crash_point": k, "model_prefix": j})
                model_bad.append(("model/" + sc.op.split(":")[0], "before call %s of %s the real directory is %s but the model's prefix %d is %s" % (
                    k, sc.ops, "consistent" if okv else "inconsistent", j, "consistent" if m["P"][j][0] else "inconsistent"), r))

    # ---------------------------------------------------------------- fault injection
    def fault_job(a):
        sc, k, en = a
        w = sc.work("f%d_%s" % (k, en))
        if en == "SHORT":
            rc, out = shimlib.run_shim(shim, w, [exe, "run", os.path.join(w, "df")] + sc.ops, short=k, timeout=20)
        else:
            rc, out = shimlib.run_shim(shim, w, [exe, "run", os.path.join(w, "df")] + sc.ops, fail=(k, ERRNO[en]), timeout=20)
        h = parse_run(out)
        tr = shimlib.tree(os.path.join(w, "df"))
        v = view(w)
        outside = outside_state(w)
        shutil.rmtree(w, ignore_errors=True)
        return sc, k, en, rc, h, tr, v, outside, out
    fjobs = [(sc, k, en) for sc in good for k in range(sc.n) for en in errnos]
    # short writes (the call succeeds but transfers only part of the bytes) on every write call
    fjobs += [(sc, k, "SHORT") for sc in good for k in range(sc.n) if sc.calls[k].name in ("write", "pwrite") and sc.calls[k].arg >= 2]
    for sc, k, en, rc, h, tr, v, outside, raw in pool.map(fault_job, fjobs):
        counts["fault_runs"] += 1
        chk.cov["evaluations"] += 1
        call = sc.calls[k]
        counts["by_call"][call.name] = counts["by_call"].get(call.name, 0) + 1
        opn = sc.op.split(":")[0]
        extra = {"fault": {"call_index": k, "call": repr(call), "errno": en}, "output": raw[-500:]}
        debris = sorted(r for r in tr if is_data_tmp(r))
        if rc != 0 or not h["ops"]:
            counts["outcomes"]["crash"] = counts["outcomes"].get("crash", 0) + 1
            spec_fail(sc, coarse(opn, call.name, "crash", sc, call), "%s with %s at call %d (%s %s): the process died or hung (rc %d): %s" % (
                sc.ops, en, k, call.name, call.p1, rc, raw[-200:]), extra)
            continue
        o = h["ops"][-1]
        if len(h["ops"]) != len(sc.ops) or any(x["ret"] != 0 for x in h["ops"][:-1]):
            # the failing call hit a preparing operation: that operation is judged in its own scenario
            if outside != sc.outside:
                spec_fail(sc, "%s/outside-changed" % opn, "%s with %s at call %d: a file outside the dirfile changed" % (sc.ops, en, k), extra)
            continue
        nontriv.add((sc.sid, "fault", call.name, is_data_tmp(call.p1), o["ret"], o["invalid"], v == sc.old_view, v == sc.new_view, bool(debris)))
        kind = "ok" if o["ret"] == 0 else ("unclean" if o["ret"] == GD_E_UNCLEAN_DB else "error")
        counts["outcomes"][kind] = counts["outcomes"].get(kind, 0) + 1
        if outside != sc.outside:
            spec_fail(sc, "%s/outside-changed" % opn, "%s with %s at call %d: a file outside the dirfile changed" % (sc.ops, en, k), extra)
        lost = file_level(sc, tr)
        if lost:
            spec_fail(sc, coarse(opn, call.name, "data-copy-lost"), "%s with %s at call %d (%s): no complete copy of the data of %s is left" % (sc.ops, en, k, call.name, lost), extra)
        if kind == "unclean":
            committing = (call.name.startswith("rename") or call.name.startswith("unlink")) and sc.w0 is not None and k >= sc.w0
            if not o["invalid"]:
                spec_fail(sc, "%s/unclean-but-valid" % opn, "GD_E_UNCLEAN_DB returned but the handle is not invalidated", extra)
            if not committing:
                spec_fail(sc, coarse(opn, call.name, "unclean-outside-commit"), "%s: GD_E_UNCLEAN_DB for a failing %s that is not a rename/unlink of the commit phase" % (sc.ops, call.name), extra)
            continue
        if kind == "error":
            if o["invalid"]:
                spec_fail(sc, coarse(opn, call.name, "handle-invalid"), "%s: ordinary error %d but the handle was invalidated" % (sc.ops, o["ret"]), extra)
            if debris and not (call.name.startswith("unlink") and is_data_tmp(call.p1)):
                # (when the failing call IS the removal of the temporary file nothing can remove it)
                spec_fail(sc, coarse(opn, call.name, "debris", sc), "%s with %s at call %d (%s %s): returned error %d and left %s" % (
                    sc.ops, en, k, call.name, call.p1, o["ret"], debris), extra)
            # (when the failing call is the finalising of a pending out-of-place write, the appended data are
            #  abandoned with the error: the view is then the one before the preparing operations)
            if v not in (sc.base_view, sc.old_view):
                spec_fail(sc, coarse(opn, call.name, "old-data-not-intact"), "%s with %s at call %d (%s %s): returned error %d but a fresh open no longer sees the old data" % (
                    sc.ops, en, k, call.name, call.p1, o["ret"]), dict(extra, seen=v[:1200]))
            if any((" err " in l and not re.search(r" err 0( |$)", l)) for l in h["H"] if " field " in l):
                spec_fail(sc, coarse(opn, call.name, "handle-unusable"), "%s: after the failed call the same handle cannot read its fields: %s" % (sc.ops, [l for l in h["H"] if " field " in l][:2]), extra)
            continue
        # the operation itself succeeded
        if debris:
            spec_fail(sc, coarse(opn, call.name, "debris", sc), "%s with %s at call %d (%s %s): success but %s left" % (sc.ops, en, k, call.name, call.p1, debris), extra)
        if v not in (sc.new_view,):
            if h["close"] != 0 and sc.w0 is not None and k > sc.w0:
                known_hit(sc, k_window(sc.op), "%s succeeded, the following gd_close failed (%s at %s): data files are new, metadata old" % (sc.ops, en, call.name), extra)
            elif v in (sc.old_view, sc.base_view) and h["close"] != 0:
                pass
            else:
                spec_fail(sc, coarse(opn, call.name, "success-but-not-new"), "%s with %s at call %d (%s %s): op ret 0, close %s, but a fresh open does not see the new data" % (
                    sc.ops, en, k, call.name, call.p1, h["close"]), dict(extra, seen=v[:1200]))

    # ---------------------------------------------------------------- double faults (sampled; judged by the property text only)
    def dfault_job(a):
        sc, k1, k2, e1, e2, uniq = a
        w = sc.work("d%d" % uniq)
        logp = w + ".log"
        rc, out = shimlib.run_shim(shim, w, [exe, "run", os.path.join(w, "df")] + sc.ops, log=logp,
                                   fail=[(k1, ERRNO[e1]), (k2, ERRNO[e2])], timeout=20)
        h = parse_run(out)
        tr = shimlib.tree(os.path.join(w, "df"))
        v = view(w)
        outside = outside_state(w)
        calls = shimlib.read_log(logp)
        shutil.rmtree(w, ignore_errors=True)
        try:
            os.unlink(logp)
        except OSError:
            pass
        return sc, rc, h, tr, v, outside, out, [c for c in calls if c.note == "INJECT"]
    djobs = []
    for sc in good:
        if sc.n < 4:
            continue
        for _ in range(8 if not chk.thorough else 40):
            k1 = rng.randrange(sc.n - 1)
            djobs.append((sc, k1, rng.randrange(k1 + 1, sc.n + 2), rng.choice(errnos), rng.choice(errnos), len(djobs)))
    # deterministic witness of the listed double-fault finding: write and close of the same temporary file fail
    for sc in good:
        if sc.ops == ["typ:a:0x24:2"]:
            kw = next((c.idx for c in sc.calls if c.name == "write" and is_data_tmp(c.p1)), None)
            kc = next((c.idx for c in sc.calls if c.name == "close" and is_data_tmp(c.p1)), None)
            if kw is not None and kc is not None:
                # after the failed write the conversion stops: the close of the temporary file is the next call
                djobs.append((sc, kw, kw + 1, "EIO", "EIO", len(djobs)))
    for sc, rc, h, tr, v, outside, raw, failed in pool.map(dfault_job, djobs):
        counts["double_fault_runs"] = counts.get("double_fault_runs", 0) + 1
        chk.cov["evaluations"] += 1
        opn = sc.op.split(":")[0]
        extra = {"failed_calls": [repr(c) for c in failed], "output": raw[-400:]}
        if rc != 0 or not h["ops"]:
            spec_fail(sc, "%s/double-fault/crash" % opn, "%s with failing calls %s: the process died or hung (rc %d): %s" % (sc.ops, [repr(c) for c in failed], rc, raw[-200:]), extra)
            continue
        o = h["ops"][-1]
        if len(h["ops"]) != len(sc.ops) or any(x["ret"] != 0 for x in h["ops"][:-1]):
            continue
        nontriv.add((sc.sid, "double", tuple(c.name for c in failed), o["ret"], o["invalid"], v == sc.old_view, v == sc.new_view))
        if outside != sc.outside:
            spec_fail(sc, "%s/outside-changed" % opn, "%s with failing calls %s: a file outside the dirfile changed" % (sc.ops, [repr(c) for c in failed]), extra)
        lost = file_level(sc, tr)
        if lost:
            spec_fail(sc, "%s/double-fault/data-copy-lost" % opn, "%s with failing calls %s: no complete copy of the data of %s is left" % (sc.ops, [repr(c) for c in failed], lost), extra)
        if o["ret"] == GD_E_UNCLEAN_DB:
            if not any((c.name.startswith("rename") or c.name.startswith("unlink")) and not c.p2.split("/")[-1].startswith("format") for c in failed):
                spec_fail(sc, "%s/double-fault/unclean-outside-commit" % opn, "%s: GD_E_UNCLEAN_DB although no rename/unlink of a data file failed (%s)" % (sc.ops, [repr(c) for c in failed]), extra)
        elif o["ret"] != 0:
            unl = any(c.name.startswith("unlink") for c in failed)
            if v not in (sc.base_view, sc.old_view):
                spec_fail(sc, "%s/double-fault/old-data-not-intact" % opn, "%s with failing calls %s: ordinary error %d but a fresh open no longer sees the old data" % (sc.ops, [repr(c) for c in failed], o["ret"]), dict(extra, seen=v[:800]))
            if sorted(r for r in tr if is_data_tmp(r)) and not unl:
                spec_fail(sc, K_DCLOSE if any(c.name == "close" and is_data_tmp(c.p1) for c in failed) else "%s/double-fault/debris" % opn, "%s with failing calls %s: error %d and temporary files left although no unlink failed" % (sc.ops, [repr(c) for c in failed], o["ret"]), extra)
        elif h["close"] == 0 and v != sc.new_view:
            spec_fail(sc, "%s/double-fault/success-but-not-new" % opn, "%s with failing calls %s: op and close report success but a fresh open does not see the new data" % (sc.ops, [repr(c) for c in failed]), dict(extra, seen=v[:800]))

    # ---------------------------------------------------------------- known: out-of-place write, read through the same handle, close
    w = os.path.join(base, "oopread"); os.makedirs(w); make_template(os.path.join(w, "p"), "gzip")
    v0 = view(os.path.join(w, "p"))
    rc, out = vlib.sh([exe, "run", os.path.join(w, "p", "df"), "put:a:20:2:500", "hread"], timeout=60)
    v1 = view(os.path.join(w, "p"))
    chk.cov["evaluations"] += 1
    ma = re.search(r"R field a .* eof (\d+)", v1)
    if rc == 0 and ma and int(ma.group(1)) not in (40, 44):
        dsc = {"base_encoding": "gzip", "operations": ["put:a:20:2:500", "hread (gd_getdata of every field through the same handle)", "gd_close"],
               "how": "harness/C14/rep run DIR/df put:a:20:2:500 hread ; harness/C14/rep read DIR/df", "kind": "impl-vs-spec", "seen": v1[:800]}
        if not chk.violation(K_OOPREAD, "gzip field a (40 samples): append 2 frames, read the field through the same handle, gd_close -> the data file now holds %s samples (neither the old 40 nor the new 44)" % ma.group(1), dsc):
            pass

    # ---------------------------------------------------------------- GD_TRUNC / GD_TRUNCSUB
    for sub in (0, 1):
        w = os.path.join(base, "trunc%d" % sub); p = os.path.join(w, "p"); os.makedirs(w); make_template(p, "none")
        d = os.path.join(p, "df")
        os.makedirs(os.path.join(d, "sub", "deep")); open(os.path.join(d, "sub", "deep", "x"), "w").write("x")
        os.symlink("../../odir", os.path.join(d, "sub", "link_dir2"))
        out0 = outside_state(p)
        before = shimlib.tree(d); dirs_before = shimlib.dirs_of(d)
        logp = os.path.join(w, "log")
        rc, out = shimlib.run_shim(shim, p, [exe, "trunc", d, "sub" if sub else "plain"], log=logp)
        chk.cov["evaluations"] += 1
        calls = shimlib.read_log(logp)
        removed = sorted((c.p1[3:], "r" if (c.arg & 0x200) else "f") for c in calls if c.name.startswith("unlink") and c.ok)
        after = shimlib.tree(d)
        # the model on the same tree
        ids = {}

        def nid(name):
            if name == "format":
                return 0
            return ids.setdefault(name, len(ids) + 1)

        def enc_tree(path):
            s = ["("]
            for e in sorted(os.listdir(path)):
                fp = os.path.join(path, e)
                s.append(str(nid(os.path.relpath(fp, d))))
                if os.path.islink(fp):
                    s.append("L")
                elif os.path.isdir(fp):
                    s += enc_tree(fp)
                else:
                    s.append("F")
            return s + [")"]
        w2 = os.path.join(base, "trunctree%d" % sub); make_template(os.path.join(w2, "p"), "none")
        d2 = os.path.join(w2, "p", "df")
        os.makedirs(os.path.join(d2, "sub", "deep")); open(os.path.join(d2, "sub", "deep", "x"), "w").write("x")
        os.symlink("../../odir", os.path.join(d2, "sub", "link_dir2"))
        save_d = d
        d = d2
        line = "D %d %s\n" % (sub, " ".join(enc_tree(d2)))
        d = save_d
        rcm, mo = vlib.sh([drv], inp=line.encode(), timeout=60)
        rev = {v_: k_ for k_, v_ in ids.items()}
        want = []
        for t in mo.split()[1:]:
            pth, kind = t.rsplit(":", 1)
            want.append((rev.get(int(pth.split("/")[-1]), "?"), kind))
        if outside_state(p) != out0:
            spec_bad.append(("trunc/outside-changed", "gd_open(GD_TRUNC%s) changed a file outside the dirfile (through a symbolic link?)" % ("|GD_TRUNCSUB" if sub else ""),
                             {"kind": "impl-vs-spec", "flags": "GD_TRUNC" + ("|GD_TRUNCSUB" if sub else ""), "removed": removed}))
        if any(os.path.islink(os.path.join(d, x)) for x in ("link_out", "link_dir")):
            spec_bad.append(("trunc/link-kept", "gd_open(GD_TRUNC) did not remove a symbolic link in the dirfile directory", {"kind": "impl-vs-spec"}))
        if not sub and [r for r, _ in removed if "/" in r]:
            spec_bad.append(("trunc/descended", "GD_TRUNC without GD_TRUNCSUB removed %s" % [r for r, _ in removed if "/" in r], {"kind": "impl-vs-spec"}))
        if sorted(want) != removed:
            model_bad.append(("model/trunc", "GD_TRUNC%s removes %s, the model of _GD_TruncDir %s" % ("|GD_TRUNCSUB" if sub else "", removed, sorted(want)),
                              {"kind": "model-vs-impl", "correspondence": "C14 trunc_dir", "real": removed, "model": sorted(want)}))
        nontriv.add(("trunc", sub, tuple(removed)))

    # ---------------------------------------------------------------- verdicts
    chk.cov["distinct_nontrivial"] = len(nontriv)
    chk.cov["rule"] = ("%d scenarios (alter_encoding none<->gzip%s, alter_endianness one fragment / GD_ALL_FRAGMENTS, alter_frameoffset, rename / move / delete with data, "
                       "alter_raw with recode, closing an out-of-place gzip append) on a two-field fragment with a sub-directory fragment; for EVERY system call of "
                       "operation + gd_close: snapshot, SIGKILL, and failure with %s, each followed by a fresh open + full read; plus GD_TRUNC / GD_TRUNCSUB on a tree with "
                       "symbolic links; distinct = distinct (scenario, kind, call, outcome, views)") % (len(scs), ", bzip2" if chk.thorough else "", "/".join(errnos))
    chk.cov["distribution"] = counts
    for sc in good[:3]:
        chk.sample({"scenario": sc.desc(), "calls": sc.n, "window": [sc.w0, sc.w1], "trace": merge(getattr(sc, "toks", []))})
    if os.environ.get("C14_TRIAGE"):
        agg = {}
        for key, desc, rep in spec_bad:
            agg.setdefault(key, []).append(desc)
        for key, l in sorted(agg.items()):
            print("TRIAGE %s x%d: %s" % (key, len(l), l[0][:260]))
    found_any = False
    seen = set()
    for key, hits in known.items():
        desc, rep = hits[0]
        rep["occurrences"] = len(hits)
        if chk.violation(key, desc + " (%d such states/runs)" % len(hits), rep):
            found_any = True
    for key, desc, rep in spec_bad:
        if key in seen:
            continue
        seen.add(key)
        if chk.violation(key, desc, rep):
            found_any = True
    seen = set()
    for key, desc, rep in model_bad:
        if found_any or key in seen:
            continue
        seen.add(key)
        chk.violation(key, "correspondence broken: " + desc, rep, found=False)
    if trans_problems and not found_any:
        chk.violation("translator", "translator no longer recognises the two-phase replace protocol: " + "; ".join(trans_problems[:3]),
                      {"kind": "translator", "problems": trans_problems, "theorem": "replace_shape_recognised"}, found=False)
    if not proved and not found_any and not trans_problems:
        chk.violation("proof", "Properties_C14 does not check: " + getattr(chk, "proof_log", "")[-1200:],
                      {"kind": "proof", "theorem": "Properties_C14", "log": getattr(chk, "proof_log", "")[-4000:]}, found=False)
    return chk.finish()


if __name__ == "__main__":
    sys.exit(main())
