#!/usr/bin/env python3
"""C17 -- sequential access with I/O pointers equals random access.

proof:   Properties_C17.v (pointer rules proved about `step` of coq/C02/Model.v, see coq/C17/IoPos.v)
tie:     the same correspondence machinery as C02 (checks/C02.py, harness/C02/gdhist.c, extracted
         model ocaml/C02/driver): histories rich in gd_seek/gd_tell/GD_HERE/close, compared call
         by call with the model; translate/tr_c02cfg.py gives the repair flags
search:  every gd_tell/gd_seek result and every GD_HERE read is judged against the documented
         pointer rules (gd_seek(3), gd_getdata(3), gd_raw_close(3)) kept by class Ptr below;
         writes: gd_putdata at GD_HERE after gd_seek(GD_SEEK_WRITE) vs the absolute call on
         in-place encodings (spec only).
"""
import sys, os, json, shutil, importlib.util
sys.path.insert(0, os.path.join(os.path.dirname(os.path.abspath(__file__)), "..", "bin"))
import vlib
_spec = importlib.util.spec_from_file_location("C02", os.path.join(os.path.dirname(os.path.abspath(__file__)), "C02.py"))
C = importlib.util.module_from_spec(_spec); _spec.loader.exec_module(C)

PHASE_KEY = "C17/phase/pointer-shift-applied-with-wrong-sign"


class Ptr:
    """documented pointer rules; conv=+1: a PHASE field at p has its input at p+shift (what reads
    do); conv=-1: the convention _GD_GetIOPos/_GD_Seek actually use"""

    def __init__(self, case, conv=1, judge_shifted=False):
        self.sp = C.Spec(case); self.conv = conv; self.judge_shifted = judge_shifted
        self.ptr = {r: self.sp.foff for r in self.sp.raw}
        self.lookback = 10        # GD_DEFAULT_LOOKBACK

    def kinds(self, f):
        sp = self.sp
        if f in sp.raw: return set()
        g = sp.der[f]; kd = g["kind"]
        ins = [g["a"], g["b"]] if kd == "M" else [g["in"], g["cnt"]] if kd in "XW" else [g["in"]]
        return {kd}.union(*[self.kinds(x) for x in ins])

    def minpos(self, f, p):
        """smallest position any field on the way down is asked to take (the code rejects negatives)"""
        sp = self.sp
        if f in sp.raw: return p
        g = sp.der[f]; kd = g["kind"]
        if kd == "P": return min(p, self.minpos(g["in"], p + self.conv * g["shift"]))
        if kd in ("L", "B"): return min(p, self.minpos(g["in"], p))
        if kd == "M": return min(p, self.minpos(g["a"], p), self.minpos(g["b"], p))
        return p

    def tell(self, f):
        ps = set()
        for r, sh in self.sp.inputs(f):
            if self.ptr[r] is None: return None
            ps.add(self.ptr[r] - self.conv * sh)
        return ps.pop() if len(ps) == 1 else "DOMAIN"

    def judge(self, case, res):
        sp = self.sp; bad = []
        for i, (o, (tok, opn)) in enumerate(zip(case["ops"], res)):
            got = C.impl_canon(tok); k = o[0]; exp = None
            if k in "gst" and sp.shifted(o[1]) and not self.judge_shifted:
                # through a non-zero PHASE shift the documented convention and the code disagree
                # (listed finding, replayed separately): such calls only make the inputs' pointers unknown
                if k != "t" and not (k == "g" and o[3] == 0):
                    for r, sh in sp.inputs(o[1]): self.ptr[r] = None
            elif k == "g":
                f, st, n = o[1], o[2], o[3]
                s = st
                if st == "H":
                    p = self.tell(f)
                    s = None
                    if p == "DOMAIN": exp = "E %d" % C.E_DOMAIN
                    elif p is not None and p >= 0: s = p
                if s is not None and s >= 0:
                    w = sp.window(f, s, n)
                    # (an MPLEX read with a limited look-back may start with another value than the whole-field
                    # contents say: its values are C02's business under GD_LOOKBACK_ALL, its pointers are judged here)
                    if st == "H" and not (self.lookback != -1 and "X" in self.kinds(f)):
                        exp = ("D " + " ".join(str(v) for v in w)).strip()
                    if n > 0:
                        # gd_getdata(3): the pointer of the field -- of every RAW field it reads -- is left after the
                        # last sample returned, however many inputs the field has and whatever its values are
                        m = len(got.split()) - 1 if got.startswith("D") else 0
                        ins = sp.inputs(f)
                        once = len(set(r for r, _ in ins)) == len(set(ins))      # no RAW field read at two different shifts
                        for r, sh in ins:
                            self.ptr[r] = (s + sh + m) if (m > 0 and once and m == len(w)) else None
                elif n > 0 and exp is None:
                    for r, sh in sp.inputs(f): self.ptr[r] = None
            elif k == "s":
                f, off, w = o[1], o[2], o[3]
                base = 0 if w == "S" else self.tell(f) if w == "C" else sp.eof(f)
                if base == "DOMAIN": exp = "E %d" % C.E_DOMAIN
                elif base is None:
                    for r, sh in sp.inputs(f): self.ptr[r] = None
                else:
                    tgt = base + off
                    inr = all(sp.foff <= tgt + self.conv * sh <= sp.foff + len(sp.data[r]) for r, sh in sp.inputs(f))
                    if tgt >= 0 and inr and self.minpos(f, tgt) >= 0: exp = "P %d" % tgt
                    for r, sh in sp.inputs(f):
                        self.ptr[r] = (tgt + self.conv * sh) if (got == "P %d" % tgt and inr) else None
            elif k == "t":
                p = self.tell(o[1])
                if p == "DOMAIN": exp = "E %d" % C.E_DOMAIN
                elif p is not None: exp = "P %d" % p
            elif k in "cf":
                for r in (sp.raw if o[1] == "*" else [x for x, _ in sp.inputs(o[1])]): self.ptr[r] = sp.foff
            elif k == "k":
                self.lookback = o[1]
            if exp is not None and exp != got: bad.append((i, exp, got))
            if i > 0 and k not in "cfx":
                for r in sp.raw:
                    if res[i - 1][1].get(r) == "1" and opn.get(r) == "0": self.ptr[r] = sp.foff
        return bad


def gen_case(rng):
    case = C.gen_case(rng, encs=["none", "none", "gzip", "bzip2", "bzip2", "text", "lzma", "sie"])
    # more pointer traffic, no failing calls, positions inside the field
    sp = C.Spec(case)
    fields = [r["name"] for r in case["raws"]] + [f["name"] for f in case["derived"]]
    # under an open limit a two-input field may have one input auto-closed while the other is being
    # asked (time(NULL)-dependent, inside one call): no limit in histories with MULTIPLY fields
    ops = [o for o in case["ops"] if o[0] == "l" and not any(f["kind"] in "MXW" for f in case["derived"])]
    # MPLEX: every look-back setting (none, a few periods, the default, all); the pointers after a read do not
    # depend on whether the look-back found the count value, came back empty or was answered from the cache
    if any(f["kind"] == "X" for f in case["derived"]):
        lb = rng.choice([-1, -1, 0, 1, 3, 10, None])
        if lb is not None: ops.append(("k", lb))
    multi = [f["name"] for f in case["derived"] if f["kind"] in "MXW"]
    for _ in range(rng.randint(5, 40)):
        f = rng.choice(fields + multi); e = sp.eof(f); b = sp.bof(f); u = rng.random()
        inside = lambda: rng.randint(min(b, e), max(b, e))
        if u < 0.3:
            ops.append(("g", f, "H" if rng.random() < 0.6 else inside(), rng.choice([1, 2, 3, 8, 40]), "i64"))
            if f in multi and rng.random() < 0.7:
                # where is every input now, and the field itself
                for r in sorted(set(x for x, _ in sp.inputs(f))): ops.append(("t", r))
                ops.append(("t", f))
                if rng.random() < 0.5: ops.append(("g", f, "H", rng.choice([1, 2, 5]), "i64"))
        elif u < 0.6:
            w = rng.choice("SSSCE")
            ops.append(("s", f, inside() if w == "S" else rng.randint(-4, 4) if w == "C" else -rng.randint(0, 9), w))
        elif u < 0.85: ops.append(("t", f))
        else: ops.append((rng.choice("cf"), rng.choice([f, "*"])))
    case["ops"] = ops
    return case


PHASE_WITNESS = dict(enc="none", raws=[dict(name="a", type="UINT8", vals=list(range(200)))],
                     derived=[dict(name="p", kind="P", shift=2, **{"in": "a"})],
                     ops=[("g", "p", 10, 5, "i64"), ("t", "p"), ("g", "p", "H", 3, "i64")])


def put_here_cases(rng, n):
    """gd_seek(GD_SEEK_WRITE) + gd_putdata(GD_HERE) vs the absolute gd_putdata, raw encoding"""
    out = []
    for _ in range(n):
        ln = rng.randint(5, 80); at = rng.randint(0, ln + 6); k = rng.randint(1, 9)
        vals = [rng.randint(0, 255) for _ in range(k)]
        out.append((ln, at, vals))
    return out


OOP = ("gzip", "bzip2", "lzma")
QUERY_KEY = "C17/query/gd_eof-of-a-derived-field-resets-the-pointer-of-inputs-open-for-writing"


def gen_write_history(rng):
    """sequential vs random WRITES on every writable encoding: absolute gd_putdata (inside, at and past the end --
    a gap), write-mode gd_seek SET/CUR/END to every interesting position (beginning, old end, current end, where the
    pointer is, where an out-of-place encoding's read side was left, +-1, anywhere) followed by gd_tell (also of a
    LINCOM of the field), gd_putdata at GD_HERE and gd_tell; closes in between; finally close, reopen, gd_eof and
    read everything.  -> (case, [(harness line, expected answer or None)])
    Rules: gd_seek(3) (a write-mode seek returns and establishes the position asked; seek + put(HERE) = absolute put;
    past the end the out-of-place encodings pad at once, the in-place one when data are written), gd_putdata(3)
    (pointer after the last sample written; a gap is zero filled), gd_raw_close(3)."""
    enc = rng.choice(["none", "sie", "gzip", "bzip2", "lzma", "gzip", "bzip2", "lzma"])
    spf = rng.choice([1, 1, 2]); fo = rng.choice([0, 0, 2]); FO = fo * spf
    ln = rng.randint(4, 40)
    # a field declared in the format file whose data file does not exist yet: the first write creates it (for the
    # out-of-place encodings only the temporary write side is open until the first close)
    nofile = rng.random() < 0.2
    if nofile: ln = 0
    base = [(7 * k) % 251 for k in range(ln)]
    data = list(base)        # samples from FO on
    ptr = FO                 # the field's I/O pointer by the rules
    steps = []; after_query = set()
    nv = [0]; wrote = False

    def vals(k):
        nv[0] += 1
        return [(100 + 10 * nv[0] + j) % 256 for j in range(k)]

    def put(at_abs, vs):
        j = at_abs - FO
        if j > len(data): data.extend([0] * (j - len(data)))
        data[j:j + len(vs)] = vs
    for step_no in range(rng.randint(2, 7)):
        eof = FO + len(data)
        u = rng.random()
        if nofile and not wrote: u = 0.0          # nothing can be asked of a field without a data file before it is written
        elif nofile and step_no == 1: u = 0.9     # ... and straight after the first write: a query
        cand = [FO, eof, eof - 1, eof + 1, ptr, ptr - 1, ptr + 1, FO + ln, FO + ln - 1, FO + ln + 1, rng.randint(FO, eof + 6), rng.randint(FO, eof)]
        t = max(FO, rng.choice(cand))
        k = rng.randint(1, 6)
        if u < 0.35:
            vs = vals(k)
            steps.append(("p a %d %d u8 %s" % (t, k, " ".join(map(str, vs))), "p %d 0" % k)); put(t, vs); ptr = t + k; wrote = True
            steps.append(("t a", "t %d 0" % ptr))
        elif u < 0.85:
            if enc == "sie": t = min(t, eof)      # what a .sie file holds after a write-mode seek past its end is C18's business
            w = rng.choice("SSSCE")
            off = t if w == "S" else t - ptr if w == "C" else t - eof
            steps.append(("s a %d %s 1" % (off, w), "s %d 0" % t)); ptr = t; wrote = True
            if enc in OOP and t - FO > len(data): data.extend([0] * (t - FO - len(data)))
            steps.append(("t a", "t %d 0" % ptr))
            if rng.random() < 0.3: steps.append(("t l", "t %d 0" % ptr))
            # (.sie: a write-mode seek to the very end that no write follows leaves a placeholder record -- C18's finding)
            if rng.random() < 0.8 or (enc == "sie" and t == eof):
                vs = vals(k)
                steps.append(("p a H %d u8 %s" % (k, " ".join(map(str, vs))), "p %d 0" % k)); put(t, vs); ptr = t + k
                steps.append(("t a", "t %d 0" % ptr))
        elif u < 0.93:
            # a query (gd_eof, gd_nframes) in the middle of the writes: it reports the data written so far
            # and leaves the pointer alone
            q = rng.random()
            if q < 0.4: steps.append(("e a", "e %d 0" % eof))
            elif q < 0.7: steps.append(("n", "n %d 0" % (fo + len(data) // spf)))
            else: steps.append(("e l", "e %d 0" % eof))        # the same question through a derived field
            steps.append(("t a", "t %d 0" % ptr)); after_query.add(len(steps) - 1)
        else:
            steps.append((rng.choice(["c a", "f a"]), None)); ptr = FO
            steps.append(("t a", "t %d 0" % ptr))
    full = [0] * FO + data
    steps.append(("X", None))
    steps.append(("e a", "e %d 0" % len(full)))
    steps.append(("g a 0 %d u8" % (len(full) + 20), ("g %d 0 %s" % (len(full), " ".join(map(str, full)))).strip()))
    case = dict(enc=enc, spf=spf, foff=fo, raws=[dict(name="a", type="UINT8", vals=base)],
                derived=[dict(name="l", kind="L", m=1, b=0, **{"in": "a"})], ops=[], after_query=sorted(after_query), nofile=nofile)
    return case, steps


def run_write_history(exe, d, case, steps):
    """-> None or (step index, call, expected, got), and the answers"""
    C.make_dirfile(d, case)
    if case.get("nofile"): os.unlink(os.path.join(d, "a" + C.EXT[case["enc"]]))
    rc, out = vlib.sh([exe, d], inp=("\n".join(["o 1"] + [s for s, _ in steps]) + "\n").encode(), timeout=20)
    lines = out.strip().split("\n")[1:]
    FO = case["foff"] * case["spf"]
    for i, ((s, exp), got) in enumerate(zip(steps, lines)):
        if exp is not None and got.strip() != exp:
            if i in case["after_query"] and got.strip() == "t %d 0" % FO and steps[i - 1][1] == lines[i - 1].strip() and steps[i - 1][0] == "e l":
                # the listed finding: the query answered correctly but sent the pointer back to the beginning
                return (i, steps[i - 1][0] + "; " + s, exp, got.strip(), QUERY_KEY), lines
            return (i, s, exp, got.strip()), lines
    if len(lines) != len(steps): return (len(lines), "-", "an answer", "process died rc=%s %s" % (rc, out[-200:].replace("\n", " "))), lines
    return None, lines


def main():
    chk = vlib.Check("C17")
    C.load_staged_known(chk)
    rng = chk.rng
    rc, cfg, trans_problems = C.read_cfg()
    proved = chk.prove("Properties_C17", extra_targets=["Gen/C02Cfg.vo"])
    chk.cov["trusted_base"] += [
        "Coq 8.16.1 kernel, vm_compute",
        "model: step of coq/C02/Model.v (get_iopos, seek_field, do_field GD_HERE, close_field) hand-written from iopos.c/getdata.c/flush.c; validated on every run",
        "pointer-rule oracle: class Ptr in checks/C17.py (gd_seek(3)/gd_getdata(3)/gd_raw_close(3)); harness harness/C02/gdhist.c; H1 buffers of 64 bytes",
        "translate/tr_c02cfg.py; extraction ExtrOcamlBasic; ocaml/C02/driver.ml",
    ]
    chk.assumptions += ["gd_putdata and the out-of-place encodings' second pointer are outside the Coq model (spec comparison on the raw encoding only)",
                        "LRU auto-close is taken from the harness as events, as in C02"]
    try:
        exe = C.harness("")
        ok, log = vlib.coq_make(["Gen/C02Cfg.vo", "C02/Model.vo"])
        drv = vlib.build_ocaml_driver("C02", "C02/Extract.v", "ocaml/C02/driver.ml") if ok else None
    except vlib.BuildError as e:
        chk.violation("build", "build failed: " + str(e)[:2000], {"kind": "build", "log": str(e)}, found=False)
        return chk.finish()
    if drv is None:
        chk.violation("model-build", "Coq model does not compile: " + log[-1500:], {"kind": "model-build"}, found=False)
        return chk.finish()
    work = vlib.scratch("C17-")
    for fn in os.listdir(os.path.join(C.V, "replay", "C17")):
        os.unlink(os.path.join(C.V, "replay", "C17", fn))
    found_any = False

    # 1. witness of the listed finding
    d = os.path.join(work, "w"); C.make_dirfile(d, PHASE_WITNESS)
    _, _, res = C.run_impl(exe, d, PHASE_WITNESS)
    bad = []
    want = ["D 12 13 14 15 16", "P 15", "D 17 18 19"]
    for i, (w_, (tok, _)) in enumerate(zip(want, res)):
        if C.impl_canon(tok) != w_: bad.append((i, w_, C.impl_canon(tok)))
    if bad:
        i, exp, got = bad[0]; found_any = True
        chk.violation(PHASE_KEY, "%s: after reading p=PHASE(a,+2) at [10,15): op %d %s gives %s, the pointer rule says %s" % (
            PHASE_KEY, i, PHASE_WITNESS["ops"][i], got, exp), {"kind": "impl-vs-spec", "case": PHASE_WITNESS, "op_index": i, "expected": exp, "got": got})

    # 2. histories
    ncases = 1500 if not chk.thorough else 25000
    cases = [gen_case(rng) for _ in range(ncases)]
    from concurrent.futures import ThreadPoolExecutor

    def run_one(ic):
        i, case = ic
        dd = os.path.join(work, "c%d" % i); C.make_dirfile(dd, case)
        r = C.run_impl(exe, dd, case); shutil.rmtree(dd, ignore_errors=True); return r
    with ThreadPoolExecutor(max_workers=vlib.NPROC) as ex:
        results = list(ex.map(run_one, enumerate(cases)))
    evals = 0; nontriv = set(); inmodel = []; spec_bad = []
    for case, (rc1, out, res) in zip(cases, results):
        if len(res) != len(case["ops"]):
            spec_bad.append((case, res, [(len(res), "an answer", "process died rc=%d %s" % (rc1, out[-150:].replace("\n", " ")))])); continue
        evals += len(res)
        if any(o[0] in "st" or (o[0] == "g" and o[2] == "H") for o in case["ops"]): nontriv.add(json.dumps(case, sort_keys=True))
        bad = Ptr(case, judge_shifted=bool(cfg.get("fix_phase_sign"))).judge(case, res)
        if bad: spec_bad.append((case, res, bad))
        if C.in_model(case): inmodel.append((case, res))
    mouts, maps = C.model_outputs(drv, inmodel, cfg, True)
    mouts0, _ = C.model_outputs(drv, inmodel, cfg, False)
    model_bad = []
    for (case, res), mo, mo0, opmap in zip(inmodel, mouts, mouts0, maps):
        dm = C.compare_model(case, res, mo, opmap)
        if dm is not None and not (case["enc"] == "bzip2" and C.compare_model(case, res, mo0, opmap) is None):
            model_bad.append((case, res, dm))

    # 3. writes: seek(WRITE) + put(HERE) == seek(WRITE); seek(CUR|WRITE); put(HERE) == put(absolute), and the
    #    pointer reported before and after, on every writable encoding, with and without a frame offset
    #    (out-of-place encodings keep the write position in the temporary file)
    nput = 0
    for ln, at0, vals in put_here_cases(rng, 40 if not chk.thorough else 400):
        enc = rng.choice(["none", "none", "sie", "gzip", "bzip2", "lzma"])
        spf = rng.choice([1, 1, 2]); fo = rng.choice([0, 0, 2, 3]); FO = fo * spf
        at = FO + min(at0, ln)          # inside the field or at its end (past the end is encoding specific)
        base = [(7 * k) % 251 for k in range(ln)]
        outs = {}
        for variant in ("here", "cur", "abs"):
            case = dict(enc=enc, spf=spf, foff=fo, raws=[dict(name="a", type="UINT8", vals=base)], ops=[])
            dd = os.path.join(work, "p"); C.make_dirfile(dd, case)
            ops = ["o 1"]
            pv = "%d u8 %s" % (len(vals), " ".join(map(str, vals)))
            if variant == "here": ops += ["s a %d S 1" % at, "t a", "p a H " + pv, "t a"]
            elif variant == "cur": ops += ["s a %d S 1" % max(FO, at - 1), "s a %d C 1" % (at - max(FO, at - 1)), "p a H " + pv, "t a"]
            else: ops += ["p a %d %s" % (at, pv), "t a"]
            ops += ["X", "g a 0 %d u8" % (FO + ln + 20)]
            rcp, outp = vlib.sh([exe, dd], inp=("\n".join(ops) + "\n").encode(), timeout=20)
            outs[variant] = outp.strip().split("\n")
        nput += 1; evals += 3
        expd = [0] * FO + list(base)
        expd[at:at + len(vals)] = vals
        want = "g %d 0 %s" % (len(expd), " ".join(map(str, expd)))
        here, cur, ab = outs["here"], outs["cur"], outs["abs"]
        ok = (here[-1].strip() == want and ab[-1].strip() == want and cur[-1].strip() == want and len(here) > 4 and len(cur) > 4 and len(ab) > 2
              and here[1] == "s %d 0" % at and here[2] == "t %d 0" % at and here[4] == "t %d 0" % (at + len(vals))
              and cur[2] == "s %d 0" % at and cur[4] == "t %d 0" % (at + len(vals)) and ab[2] == "t %d 0" % (at + len(vals)))
        if not ok:
            found_any = True
            chk.violation("C17/put-here/%s" % enc, "%s spf %d frameoffset %d: seek(WRITE %d)+put(HERE) / seek+seek(CUR)+put(HERE) / put(%d) of %s on %d samples: here=%s cur=%s abs=%s want=%s" % (
                enc, spf, fo, at, at, vals, ln, here[1:5], cur[1:5], ab[1:3], want[:60]),
                {"kind": "impl-vs-spec", "enc": enc, "spf": spf, "frameoffset": fo, "len": ln, "at": at, "vals": vals, "here": here, "cur": cur, "abs": ab, "want": want})
            break

    # 3b. write histories: gaps, write-mode seeks back to every interesting position, GD_HERE writes, on all encodings
    nwh = 0; wh_bad = None; wh_known = None
    for it in range(250 if not chk.thorough else 5000):
        case, steps = gen_write_history(rng)
        bw, lines = run_write_history(exe, os.path.join(work, "wh"), case, steps)
        nwh += 1; evals += len(lines)
        if bw and len(bw) == 5:
            if wh_known is None: wh_known = (case, steps, bw[:4], lines)
        elif bw and wh_bad is None: wh_bad = (case, steps, bw, lines)
    chk.cov["write_histories"] = nwh
    for key, wb in ((QUERY_KEY, wh_known), (None, wh_bad)):
        if not wb: continue
        case, steps, (i, call, exp, got), lines = wb
        found_any = found_any or key is None
        chk.violation(key or "C17/write-history/%s" % case["enc"], "%s spf %d frameoffset %d, %d samples: after %s the call `%s` answers `%s`, the pointer rules say `%s`" % (
            case["enc"], case["spf"], case["foff"], len(case["raws"][0]["vals"]), [s_ for s_, _ in steps[:i]], call, got[:100], exp[:100]),
            {"kind": "impl-vs-spec", "case": case, "calls": ["o 1"] + [s_ for s_, _ in steps[:i + 1]], "answers": lines[:i + 1], "expected": exp, "got": got,
             "how": "checks/C02.py make_dirfile(case) + harness/C02/gdhist.c fed with `calls`"})

    # 4. write then read through the same handle, close, reopen, compare (out-of-place encodings keep
    #    the read and the write position in different files)
    OOP_KEY = "C17/oop/read-while-write-in-progress-drops-samples"
    noop = 0
    for it in range(12 if not chk.thorough else 120):
        ln = rng.randint(20, 150); at = rng.randint(0, ln - 1); k = rng.randint(1, 6)
        vals = [200 + j for j in range(k)]
        rs = rng.randint(0, ln - 1); rn = rng.randint(1, 12)
        for enc in ("none", "gzip", "bzip2", "lzma", "sie"):
            base = [(7 * j) % 199 for j in range(ln)]
            case = dict(enc=enc, raws=[dict(name="a", type="UINT8", vals=base)], ops=[])
            dd = os.path.join(work, "o"); C.make_dirfile(dd, case)
            ops = ["o 1", "p a %d %d u8 %s" % (at, k, " ".join(map(str, vals))), "g a %d %d u8" % (rs, rn), "x", "g a 0 %d u8" % (ln + 20)]
            rcp, outp = vlib.sh([exe, dd], inp=("\n".join(ops) + "\n").encode(), timeout=20)
            lines = outp.strip().split("\n")
            expd = list(base); expd[at:at + k] = vals
            w_read = "g %d 0 %s" % (len(expd[rs:rs + rn]), " ".join(map(str, expd[rs:rs + rn])))
            w_all = "g %d 0 %s" % (len(expd), " ".join(map(str, expd)))
            noop += 1; evals += 1
            if len(lines) < 5 or lines[2].strip() != w_read.strip() or lines[4].strip() != w_all.strip():
                found_any = True
                chk.violation(OOP_KEY if enc in ("gzip", "bzip2", "lzma") else "C17/write-read-close/" + enc,
                              "%s: putdata(a,%d,%s); getdata(a,%d,%d); close; reopen: read gave %s (want %s), file afterwards %s (want %s)" % (
                                  enc, at, vals, rs, rn, lines[2][:60] if len(lines) > 2 else "-", w_read[:60], lines[-1][:80], w_all[:80]),
                              {"kind": "impl-vs-spec", "enc": enc, "len": ln, "put_at": at, "vals": vals, "read": [rs, rn], "got": lines, "want_after": w_all})
                break
    chk.cov["write_read_close_histories"] = noop
    chk.cov["evaluations"] = evals
    chk.cov["distinct_nontrivial"] = len(nontriv)
    chk.cov["histories"] = len(cases); chk.cov["histories_in_model_scope"] = len(inmodel); chk.cov["put_here_pairs"] = nput
    chk.cov["rule"] = ("histories of 5-40 calls dominated by gd_seek SET/CUR/END to positions inside the field, gd_tell, GD_HERE reads, raw_close/flush, "
                       "open_limit, over RAW + PHASE/LINCOM/BIT/MULTIPLY sharing inputs, encodings none/gzip/bzip2/text (model+spec), lzma/sie (spec); "
                       "plus seek(WRITE)+put(HERE) vs absolute put on the raw encoding; non-trivial = distinct history with a seek, tell or GD_HERE read")
    for c in cases[:3]:
        chk.sample({"enc": c["enc"], "foff": c["foff"], "derived": c["derived"], "ops": c["ops"][:8]})

    reported = set()
    for case, res, bad in spec_bad:
        i, exp, got = bad[0]
        key = None
        if len(res) == len(case["ops"]):
            # a consequence of the PHASE sign defect?  judge again with the code's convention
            b2 = Ptr(case, conv=-1).judge(case, res)
            if any(f["kind"] == "P" and f["shift"] for f in case["derived"]) and not [b for b in b2 if b[0] <= i]:
                key = PHASE_KEY
            elif C.in_model(case, strict=False):
                # a consequence of one of C02's cursor defects?  the model under repair flags tells
                off = [f for f in C.FLAGS if not cfg.get(f) and f != "fix_phase_sign"]      # (the PHASE sign is judged above, by convention)
                for fls in [[f] for f in off] + [[f for f in off if f.startswith("fix_bz")], off]:
                    if not fls: continue
                    fl = fls[0]
                    (mo,), (opmap,) = C.model_outputs(drv, [(case, res)], dict(cfg, **{f: True for f in fls}), True)
                    mi = {opmap[j]: mo[j] for j in range(min(len(opmap), len(mo))) if opmap[j] is not None}
                    m0 = mi.get(i, "").split(" #")[0].strip()
                    if m0 == exp: key = "C17/via-" + C.KEYS[fl]; break
        if key is None:
            key = "C17/unclassified/%s/%s" % (case["enc"], case["ops"][i][0] if i < len(case["ops"]) else "end")
        if key in reported: continue
        reported.add(key); found_any = True
        chk.violation(key, "%s: history op %d %s: implementation %s, pointer rules say %s" % (key, i, case["ops"][i] if i < len(case["ops"]) else "", got[:100], exp[:100]),
                      {"kind": "impl-vs-spec", "case": case, "op_index": i, "expected": exp, "got": got})
    sb = {id(c): b for c, _, b in spec_bad}
    for case, res, (i, m0, got) in model_bad[:3]:
        if id(case) in sb and sb[id(case)][0][0] <= i: continue
        chk.violation("model/%s/%s" % (case["enc"], case["ops"][i][0]),
                      "correspondence broken: op %d %s: implementation %s, model %s" % (i, case["ops"][i], got[:100], m0[:100]),
                      {"kind": "model-vs-impl", "case": case, "op_index": i, "impl": got, "model": m0}, found=False)
    if trans_problems and not found_any:
        chk.violation("translator", "tr_c02cfg.py cannot recognise the code: " + "; ".join(trans_problems[:3]), {"kind": "translator"}, found=False)
    if not proved and not found_any:
        chk.violation("proof", "Properties_C17 does not check: " + getattr(chk, "proof_log", "")[-1200:], {"kind": "proof"}, found=False)
    return chk.finish()


if __name__ == "__main__":
    sys.exit(main())
