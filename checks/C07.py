#!/usr/bin/env python3
"""C07 -- metadata survive a flush and reopen unchanged.

proof:   Properties_C07.v (escape/tokenise round trip for every byte string,
         integer parameters, entry round trips, digit obligation over the
         printf table regenerated from src/flush.c, version gates)
tie:     translator tr_formats.py + generated databases: the C harness builds a
         dirfile through the API, gd_metaflush, dumps the fragment text and an
         observer snapshot, reopens (plain and GD_PEDANTIC) and dumps again;
         (a) snapshot before == after            (the property itself)
         (b) fragment text == extracted print_entry (writer model vs writer)
         (c) extracted parse_line of the text == what the library read back
"""
import sys, os, json, struct, re
sys.path.insert(0, os.path.join(os.path.dirname(os.path.abspath(__file__)), "..", "bin"))
import vlib

V = vlib.VERIF
TYPES = {"UINT8": 0x01, "INT8": 0x21, "UINT16": 0x02, "INT16": 0x22, "UINT32": 0x04, "INT32": 0x24,
         "UINT64": 0x08, "INT64": 0x28, "FLOAT32": 0x84, "FLOAT64": 0x88, "COMPLEX64": 0x108, "COMPLEX128": 0x110}
TYPENAME = {v: k for k, v in TYPES.items()}
ENTYPE = {0x01: "RAW", 0x02: "LINCOM", 0x03: "LINTERP", 0x04: "BIT", 0x05: "MULTIPLY", 0x06: "PHASE", 0x07: "INDEX",
          0x08: "POLYNOM", 0x09: "SBIT", 0x0a: "DIVIDE", 0x0b: "RECIP", 0x0c: "WINDOW", 0x0d: "MPLEX", 0x0e: "INDIR",
          0x0f: "SINDIR", 0x10: "CONST", 0x11: "STRING", 0x12: "CARRAY", 0x13: "SARRAY"}
WINDOPS = ["?", "EQ", "GE", "GT", "LE", "LT", "NE", "SET", "CLR"]

K15 = "metaflush+reopen/double-needs-more-than-15-digits"
KSUB = "metaflush+reopen/subnormal-double-literal-rejected"
KNZ = "metaflush+reopen/negative-zero-literal"
KNZI = "metaflush+reopen/negative-zero-imaginary-part-without-complex-flag"
KHID = "dirfile_standards/hidden-entry-skips-type-version"
KINC = "metaflush+reopen/include-namespace-and-prefix"
KNSV = "dirfile_standards/fragment-namespace-ignored"
KREPRZ = "metaflush+reopen/dot-z-code-in-affixed-fragment"
KINH = "metaflush+reopen/inherited-fragment-attributes-not-persisted"
KMOVREF = "move/reference-field-keeps-old-name"
KDEREF = "delete-deref/client-fragment-not-marked-modified"
KDELREF = "delete/reference-update-not-marked-modified"
KMOVAFF = "move/codes-without-target-affixes-unflushable"
KREFREPR = "metaflush+reopen/reference-name-ending-in-dot-r-i-m-a"
KAMB = "dirfile_standards/number-like-scalar-code-needs-version-8"
KUNCLEAN = "rename/raw-field-in-compressed-fragment-unclean-db"
KNOREVAL = "dirfile_standards/current-version-not-revalidated-after-later-changes"
KSTALE = "dirfile_standards/version-cache-stale-after-hide-unhide-protect-affixes"
KAFFPAR = "alter-affixes/parent-fragment-not-marked-modified"
KORACLE = "dirfile_standards/accepted-nonconforming-version"
KREF5 = "metaflush+reopen/reference-field-not-recorded-below-version-6"
KUNREF = "uninclude/reference-field-not-renominated"


def hx(b):
    if b is None:
        return "-"
    return b.hex() if b else "."


def unhx(h):
    if h == "-":
        return None
    if h == ".":
        return b""
    return bytes.fromhex(h)


def dbits(x):
    return struct.unpack("<Q", struct.pack("<d", x))[0]


def bits2d(b):
    return struct.unpack("<d", struct.pack("<Q", b))[0]


def h16(b):
    if (b & 0x7fffffffffffffff) > 0x7ff0000000000000:
        return "nan"
    return "%016x" % b


# ---------------------------------------------------------------- generator

class Gen:
    def __init__(self, rng, P, facts=None):
        self.r = rng
        self.P = P
        self.facts = facts or {}

    NAME_SPECIAL = [b" ", b"#", b'"', b"\\", b"\xe9", b"\xff", b"\x80", b"'", b"$", b"=", b"-", b"+", b"e", b"x", b"0", b"1", b"_", b"z", b"~", b"\x7f", b"(", b")", b",", b":", b"?", b"*", b"[", b"]", b"{", b"}", b"@", b"!", b"%", b"^", b"`"]
    NUMLIKE = [b"1e3", b"0x10", b"12", b"inf", b"nan", b"-5", b"+3", b"1e", b"0x", b"017", b"1.5", b"INF", b"NaN", b"infinity", b"0", b"1e+3",
               b"0x1p3", b"nan(1)", b" 7", b"1e999", b"1d3", b"0b1", b"9223372036854775808", b"18446744073709551616", b"-0", b"1_0", b"0x1.8p1", b"1e-400"]
    WORDS = [b"RAW", b"VERSION", b"ENDIAN", b"META", b"INCLUDE", b"r", b"i", b"a", b"m", b"z", b"HIDDEN", b"ALIAS", b"FILEFRAM", b"LINCOM", b"data", b"x", b"time", b"E", b"INDE", b"INDEXX"]

    def name(self, used, ctrl=False):
        r = self.r
        for _ in range(100):
            k = r.random()
            if k < 0.15:
                n = r.choice(self.NUMLIKE)
            elif k < 0.30:
                n = r.choice(self.WORDS)
            elif k < 0.65:
                n = b"".join(r.choice(self.NAME_SPECIAL + [b"a", b"b", b"c", b"A", b"Z", b"q"]) for _ in range(r.randint(1, 8)))
            else:
                n = bytes(r.choice(b"abcdefghijklmnopqrstuvwxyzABCDEFGHIJKLMNOPQRSTUVWXYZ0123456789_") for _ in range(r.randint(1, 12)))
            if ctrl and r.random() < 0.3:
                pos = r.randint(0, len(n))
                n = n[:pos] + bytes([r.choice([1, 9, 10, 13, 27, 31, 7, 8, 11, 12])]) + n[pos:]
            if n and n not in used and n != b"INDEX" and b"/" not in n and b"." not in n:
                used.add(n)
                return n
        n = b"f%d" % len(used)
        used.add(n)
        return n

    def string(self):
        r = self.r
        k = r.random()
        if k < 0.1:
            return b""
        if k < 0.2:
            return bytes(range(1, 256))
        if k < 0.5:
            return bytes(r.randint(1, 255) for _ in range(r.randint(1, 40)))
        return b"".join(r.choice([b" ", b"#", b'"', b"\\", b"\\x41", b"a", b"\t", b"\n", b"\x01", b"\x1f", b"\x7f", b"\xc3\xa9", b"\\\\", b'""', b" # ", b"x", b"/", b".", b";", b"<0>", b"\xff"]) for _ in range(r.randint(1, 12)))

    def safe_double(self):
        """a double that survives any >= 15 digit formatting"""
        r = self.r
        k = r.random()
        if k < 0.3:
            return float(r.randint(-1000, 1000))
        if k < 0.6:
            return float(("%d.%0*d" % (r.randint(-999, 999), r.randint(1, 6), r.randint(0, 999999)))[:12])
        if k < 0.8:
            return float("%de%d" % (r.randint(1, 99999), r.randint(-300, 290)))
        return r.choice([0.0, 1.0, -1.0, 0.5, 2.0 ** 52, 2.0 ** -30, 1e15, 1e16, 1e-5, 1e-4, 123456789012345.0, 1e22, 1e100, 1.5e300,
                         float("inf"), float("-inf"), 99999999999999.0, 0.0001, 0.00001234, 1e21, 2.0 ** 63, 2.0 ** 64])

    def hard_double(self):
        r = self.r
        k = r.random()
        if k < 0.5:
            return bits2d((r.getrandbits(1) << 63) | (r.randint(1, 2046) << 52) | r.getrandbits(52))
        if k < 0.8:
            return r.choice([-0.0, 5e-324, 1e-310, -3e-320, 0.1 + 0.2, 1.0 / 3, 2.0 / 3, 0.1 * 3, 1e23, 5e-324 * 2 ** 60, 1.7976931348623157e308, 2.2250738585072014e-308, 9007199254740993.0, 1.0 + 2 ** -52, 4.35, 0.3 - 0.1])
        return r.uniform(-10, 10)

    def dbl(self, hard):
        d = self.hard_double() if hard else self.safe_double()
        return dbits(d)


def numlike(b):
    """could _GD_TokToNum read this name as a number? (over-approximation of the model's looks_numeric)"""
    t = b.decode("latin1").lstrip(" \t\n\v\f\r")
    t = t.split(";")[0]
    if t == "":
        return True
    if re.fullmatch(r"[+-]?(inf|infinity|nan(\([0-9a-z_]*\))?)", t, re.I):
        return True
    for f in (float, lambda x: int(x, 0), float.fromhex):
        try:
            f(t)
            return True
        except (ValueError, OverflowError):
            pass
    return False


def canon_sv(v):
    """v = ('L', int) | ('C', nameBytes, idx)"""
    if v[0] == "L":
        return "L%d" % v[1]
    return "C%s:%d" % (hx(v[1]), v[2])


def canon_csv(v):
    if v[0] == "L":
        return "L%s;%s" % (h16(v[1]), h16(v[2]))
    return "C%s:%d" % (hx(v[1]), v[2])


class Case:
    """One generated database: commands for the harness + expected canonical entries."""
    def __init__(self, cid):
        self.cid = cid
        self.cmds = ["CASE %s" % cid]
        self.entries = []       # (canon string, frag, parent, kind) in creation order
        self.dbls = []          # double bit patterns used as literals
        self.pure = True        # only fragment 0, no meta/alias/hidden: whole text is compared
        self.hidden = set()

    def text(self):
        return "\n".join(self.cmds + ["FLUSH", "END"]) + "\n"


def sc_tokens(scs):
    out = []
    for i, s in scs:
        out += ["S", str(i), hx(s[1]), str(s[2])]
    return " ".join(out)


def gen_case(g, cid, hard, rich):
    r = g.r
    c = Case(cid)
    flags = 0x1000 if r.random() < 0.25 else 0
    c.pretty = bool(flags)
    c.cmds.append("OPEN %x" % flags)
    used = set()
    c.used = used
    # fragment attributes of the root format file (set before any /INCLUDE so that a new
    # subfragment inherits them; see the finding on inherited attributes)
    if rich and r.random() < 0.3:
        c.cmds.append("FRAGATTR 0 %x %d %d %s" % (r.choice([0, 4, 8]), r.choice([-1, 0, 1, 2, 3]), r.choice([0, 0, 5, 2 ** 40, 2 ** 63 - 1]),
                                                  r.choice(["-1", "-1", "2000000", "4000000", "7000000", "6000000"])))
        c.pure = False
    # optional subfragment with namespace / prefix / suffix (fields are added to it below)
    c.inc = None
    if rich and r.random() < 0.4:
        aff_chars = [b"a", b"B", b"_", b"9", b" ", b"#", b'"', b"\\", b"\xe9", b"x", b"$"]
        def affix(lo):
            return b"".join(r.choice(aff_chars) for _ in range(r.randint(lo, 3)))
        ns = affix(1) if r.random() < 0.5 else None
        px = affix(1) if r.random() < 0.6 else None
        sx = affix(1) if r.random() < 0.6 else None
        if g.facts.get("INC_BLANK") and ns and px:
            if r.random() < 0.5:
                ns = None
            else:
                px = None
        fn = r.choice([b"sub.format", b"sub frag", b"s#1", b'q"uote', b"back\\slash", b"\xe9t\xe9"])
        c.cmds.append("INC 0 %s %s %s %s" % (hx(fn), hx(ns), hx(px), hx(sx)))
        c.inc = (ns, px, sx)
        c.pure = False

    def aff(base):
        ns, px, sx = c.inc
        return (ns + b"." if ns else b"") + (px or b"") + base + (sx or b"")
    frag_box = [0]
    consts = []   # (name, is_array, len)
    # pool of CONST / CARRAY fields usable as scalars
    for _ in range(r.randint(1, 3)):
        n = g.name(used)
        if r.random() < 0.6:
            t = r.choice(["UINT8", "INT16", "UINT32", "INT64", "FLOAT64", "UINT64"])
            val = r.randint(1, 5)
            if t.startswith("FLOAT"):
                cv, raw = "D%s" % h16(dbits(float(val))), "%x 0" % dbits(float(val))
            elif t.startswith("U"):
                cv, raw = "U%d" % val, "%x 0" % val
            else:
                cv, raw = "I%d" % val, "%x 0" % val
            c.cmds.append("ADD CONST 0 - %s %03x %s" % (hx(n), TYPES[t], raw))
            c.entries.append(("CONST %s %s %s" % (hx(n), t, cv), 0, None))
            consts.append((n, False, 1))
        else:
            ln = r.choice([1, 2, 3, 5, 10, 11, 12, 14, 25])
            vals = [r.randint(1, 5) for _ in range(ln)]
            c.cmds.append("ADD CARRAY 0 - %s %03x %d %s" % (hx(n), TYPES["UINT8"], ln, " ".join("%x 0" % v for v in vals)))
            c.entries.append(("CARRAY %s UINT8 %d %s" % (hx(n), ln, " ".join("U%d" % v for v in vals)), 0, None))
            consts.append((n, True, ln))

    def scalar_or(lit):
        if frag_box[0] == 0 and consts and r.random() < 0.3:
            n, arr, ln = r.choice(consts)
            idx = r.randint(0, ln - 1) if arr else r.choice([-1, -1, 0])
            return ("C", n, idx)
        return lit

    def code():
        k = r.random()
        if frag_box[0] == 1:
            b = g.name(set(), ctrl=True)
            if not g.facts.get("REPRZ") and b in (b"r", b"i", b"a", b"m"):
                b = b + b"x"
            return aff(b)
        if k < 0.5 and used:
            return r.choice(sorted(used))
        return g.name(set(), ctrl=True)

    def dlit():
        b = g.dbl(hard)
        c.dbls.append(b)
        return b

    nent = r.randint(1, 6)
    kinds = ["RAW", "LINCOM", "LINTERP", "BIT", "SBIT", "MULTIPLY", "DIVIDE", "INDIR", "SINDIR", "RECIP", "PHASE", "POLYNOM",
             "WINDOW", "MPLEX", "CONST", "CARRAY", "STRING", "SARRAY"]
    parents = []
    for _ in range(nent):
        k = r.choice(kinds)
        parent = None
        if rich and parents and r.random() < 0.25 and k != "RAW":
            parent = r.choice(parents)
            c.pure = False
        frag_box[0] = 1 if (c.inc and parent is None and r.random() < 0.5) else 0
        n = g.name(used) if parent is None else g.name(set())
        if frag_box[0] == 1 and k == "RAW" and c.inc[0] and n in (b"r", b"i", b"m", b"a") and not g.facts.get("NAME_FLAG"):
            n = n + b"_"        # see the finding on /REFERENCE and names ending in .r .i .m .a
        if frag_box[0] == 1:
            n = aff(n)
            if n in used:
                continue
            used.add(n)
        full = n if parent is None else parent + b"/" + n
        if parent is not None:
            if full in used:
                continue
            used.add(full)
        P = hx(parent) if parent is not None else "-"
        pre = "ADD %s %d %s %s " % (k, frag_box[0], P, hx(n))
        if k == "RAW":
            t = r.choice(list(TYPES))
            spf = scalar_or(("L", r.choice([1, 2, 20, 65535, 4294967295, r.randint(1, 1000)])))
            scs = [(0, spf)] if spf[0] == "C" else []
            c.cmds.append(pre + "%03x %d %s" % (TYPES[t], spf[1] if spf[0] == "L" else 1, sc_tokens(scs)))
            ce = "RAW %s %s %s" % (hx(full), t, canon_sv(spf))
        elif k == "LINCOM":
            nf = r.randint(1, 3)
            comp = r.random() < 0.3
            parts, canon, scs = [], [], []
            anyim = False
            for i in range(nf):
                inf = code()
                terms = []
                for j in range(2):
                    v = scalar_or(None)
                    if v is None:
                        re_ = dlit()
                        im = dlit() if comp and r.random() < 0.7 else 0
                        if (im & 0x7fffffffffffffff) != 0:
                            anyim = True
                        v = ("L", re_, im)
                    else:
                        scs.append((i + 3 * j, v))
                    terms.append(v)
                parts.append("%s %s %s %s %s" % (hx(inf), h16x(terms[0], 1), h16x(terms[0], 2), h16x(terms[1], 1), h16x(terms[1], 2)))
                canon.append("%s %s %s" % (hx(inf), canon_csv(terms[0]), canon_csv(terms[1])))
            c.cmds.append(pre + "%d %d %s %s" % (nf, 1 if comp else 0, " ".join(parts), sc_tokens(scs)))
            ce = "LINCOM %s %d %d %s" % (hx(full), 1 if (comp and anyim) else 0, nf, " ".join(canon))
        elif k == "LINTERP":
            inf, tb = code(), g.string() or b"t"
            c.cmds.append(pre + "%s %s" % (hx(inf), hx(tb)))
            ce = "LINTERP %s %s %s" % (hx(full), hx(inf), hx(tb))
        elif k in ("BIT", "SBIT"):
            inf = code()
            bn = r.randint(0, 40)
            nb = r.randint(1, 63 - bn) if r.random() < 0.8 else 1
            a, b = scalar_or(("L", bn)), scalar_or(("L", nb))
            scs = [(i, s) for i, s in enumerate((a, b)) if s[0] == "C"]
            c.cmds.append(pre + "%s %d %d %s" % (hx(inf), bn, nb, sc_tokens(scs)))
            ce = "%s %s %s %s %s" % (k, hx(full), hx(inf), canon_sv(a), canon_sv(b))
        elif k in ("MULTIPLY", "DIVIDE", "INDIR", "SINDIR"):
            a, b = code(), code()
            c.cmds.append(pre + "%s %s" % (hx(a), hx(b)))
            ce = "%s %s %s %s" % (k, hx(full), hx(a), hx(b))
        elif k == "RECIP":
            inf = code()
            comp = r.random() < 0.3
            v = scalar_or(None)
            scs = []
            if v is None:
                re_ = dlit()
                im = dlit() if comp else 0
                v = ("L", re_, im)
            else:
                scs = [(0, v)]
            c.cmds.append(pre + "%s %d %s %s %s" % (hx(inf), 1 if comp else 0, h16x(v, 1), h16x(v, 2), sc_tokens(scs)))
            cflag = 1 if (v[0] == "L" and (v[2] & 0x7fffffffffffffff) != 0) else 0
            ce = "RECIP %s %s %d %s" % (hx(full), hx(inf), cflag, canon_csv(v))
        elif k == "PHASE":
            inf = code()
            sh = scalar_or(("L", r.choice([0, 1, -1, 2 ** 63 - 1, -2 ** 63, r.randint(-10 ** 6, 10 ** 6), r.randint(-2 ** 63, 2 ** 63 - 1)])))
            scs = [(0, sh)] if sh[0] == "C" else []
            c.cmds.append(pre + "%s %d %s" % (hx(inf), sh[1] if sh[0] == "L" else 0, sc_tokens(scs)))
            ce = "PHASE %s %s %s" % (hx(full), hx(inf), canon_sv(sh))
        elif k == "POLYNOM":
            inf = code()
            order = r.randint(1, 5)
            comp = r.random() < 0.3
            vs, scs, anyim = [], [], False
            for i in range(order + 1):
                v = scalar_or(None)
                if v is None:
                    re_ = dlit()
                    im = dlit() if comp and r.random() < 0.7 else 0
                    if (im & 0x7fffffffffffffff) != 0:
                        anyim = True
                    v = ("L", re_, im)
                else:
                    scs.append((i, v))
                vs.append(v)
            c.cmds.append(pre + "%s %d %d %s %s" % (hx(inf), order, 1 if comp else 0, " ".join("%s %s" % (h16x(v, 1), h16x(v, 2)) for v in vs), sc_tokens(scs)))
            ce = "POLYNOM %s %s %d %d %s" % (hx(full), hx(inf), 1 if (comp and anyim) else 0, order + 1, " ".join(canon_csv(v) for v in vs))
        elif k == "WINDOW":
            inf, chk = code(), code()
            op = r.randint(1, 8)
            v = scalar_or(None)
            scs = []
            if v is None:
                if op in (1, 6):
                    iv = r.choice([0, -1, 2 ** 63 - 1, -2 ** 63, r.randint(-2 ** 63, 2 ** 63 - 1)])
                    raw, th = iv & (2 ** 64 - 1), "LI%d" % iv
                elif op in (7, 8):
                    uv = r.choice([0, 1, 2 ** 64 - 1, 2 ** 63, r.getrandbits(64)])
                    raw, th = uv, "LU%d" % uv
                else:
                    b = dlit()
                    raw, th = b, "LR%s" % h16(b)
            else:
                raw, th = 0, canon_sv(v)
                scs = [(0, v)]
            c.cmds.append(pre + "%s %s %d %x %s" % (hx(inf), hx(chk), op, raw, sc_tokens(scs)))
            ce = "WINDOW %s %s %s %s %s" % (hx(full), hx(inf), hx(chk), WINDOPS[op], th)
        elif k == "MPLEX":
            inf, cnt = code(), code()
            a = scalar_or(("L", r.choice([0, 1, -1, 2 ** 31 - 1, -2 ** 31, r.randint(-1000, 1000)])))
            b = scalar_or(("L", r.choice([0, 1, 10, 2 ** 31 - 1])))
            scs = [(i, s) for i, s in enumerate((a, b)) if s[0] == "C"]
            c.cmds.append(pre + "%s %s %d %d %s" % (hx(inf), hx(cnt), a[1] if a[0] == "L" else 0, b[1] if b[0] == "L" else 0, sc_tokens(scs)))
            ce = "MPLEX %s %s %s %s %s" % (hx(full), hx(inf), hx(cnt), canon_sv(a), canon_sv(b))
        elif k in ("CONST", "CARRAY"):
            t = r.choice(list(TYPES))
            ln = 1 if k == "CONST" else r.choice([1, 2, 3, 10, 11, 12, 13, 14, 22, 25, 26, 40])
            raws, cvs = [], []
            for _i in range(ln):
                if t.startswith("COMPLEX"):
                    a, b = dlit(), dlit()
                    raws.append("%x %x" % (a, b)); cvs.append("X%s;%s" % (h16(a), h16(b)))
                elif t.startswith("FLOAT"):
                    a = dlit()
                    raws.append("%x 0" % a); cvs.append("D%s" % h16(a))
                elif t.startswith("U"):
                    bits = int(t[4:])
                    a = r.choice([0, 1, 2 ** bits - 1, 2 ** (bits - 1), r.getrandbits(bits)])
                    raws.append("%x 0" % a); cvs.append("U%d" % a)
                else:
                    bits = int(t[3:])
                    a = r.choice([0, 1, -1, 2 ** (bits - 1) - 1, -2 ** (bits - 1), r.randint(-2 ** (bits - 1), 2 ** (bits - 1) - 1)])
                    raws.append("%x 0" % (a & (2 ** 64 - 1))); cvs.append("I%d" % a)
            if k == "CONST":
                c.cmds.append(pre + "%03x %s" % (TYPES[t], raws[0]))
                ce = "CONST %s %s %s" % (hx(full), t, cvs[0])
            else:
                c.cmds.append(pre + "%03x %d %s" % (TYPES[t], ln, " ".join(raws)))
                ce = "CARRAY %s %s %d %s" % (hx(full), t, ln, " ".join(cvs))
        elif k == "STRING":
            v = g.string()
            c.cmds.append(pre + hx(v))
            ce = "STRING %s %s" % (hx(full), hx(v))
        else:
            ln = r.choice([1, 2, 3, 11, 12, 13, 14, 25])
            vs = [g.string() for _ in range(ln)]
            c.cmds.append(pre + "%d %s" % (ln, " ".join(hx(v) for v in vs)))
            ce = "SARRAY %s %d %s" % (hx(full), ln, " ".join(hx(v) for v in vs))
        c.entries.append((ce, frag_box[0], parent))
        if parent is None and frag_box[0] == 0:
            parents.append(n)
    if rich:
        tops = [unhx(e[0].split()[1]) for e in c.entries if e[2] is None]
        if r.random() < 0.4 and tops:
            for _ in range(r.randint(1, 2)):
                an = g.name(used)
                tg = r.choice(tops)
                c.cmds.append("ALIAS 0 - %s %s" % (hx(an), hx(tg)))
                c.pure = False
        if r.random() < 0.4 and tops:
            hn = r.choice(tops)
            c.cmds.append("HIDE %s" % hx(hn))
            c.pure = False
        if c.inc and r.random() < 0.4:
            c.cmds.append("FRAGATTR 1 %x %d %d -1" % (r.choice([0, 4, 8]), r.choice([-1, 0, 1, 2, 3]), r.choice([0, 0, 7, 2 ** 40])))
    # second phase: write everything out, then rename / move / delete / alter on clean fragments;
    # what is in memory afterwards must be what a reopen sees
    if rich and r.random() < 0.5:
        c.pure = False
        c.phase2 = True
        c.cmds.append("MFLUSH")
        live = {}
        for e in c.entries:
            if e[2] is None:
                live[unhx(e[0].split()[1])] = (e[1], e[0].split()[0])
        for _ in range(r.randint(1, 4)):
            if not live:
                break
            f = r.choice(sorted(live))
            fr, kind = live[f]
            k = r.random()
            if k < 0.4:
                nb = g.name(used)
                nn = aff(nb) if (fr == 1 and c.inc) else nb
                c.cmds.append("RENAME %s %s %x" % (hx(f), hx(nn), r.choice([2, 2, 2, 0, 6])))
                live[nn] = live.pop(f)
            elif k < 0.55 and c.inc:
                c.cmds.append("MOVE %s %d %x" % (hx(f), 1 - fr, r.choice([2, 2, 0])))
                # the library re-affixes the name; later commands may miss it, which is harmless
                live.pop(f)
            elif k < 0.65:
                c.cmds.append("DELETE %s %x" % (hx(f), r.choice([0, 8, 9])))
                live.pop(f)
            elif k < 0.75:
                c.cmds.append(("HIDE %s" if r.random() < 0.6 else "UNHIDE %s") % hx(f))
            elif k < 0.85:
                c.cmds.append("ALIAS %d - %s %s" % (0, hx(g.name(used)), hx(f)))
            elif kind == "STRING":
                c.cmds.append("PUTS %s %s" % (hx(f), hx(g.string())))
            elif kind == "CONST":
                c.cmds.append("PUTC %s U %x" % (hx(f), r.randint(0, 100)))
            else:
                c.cmds.append("HIDE %s" % hx(f))
    # standards version requested before the flush (ignored by the library if not available)
    if r.random() < 0.5:
        v = r.choice([6, 7, 8, 9, 10, 9, 8])
        if c.inc and c.inc[0] and not g.facts.get("NS_RULE"):
            v = 10
        if v < 8 and any(numlike(n_) for n_, _a, _l in consts):
            v = 8               # see the finding on number-like scalar codes and Standards Version < 8
        c.cmds.append("STD %d" % v)
    return c


def gen_xfrag_case(g, cid):
    """two fragments with fields that refer to each other (input fields, scalar codes, aliases);
    everything is written out, then fields are renamed / moved / deleted, then flushed again"""
    r = g.r
    c = Case(cid)
    c.pretty = False
    c.pure = False
    c.phase2 = True
    c.cmds.append("OPEN 0")
    used = set()
    k = r.random()
    ns = px = sx = None
    if k < 0.5:
        pass
    elif k < 0.7:
        px = r.choice([b"p", b"P_", b"a b"])
    elif k < 0.85:
        sx = r.choice([b"s", b"_S", b"#"])
    else:
        ns = r.choice([b"ns", b"N1"])
        if r.random() < 0.5 and not g.facts.get("INC_BLANK"):
            px = b"q"
    c.inc = (ns, px, sx)
    c.cmds.append("INC 0 %s %s %s %s" % (hx(r.choice([b"sub", b"sub two"])), hx(ns), hx(px), hx(sx)))
    plain_sub = not (ns or px or sx)

    def aff(base):
        return (ns + b"." if ns else b"") + (px or b"") + base + (sx or b"")

    def nm():
        for _ in range(50):
            n = bytes(r.choice(b"abcdefghjklnopqstuvwxyzABCDEFGH0123456789_ #") for _ in range(r.randint(2, 7))).strip() or b"x"
            if n not in used and aff(n) not in used and not n[:1].isdigit():
                used.add(n); used.add(aff(n))
                return n
        return b"f%d" % len(used)
    base = {0: [], 1: []}      # (name, kind)
    for fr in (0, 1):
        for _ in range(r.randint(1, 3)):
            n = nm()
            full = aff(n) if fr == 1 else n
            if r.random() < 0.5:
                c.cmds.append("ADD RAW %d - %s 088 %d" % (fr, hx(full), r.randint(1, 9)))
                base[fr].append((full, "RAW"))
            else:
                c.cmds.append("ADD CONST %d - %s 001 %x 0" % (fr, hx(full), r.randint(1, 9)))
                base[fr].append((full, "CONST"))
    derived = []
    for fr in (0, 1):
        other = 1 - fr
        if fr == 1 and not plain_sub:
            targets = base[1]          # codes in an affixed fragment must carry its affixes
        else:
            targets = base[other] + (base[fr] if r.random() < 0.3 else [])
        if not targets:
            continue
        for _ in range(r.randint(1, 3)):
            n = nm()
            full = aff(n) if fr == 1 else n
            t = r.choice(targets)
            kk = r.random()
            consts = [x for x in targets if x[1] == "CONST"]
            if kk < 0.3:
                c.cmds.append("ADD PHASE %d - %s %s %d" % (fr, hx(full), hx(t[0]), r.randint(-5, 5)))
            elif kk < 0.5:
                t2 = r.choice(targets)
                c.cmds.append("ADD MULTIPLY %d - %s %s %s" % (fr, hx(full), hx(t[0]), hx(t2[0])))
            elif kk < 0.7 and consts:
                cc = r.choice(consts)
                c.cmds.append("ADD PHASE %d - %s %s 0 S 0 %s -1" % (fr, hx(full), hx(t[0]), hx(cc[0])))
            elif kk < 0.85 and consts:
                cc = r.choice(consts)
                c.cmds.append("ADD LINCOM %d - %s 1 0 %s 0 0 %016x 0 S 0 %s -1" % (fr, hx(full), hx(t[0]), dbits(2.0), hx(cc[0])))
            else:
                c.cmds.append("ALIAS %d - %s %s" % (fr, hx(full), hx(t[0])))
            derived.append((full, fr))
    c.cmds.append("MFLUSH")
    allb = [(n, fr) for fr in (0, 1) for n, _ in base[fr]]
    for _ in range(r.randint(1, 3)):
        kk = r.random()
        pool = allb if r.random() < 0.75 or not derived else derived
        if not pool:
            break
        f, fr = r.choice(pool)
        if kk < 0.55:
            nn = nm()
            c.cmds.append("RENAME %s %s %x" % (hx(f), hx(aff(nn) if fr == 1 else nn), r.choice([2, 2, 2, 0, 6])))
        elif kk < 0.8:
            c.cmds.append("MOVE %s %d %x" % (hx(f), 1 - fr, r.choice([2, 2, 0])))
        elif kk < 0.9:
            c.cmds.append("DELETE %s %x" % (hx(f), r.choice([8, 0, 12])))
        else:
            c.cmds.append("HIDE %s" % hx(f))
        if (f, fr) in allb:
            allb.remove((f, fr))
        if (f, fr) in derived:
            derived.remove((f, fr))
    if r.random() < 0.3:
        c.cmds.append("STD %d" % r.choice([9, 10]))
    return c


SPEC_KINDS = [("RAW", "f RAW UINT8 1"), ("RAW", "f RAW COMPLEX64 1"), ("RAW", "f RAW INT64 1"), ("LINCOM", "f LINCOM 1 in 1 0"),
              ("LINCOM", "f LINCOM 1 in 1;2 0"), ("LINTERP", "f LINTERP in tbl"), ("BIT", "f BIT in 1 1"), ("BIT", "f BIT in 1 4"),
              ("SBIT", "f SBIT in 1 2"), ("MULTIPLY", "f MULTIPLY in in2"), ("DIVIDE", "f DIVIDE in in2"), ("INDIR", "f INDIR in in2"),
              ("SINDIR", "f SINDIR in in2"), ("RECIP", "f RECIP in 1"), ("PHASE", "f PHASE in 1"), ("POLYNOM", "f POLYNOM in 1 2"),
              ("WINDOW", "f WINDOW in in2 EQ 5"), ("MPLEX", "f MPLEX in in2 1 10"), ("CONST", "f CONST UINT8 1"),
              ("CONST", "f CONST COMPLEX64 1;2"), ("CARRAY", "f CARRAY UINT8 1 2"), ("STRING", "f STRING v"), ("SARRAY", "f SARRAY a b")]


def gen_history_cases():
    """histories whose LAST metadata change is gd_add_spec / gd_madd_spec / gd_add / gd_alter_spec / gd_hide / ... followed
    directly by gd_dirfile_standards(explicit version, EARLIEST, LATEST), with and without a cached version list
    (an earlier gd_dirfile_standards(CURRENT)); every field type x every version boundary"""
    out = []
    n = [0]
    base = "ADD RAW 0 - %s 001 1" % hx(b"base")

    def mk(cmds):
        c = Case("h%d" % n[0])
        n[0] += 1
        c.pretty = False
        c.pure = False
        c.cmds += ["OPEN 0"] + cmds
        out.append(c)
        return c
    VERS = (5, 6, 7, 8, 9, 10, -3, -2)
    for kind, line in SPEC_KINDS:
        for cached in (False, True):
            pre = [base] + (["STD -1"] if cached else [])
            for v in VERS:
                mk(pre + ["ADDSPEC %s 0" % hx(line.encode()), "STD %d" % v])
                if kind != "RAW":
                    mk(pre + ["MADDSPEC %s %s" % (hx(line.encode()), hx(b"base")), "STD %d" % v])
    for v in VERS:
        mk([base, "STD -1", "ALTERSPEC %s 0" % hx(b"base RAW COMPLEX64 1"), "STD %d" % v])
        mk(["ADD CONST 0 - %s 001 1 0" % hx(b"c"), "STD -1", "ALTERSPEC %s 0" % hx(b"c CONST COMPLEX128 1;1"), "STD %d" % v])
        mk([base, "ADDSPEC %s 0" % hx(b"b BIT base 1 1"), "STD -1", "ALTERSPEC %s 0" % hx(b"b BIT base 40 3"), "STD %d" % v])
    # gd_add as the last change with a cached list
    D1 = "%016x" % dbits(1.5)
    IN, IN2 = hx(b"in"), hx(b"in2")
    addk = ["ADD RAW 0 - %s 108 2", "ADD RAW 0 - %s 028 2", "ADD CONST 0 - %s 108 1 0", "ADD CONST 0 - %s 001 1 0", "ADD CARRAY 0 - %s 001 2 1 0 1 0",
            "ADD DIVIDE 0 - %%s %s %s" % (IN, IN2), "ADD INDIR 0 - %%s %s %s" % (IN, IN2), "ADD RECIP 0 - %%s %s 0 %s 0" % (IN, D1),
            "ADD PHASE 0 - %%s %s 5" % IN, "ADD POLYNOM 0 - %%s %s 2 0 %s 0 %s 0 %s 0" % (IN, D1, D1, D1), "ADD SBIT 0 - %%s %s 3 4" % IN,
            "ADD WINDOW 0 - %%s %s %s 1 5" % (IN, IN2), "ADD MPLEX 0 - %%s %s %s 1 10" % (IN, IN2), "ADD STRING 0 - %%s %s" % hx(b"v"),
            "ADD SARRAY 0 - %%s 2 %s %s" % (hx(b"a"), hx(b"b")), "ADD MULTIPLY 0 - %%s %s %s" % (IN, IN2)]
    for kd in addk:
        for v in VERS:
            mk([base, "STD -1", kd % hx(b"f"), "STD %d" % v])
            mk([base, "STD -1", kd % hx(b"f"), "ALIAS 0 - %s %s" % (hx(b"al"), hx(b"f")), "STD %d" % v])
    return out


def gen_known_history_cases():
    """histories in the region of the listed version-cache / revalidation / affix findings"""
    out = []
    n = [0]

    def mk(cmds):
        c = Case("k%d" % n[0])
        n[0] += 1
        c.pretty = False
        c.pure = False
        c.cmds += ["OPEN 0"] + cmds
        out.append(c)
    cc = "ADD CONST 0 - %s 001 1 0" % hx(b"c")
    for v in (6, 7, 8):
        mk([cc, "STD -1", "HIDE %s" % hx(b"c"), "STD %d" % v])
        mk([cc, "STD %d" % v, "ADD WINDOW 0 - %s %s %s 1 5" % (hx(b"w"), hx(b"in"), hx(b"in2"))])
        mk([cc, "STD %d" % v, "ADDSPEC %s 0" % hx(b"s SARRAY a b")])
        mk([cc, "STD %d" % v, "HIDE %s" % hx(b"c")])
    mk(["INC 0 %s - %s -" % (hx(b"sub"), hx(b"p")), "ADD CONST 1 - %s 001 1 0" % hx(b"pc"), "MFLUSH", "ALTERAFFIX 1 %s %s" % (hx(b"q"), hx(b"s"))])
    mk(["INC 0 %s %s - -" % (hx(b"sub"), hx(b"ns")), "ADD CONST 1 - %s 001 1 0" % hx(b"ns.c"), "MFLUSH", "NSALTER 1 %s" % hx(b"mm")])
    mk(["INC 0 %s - - %s" % (hx(b"sub"), hx(b"s")), "ADD CONST 1 - %s 001 1 0" % hx(b"cs"), "MFLUSH", "ALTERAFFIX 1 - %s" % hx(b"t"), "ADD CONST 1 - %s 001 2 0" % hx(b"dt")])
    return out


MUTATING = ("ALTLINCOM ", "ALTPOLYNOM ", "ALTRECIP ", "UNINCLUDEN ", "INCN ", "ADD ", "ADDSPEC ", "MADDSPEC ", "ALTERSPEC ", "ALIAS ", "HIDE ", "UNHIDE ", "FRAGATTR ", "INC ", "RENAME ", "MOVE ", "DELETE ",
            "ALTERAFFIX ", "NSALTER ", "PUTS ", "PUTC ", "REF ", "UNINCLUDE ")
STALE_OPS = ("HIDE ", "UNHIDE ", "FRAGATTR ", "ALTERAFFIX ", "NSALTER ")


def needed_version(lines, gates):
    """the least Standards Version whose pedantic parser accepts this database (keywords, hidden flags, aliases, complex
    data types, metafields, affixes, namespaces) -- from the parser gates the translator extracts"""
    need = 0
    why = ""
    nfrag = 0
    for l in lines:
        t = l.split()
        g_, w_ = 0, ""
        if l.startswith("G "):
            nfrag += 1
            d_ = kv(t[2:])
            if d_.get("ns") not in (".", "-", None):
                g_, w_ = gates.get("NAMESPACE", 10), "a fragment namespace"
            elif d_.get("px") != "-" or d_.get("sx") != "-":
                g_, w_ = 9, "fragment affixes"
            elif int(d_.get("prot", "0")) != 0 or int(d_.get("enc", "0"), 16) not in (0, 0x1000000):
                g_, w_ = 6, "a /PROTECT or /ENCODING directive"
            if nfrag > 1 and g_ < 3:
                g_, w_ = 3, "an /INCLUDE directive"
        elif l.startswith("F ") and " ALIAS " in l:
            g_, w_ = gates.get("ALIAS", 9), "an alias"
        elif l.startswith("F ") and len(t) > 2 and t[2].startswith("type="):
            d_ = kv(t[2:])
            k = ENTYPE.get(int(d_["type"], 16), "")
            g_, w_ = gates.get(k, 0), "a %s field" % k
            for key_ in ("dtype", "ctype"):
                if key_ in d_ and int(d_[key_], 16) & 0x100 and g_ < 7:
                    g_, w_ = 7, "a complex %s" % k
            if d_.get("hidden") == "1" and g_ < gates.get("HIDDEN", 9):
                g_, w_ = gates.get("HIDDEN", 9), "a hidden field"
            if d_.get("meta") == "1" and g_ < 6:
                g_, w_ = 6, "a metafield"
        if g_ > need:
            need, why = g_, w_
    return need, why


def history_key(c, ops, need):
    """which listed finding (if any) explains that the database was flushed at a Standards Version below `need`"""
    rc = {}
    for o in ops:
        rc.setdefault(int(o[0]), (int(o[1]), int(o[2])))
    ok = lambda i: i in rc and rc[i][1] == 0 and rc[i][0] >= 0
    last_std = None
    for i, cmd in enumerate(c.cmds):
        if cmd.startswith("STD ") and ok(i):
            last_std = i
    if last_std is None or c.dstd >= need:
        return None
    later = [cmd for i, cmd in enumerate(c.cmds) if i > last_std and cmd.startswith(MUTATING) and ok(i)]
    if later:
        return KNOREVAL
    prev = [cmd for i, cmd in enumerate(c.cmds) if i < last_std and cmd.startswith(MUTATING) and ok(i)]
    if prev and prev[-1].startswith(STALE_OPS):
        return KSTALE
    return KORACLE


def gen_include_tree_cases(rng, n_random):
    """trees of 3-4 included fragments (every shape), a field in each, everything flushed; then one or two gd_uninclude
    calls (every ordered pair, with and without a flush in between), sometimes a re-include; flush, reopen, compare the
    fragment list and every entry"""
    out = []
    cnt = [0]
    names = [b"fa", b"fb", b"fc", b"fd"]

    def build(parents, affix):
        cmds = ["OPEN 0", "ADD CONST 0 - %s 001 1 0" % hx(b"root")]
        pxs = {}
        for i, par in enumerate(parents):
            px = (names[i][1:] + b"_") if (affix and i % 2 == 0) else None
            full = (pxs.get(par - 1, b"") if par > 0 else b"") + (px or b"")
            pxs[i] = full
            cmds.append("INC %d %s - %s -" % (par, hx(names[i]), hx(px)))
            cmds.append("ADD CONST %d - %s 001 %d 0" % (i + 1, hx(full + b"k" + names[i]), i + 2))
            cmds.append("ADD RAW %d - %s 088 1" % (i + 1, hx(full + b"r" + names[i])))
        return cmds

    def mk(cmds):
        c = Case("t%d" % cnt[0])
        cnt[0] += 1
        c.pretty = False
        c.pure = False
        c.phase2 = True
        c.cmds += cmds
        out.append(c)

    def shapes(n):
        if n == 0:
            yield []
            return
        for sh in shapes(n - 1):
            for par in range(0, n):
                yield sh + [par]
    for sh in shapes(3):
        for affix in (False, True):
            base = build(sh, affix)
            for a in range(3):
                mk(base + ["MFLUSH", "UNINCLUDEN %s" % hx(names[a])])
                for b in range(3):
                    if a != b:
                        for mid in ([], ["MFLUSH"]):
                            mk(base + ["MFLUSH", "UNINCLUDEN %s" % hx(names[a])] + mid + ["UNINCLUDEN %s" % hx(names[b])])
    all4 = list(shapes(4))
    for _ in range(n_random):
        sh = rng.choice(all4)
        cmds = build(sh, rng.random() < 0.4) + ["MFLUSH"]
        alive = list(range(4))
        for _k in range(rng.randint(1, 3)):
            r_ = rng.random()
            if r_ < 0.7:
                a = rng.choice(range(4))
                cmds.append("UNINCLUDEN %s" % hx(names[a]))
            elif r_ < 0.85:
                cmds.append("INCN %s %s - -" % (hx(rng.choice([b"format"] + names)), hx(b"n%d" % _k)))
            else:
                cmds.append("ADD CONST 0 - %s 001 9 0" % hx(b"late%d" % _k))
            if rng.random() < 0.5:
                cmds.append("MFLUSH")
        mk(cmds)
    return out


def gen_partial_alter_cases(rng, n_random):
    """entries with complex scalar parameters, flushed, then PARTIAL alters through the type-specific calls
    (gd_alter_lincom/clincom, gd_alter_polynom/cpolynom, gd_alter_recip/crecip) with NULL groups / 'keep' values, real and
    complex API, every group combination; flush, reopen, compare"""
    out = []
    cnt = [0]

    def mk(cmds):
        c = Case("a%d" % cnt[0])
        cnt[0] += 1
        c.pretty = False
        c.pure = False
        c.phase2 = True
        c.cmds += ["OPEN 0"] + cmds
        out.append(c)
    H = lambda x: "%016x" % dbits(x)
    IN = [hx(b"in0"), hx(b"in1"), hx(b"in2")]
    vals = [1.5, -2.25, 3.0, 0.0, 7.5, 0.125]

    def grp(tag, k, cplx_im):
        return "%s %d %s" % (tag, k, " ".join("%s %s" % (H(rng.choice(vals[:3])), H(rng.choice(vals)) if cplx_im else H(0.0)) for _ in range(k)))
    for n in (1, 2, 3):
        for mim, bim in ((True, True), (True, False), (False, True), (False, False)):
            add = "ADD LINCOM 0 - %s %d 1 %s" % (hx(b"l"), n, " ".join("%s %s %s %s %s" % (IN[i], H(1.0 + i), H(2.0 if mim else 0.0), H(3.0 + i), H(4.0 if bim else 0.0)) for i in range(n)))
            for api in (0, 1):
                for gm, gb, gi in ((1, 0, 0), (0, 1, 0), (0, 0, 1), (1, 1, 0), (1, 0, 1), (0, 1, 1)):
                    for new_im in ((False,) if api == 0 else (False, True)):
                        alt = "ALTLINCOM %s %d 0 I %d %s %s %s" % (hx(b"l"), api, n if gi else 0, " ".join(hx(b"x%d" % i) for i in range(n)) if gi else "",
                                                                 grp("M", n if gm else 0, new_im), grp("B", n if gb else 0, new_im))
                        mk([add, "MFLUSH", " ".join(alt.split())])
    for order in (1, 2, 3):
        for im in (True, False):
            add = "ADD POLYNOM 0 - %s %s %d 1 %s" % (hx(b"p"), IN[0], order, " ".join("%s %s" % (H(1.0 + i), H(0.5) if (im and i == 0) else H(0.0)) for i in range(order + 1)))
            for api in (0, 1):
                mk([add, "MFLUSH", "ALTPOLYNOM %s %d 0 %s A 0" % (hx(b"p"), api, hx(b"newin"))])
                mk([add, "MFLUSH", "ALTPOLYNOM %s %d 0 - A %d %s" % (hx(b"p"), api, order + 1, " ".join("%s %s" % (H(2.0 + i), H(0.25) if (api and i == order) else H(0.0)) for i in range(order + 1)))])
                mk([add, "MFLUSH", "ALTPOLYNOM %s %d %d - A 0" % (hx(b"p"), api, max(1, order - 1))])
    for im in (True, False):
        add = "ADD RECIP 0 - %s %s 1 %s %s" % (hx(b"r"), IN[0], H(1.5), H(2.5) if im else H(0.0))
        for api in (0, 1):
            mk([add, "MFLUSH", "ALTRECIP %s %d %s %s %s" % (hx(b"r"), api, hx(b"newin"), H(0.0), H(0.0))])
            mk([add, "MFLUSH", "ALTRECIP %s %d - %s %s" % (hx(b"r"), api, H(4.0), H(1.0) if api else H(0.0))])
    return out


def gen_reference_cases(rng, n_random):
    """reference-field bookkeeping in multi-fragment trees: RAW fields in the root and in included fragments (one or two
    levels), the reference field in any of them (first RAW added, or set with gd_reference), flushed or not; then
    gd_delete / gd_rename / gd_move of the reference field or of another RAW field, or gd_uninclude; flush, reopen,
    compare gd_reference() and the root's /REFERENCE"""
    out = []
    cnt = [0]
    for _ in range(n_random):
        c = Case("r%d" % cnt[0])
        cnt[0] += 1
        c.pretty = False
        c.pure = False
        c.phase2 = True
        cmds = ["OPEN 0"]
        nfr = rng.choice([2, 3, 3])
        parents = [0] + ([rng.choice([0, 1])] if nfr == 3 else [])
        files = [b"sa", b"sb"]
        for i, par in enumerate(parents):
            cmds.append("INC %d %s - - -" % (par, hx(files[i])))
        pool = [b"a", b"b", b"c", b"d", b"e", b"m", b"z", b"A", b"Z", b"aa", b"zz"]
        rng.shuffle(pool)
        raws = []
        order = []
        for fr in range(nfr):
            for _k in range(rng.randint(0 if fr == 0 else 1, 2)):
                order.append(fr)
        rng.shuffle(order)
        for fr in order:
            nm = pool.pop()
            raws.append((nm, fr))
            cmds.append("ADD RAW %d - %s 088 1" % (fr, hx(nm)))
        if rng.random() < 0.4 and raws:
            cmds.append("REF %s" % hx(rng.choice(raws)[0]))
        if rng.random() < 0.7:
            cmds.append("MFLUSH")
        for _k in range(rng.randint(1, 2)):
            if not raws:
                break
            tgt = raws[0] if rng.random() < 0.6 else rng.choice(raws)
            k = rng.random()
            if k < 0.45:
                cmds.append("DELETE %s %x" % (hx(tgt[0]), rng.choice([0, 8])))
                raws.remove(tgt)
            elif k < 0.65:
                nn = pool.pop() if pool else b"nn"
                cmds.append("RENAME %s %s %x" % (hx(tgt[0]), hx(nn), rng.choice([0, 2])))
                raws[raws.index(tgt)] = (nn, tgt[1])
            elif k < 0.85:
                to = rng.choice([f_ for f_ in range(nfr) if f_ != tgt[1]])
                cmds.append("MOVE %s %d %x" % (hx(tgt[0]), to, rng.choice([0, 2])))
                raws[raws.index(tgt)] = (tgt[0], to)
            else:
                cmds.append("UNINCLUDEN %s" % hx(rng.choice(files[:nfr - 1])))
                break
            if rng.random() < 0.3:
                cmds.append("MFLUSH")
        c.cmds += cmds[0:1] + cmds[1:]
        out.append(c)
    return out


def gen_version_cases():
    """every kind of entry (and data type where _GD_FindVersion looks at it) alone in a database,
    hidden or not, with every Standards Version 5..10 requested before the flush; plus fragment
    attributes and special names against every version"""
    D1 = "%016x" % dbits(1.5)
    IN, IN2 = hx(b"in"), hx(b"in2")
    kinds = []
    for t in ("UINT8", "INT8", "UINT16", "INT64", "UINT64", "FLOAT32", "FLOAT64", "COMPLEX64", "COMPLEX128"):
        kinds.append("ADD RAW 0 - %%s %03x 2" % TYPES[t])
        kinds.append("ADD CONST 0 - %%s %03x 1 0" % TYPES[t])
    for t in ("UINT8", "FLOAT64", "COMPLEX64"):
        kinds.append("ADD CARRAY 0 - %%s %03x 2 1 0 1 0" % TYPES[t])
    kinds += ["ADD LINCOM 0 - %%s 1 0 %s %s 0 %s 0" % (IN, D1, D1),
              "ADD LINCOM 0 - %%s 1 1 %s %s %s %s 0" % (IN, D1, D1, D1),
              "ADD LINTERP 0 - %%s %s %s" % (IN, hx(b"table")),
              "ADD BIT 0 - %%s %s 3 1" % IN, "ADD BIT 0 - %%s %s 3 4" % IN, "ADD BIT 0 - %%s %s 40 1" % IN,
              "ADD SBIT 0 - %%s %s 3 4" % IN,
              "ADD MULTIPLY 0 - %%s %s %s" % (IN, IN2), "ADD DIVIDE 0 - %%s %s %s" % (IN, IN2),
              "ADD INDIR 0 - %%s %s %s" % (IN, IN2), "ADD SINDIR 0 - %%s %s %s" % (IN, IN2),
              "ADD RECIP 0 - %%s %s 0 %s 0" % (IN, D1), "ADD RECIP 0 - %%s %s 1 %s %s" % (IN, D1, D1),
              "ADD PHASE 0 - %%s %s 5" % IN,
              "ADD POLYNOM 0 - %%s %s 2 0 %s 0 %s 0 %s 0" % (IN, D1, D1, D1),
              "ADD WINDOW 0 - %%s %s %s 1 5" % (IN, IN2), "ADD WINDOW 0 - %%s %s %s 3 %s" % (IN, IN2, D1),
              "ADD MPLEX 0 - %%s %s %s 1 10" % (IN, IN2),
              "ADD STRING 0 - %%s %s" % hx(b"value"), "ADD SARRAY 0 - %%s 2 %s %s" % (hx(b"a"), hx(b"b"))]
    out = []
    n = 0
    for kd in kinds:
        for hidden in (False, True):
            for v in (5, 6, 7, 8, 9, 10):
                c = Case("v%d" % n)
                n += 1
                c.pretty = False
                c.pure = False
                c.cmds += ["OPEN 0", kd % hx(b"f")]
                if hidden:
                    c.cmds.append("HIDE %s" % hx(b"f"))
                c.cmds.append("STD %d" % v)
                out.append(c)
    # every number-like name as a CONST used as a scalar field code without index (the <0> rule) and with index 0
    for nmz in Gen.NUMLIKE + [b"7", b"-1", b"+0", b".5", b"5.", b"0x", b"1e5", b"NAN", b"Inf", b"0X1P-2", b"00", b"1;2", b"1;0"]:
        if b"/" in nmz or b"." in nmz:
            continue        # dots are namespace separators (outside the entry model)
        for idx in (-1, 0):
            for v in (8, 10):
                c = Case("v%d" % n)
                n += 1
                c.pretty = False
                c.pure = False
                c.cmds += ["OPEN 0", "ADD CONST 0 - %s 001 5 0" % hx(nmz),
                           "ADD PHASE 0 - %s %s 0 S 0 %s %d" % (hx(b"ph"), hx(b"in"), hx(nmz), idx),
                           "ADD LINCOM 0 - %s 1 0 %s 0 0 %016x 0 S 0 %s %d" % (hx(b"lc"), hx(b"in"), dbits(2.0), hx(nmz), idx),
                           "STD %d" % v]
                out.append(c)
    for extra in (["FRAGATTR 0 4 -1 0 -1"], ["FRAGATTR 0 0 2 0 -1"], ["FRAGATTR 0 0 -1 7 -1"], ["FRAGATTR 0 0 -1 0 3000000"],
                  ["ADD CONST 0 - %s 001 1 0" % hx(b"a b")], ["ADD CONST 0 - %s 001 1 0" % hx(b"a#b")], ["ADD CONST 0 - %s 001 1 0" % hx(b"ENCODING")],
                  ["ADD CONST 0 - %s 001 1 0" % hx(b"p"), "ADD CONST 0 p %s 001 1 0" % hx(b"m")],
                  ["ADD CONST 0 - %s 001 1 0" % hx(b"t"), "ALIAS 0 - %s %s" % (hx(b"al"), hx(b"t"))],
                  ["INC 0 %s - %s -" % (hx(b"sub"), hx(b"px"))], ["INC 0 %s - - %s" % (hx(b"sub"), hx(b"sx"))]):
        for v in (5, 6, 7, 8, 9, 10):
            c = Case("v%d" % n)
            n += 1
            c.pretty = False
            c.pure = False
            c.cmds += ["OPEN 0"] + extra + ["STD %d" % v]
            out.append(c)
    return out


def h16x(v, k):
    if v[0] == "L":
        return "%016x" % v[k]
    return "0"


# ---------------------------------------------------------------- harness output

def parse_out(out):
    cases = {}
    cur = None
    snap = None
    for l in out.split("\n"):
        if l.startswith("CASE "):
            cur = {"ops": [], "text": {}, "snap": {}, "std": None}
            cases[l.split()[1]] = cur
        elif cur is None:
            continue
        elif l.startswith("OP "):
            cur["ops"].append(l.split()[1:])
        elif l.startswith("STDV "):
            t = l.split()
            cur["std"] = (int(t[1]), int(t[2]))
        elif l.startswith("TEXT "):
            t = l.split()
            cur["text"][int(t[1])] = (bytes.fromhex(t[2]) if t[2] != "!" else None) if len(t) > 2 else b""
        elif l.startswith("SNAP "):
            t = l.split()
            snap = {"err": int(t[2]), "lines": [], "errstr": ""}
            cur["snap"][t[1]] = snap
        elif l == "ENDSNAP":
            snap = None
        elif snap is not None:
            if l.startswith("ERRSTR "):
                snap["errstr"] = (unhx(l.split()[1]) or b"").decode("latin1")
            else:
                snap["lines"].append(l)
    return cases


def renumber_snapshot(a_lines, b_lines):
    """fragment indices are not stable across a reopen once fragments have been un-included (the table is compacted in
    memory, the reopened database numbers them in file order): rewrite b_lines to the numbering of a_lines, matching the
    fragments by file name.  Returns the rewritten lines, or None when the sets of fragment names differ"""
    def names(lines):
        m = {}
        for l in lines:
            if l.startswith("G "):
                t = l.split()
                m[int(t[1])] = kv(t[2:]).get("name")
        return m
    na, nb = names(a_lines), names(b_lines)
    if sorted(na.values()) != sorted(nb.values()) or len(set(na.values())) != len(na):
        return None
    inv = {v: k for k, v in na.items()}
    mp = {i: inv[n_] for i, n_ in nb.items()}
    if all(k == v for k, v in mp.items()):
        return b_lines
    out, gl = [], []
    for l in b_lines:
        if l.startswith("G "):
            t = l.split()
            t[1] = str(mp[int(t[1])])
            t = [("parent=%d" % (mp[int(x[7:])] if int(x[7:]) >= 0 else -1)) if x.startswith("parent=") else x for x in t]
            gl.append((int(t[1]), " ".join(t)))
        else:
            l2 = re.sub(r" frag=(\d+)", lambda m_: " frag=%d" % mp.get(int(m_.group(1)), int(m_.group(1))), l)
            out.append(l2)
    gl.sort()
    res_, placed = [], False
    for l in out:
        if l.startswith("R ") and not placed:
            res_ += [g_ for _, g_ in gl]
            placed = True
        res_.append(l)
    return res_


def kv(tokens):
    d = {}
    for t in tokens:
        if "=" in t:
            a, b = t.split("=", 1)
            d[a] = b
    return d


def snap_sv(sc, p):
    if sc != "-":
        n, i = sc.rsplit(":", 1)
        return "C%s:%s" % (n, i)
    return "L" + p


def snap_csv(sc, p):
    if sc != "-":
        n, i = sc.rsplit(":", 1)
        return "C%s:%s" % (n, i)
    return "L" + p


def canon_from_snap(line):
    """'F <name> type=.. ...' -> canonical entry string (same syntax as the driver), or None"""
    t = line.split()
    if len(t) < 3 or not t[2].startswith("type="):
        return None
    d = kv(t[2:])
    name = t[1]
    k = ENTYPE.get(int(d["type"], 16))
    if k == "RAW":
        return "RAW %s %s %s" % (name, TYPENAME.get(int(d["dtype"], 16), "?"), snap_sv(d["sc"], d.get("spf", "*")))
    if k == "LINCOM":
        n = int(d["n"])
        ins = d["in"].split(",")
        scs = d["sc"].split(",")
        ps = d["p"].split(",")
        out = []
        comp = 0
        for i in range(n):
            sm, sb = scs[i].split("/")
            pm, pb = ps[i].split("/")
            out.append("%s %s %s" % (ins[i], snap_csv(sm, pm), snap_csv(sb, pb)))
            for s_, p_ in ((sm, pm), (sb, pb)):
                if s_ == "-" and p_.split(";")[1] not in ("0000000000000000", "8000000000000000"):
                    comp = 1
        return "LINCOM %s %d %d %s" % (name, comp, n, " ".join(out))
    if k == "LINTERP":
        return "LINTERP %s %s %s" % (name, d["in"], d["table"])
    if k in ("BIT", "SBIT"):
        s0, s1 = d["sc"].split(",")
        p0, p1 = d["p"].split(",")
        return "%s %s %s %s %s" % (k, name, d["in"], snap_sv(s0, p0), snap_sv(s1, p1))
    if k in ("MULTIPLY", "DIVIDE", "INDIR", "SINDIR"):
        a, b = d["in"].split(",")
        return "%s %s %s %s" % (k, name, a, b)
    if k == "RECIP":
        comp = 1 if d["sc"] == "-" and d["p"].split(";")[1] not in ("0000000000000000", "8000000000000000") else 0
        return "RECIP %s %s %d %s" % (name, d["in"], comp, snap_csv(d["sc"], d["p"]))
    if k == "PHASE":
        return "PHASE %s %s %s" % (name, d["in"], snap_sv(d["sc"], d["p"]))
    if k == "POLYNOM":
        scs = d["sc"].split(",")
        ps = d["p"].split(",")
        comp = 0
        for s_, p_ in zip(scs, ps):
            if s_ == "-" and p_.split(";")[1] not in ("0000000000000000", "8000000000000000"):
                comp = 1
        return "POLYNOM %s %s %d %d %s" % (name, d["in"], comp, len(ps), " ".join(snap_csv(s_, p_) for s_, p_ in zip(scs, ps)))
    if k == "WINDOW":
        a, b = d["in"].split(",")
        op = int(d["op"])
        if d["sc"] != "-":
            th = snap_sv(d["sc"], "")
        elif op in (1, 6):
            th = "LI" + d["p"]
        elif op in (7, 8):
            th = "LU" + d["p"]
        else:
            th = "LR" + d["p"]
        return "WINDOW %s %s %s %s %s" % (name, a, b, WINDOPS[op], th)
    if k == "MPLEX":
        a, b = d["in"].split(",")
        s0, s1 = d["sc"].split(",")
        p0, p1 = d["p"].split(",")
        return "MPLEX %s %s %s %s %s" % (name, a, b, snap_sv(s0, p0), snap_sv(s1, p1))
    if k in ("CONST", "CARRAY"):
        ct = int(d["ctype"], 16)
        tn = TYPENAME.get(ct, "?")
        vals = d["p"].split(",")
        pre = "X" if ct & 0x100 else "D" if ct & 0x80 else "I" if ct & 0x20 else "U"
        cvs = [pre + v for v in vals]
        if k == "CONST":
            return "CONST %s %s %s" % (name, tn, cvs[0])
        return "CARRAY %s %s %d %s" % (name, tn, len(cvs), " ".join(cvs))
    if k == "STRING":
        return "STRING %s %s" % (name, d["p"])
    if k == "SARRAY":
        return "SARRAY %s %s %s" % (name, d["len"], " ".join(d["p"].split(",")))
    return None


def strip_header(text):
    """the comment block and the blank line _GD_FlushFragment writes first"""
    lines = text.split(b"\n")
    i = 0
    while i < len(lines) and lines[i].startswith(b"#"):
        i += 1
    if i < len(lines) and lines[i] == b"":
        i += 1
    return lines[i:]


def hidden_late_type(lines):
    """a hidden field whose type needs Standards Version 10"""
    for l in lines:
        if l.startswith("F ") and " hidden=1" in l:
            m = re.search(r" type=([0-9a-f]{2})", l)
            if m and ENTYPE.get(int(m.group(1), 16)) in ("SARRAY", "INDIR", "SINDIR"):
                return ENTYPE[int(m.group(1), 16)]
    return None


def deref_diff(a, b):
    """every difference is a literal (before) that is a scalar field code again (after)"""
    ta, tb = a.split(), b.split()
    if len(ta) != len(tb):
        return False
    n = 0
    for k, (x, y) in enumerate(zip(ta, tb)):
        if x == y:
            continue
        if x[:1] == "L" and y[:1] == "C":
            n += 1
        elif (k == 2 and ta[0] == "LINCOM") or (k == 3 and ta[0] in ("RECIP", "POLYNOM")):
            continue
        else:
            return False
    return n > 0


def unescape_token(t):
    out = bytearray()
    i = 0
    while i < len(t):
        ch = t[i:i + 1]
        if ch == b"\\" and i + 1 < len(t):
            nx = t[i + 1:i + 2]
            if nx == b"x" and i + 3 < len(t) + 1:
                out.append(int(t[i + 2:i + 4], 16)); i += 4
            else:
                out += nx; i += 2
        elif ch == b'"':
            i += 1
        else:
            out += ch; i += 1
    return bytes(out)


def first_raw_in_text(text):
    """hex name of the first RAW field line of a fragment text (None if there is none)"""
    for ln in strip_header(text):
        if not ln or ln.startswith((b"/", b"#")):
            continue
        nm = first_token_raw(ln)
        rest = ln[len(nm):].lstrip(b" ")
        if rest.startswith(b"RAW "):
            return hx(unescape_token(nm))
    return None


def first_token_raw(ln):
    """the first token of a written line, escapes left in place"""
    i = 0
    while i < len(ln):
        if ln[i:i + 1] == b"\\":
            i += 2
            continue
        if ln[i:i + 1] == b" ":
            break
        i += 1
    return ln[:i]


DBL_RE = re.compile(r"(?<![0-9a-f])([0-9a-f]{16})(?![0-9a-f])")


def classify_diff(a, b, stable, gtext):
    """a, b: canonical entry strings before/after (normalised).  Returns the finding key that
    explains every difference, or None."""
    ta, tb = a.split(), b.split()
    if len(ta) != len(tb):
        return None
    keys = set()

    def unstable_key(ub):
        if ub == 0x8000000000000000:
            return KNZ
        if stable(ub):
            return None
        if 0 < (ub & 0x7fffffffffffffff) < (1 << 52):
            return KSUB
        return K15
    for k, (x, y) in enumerate(zip(ta, tb)):
        if x == y:
            continue
        if k == 2 and ta[0] in ("LINCOM",) or (k == 3 and ta[0] in ("RECIP", "POLYNOM")):
            continue        # the derived complex-scalar flag follows the literals
        hs = DBL_RE.findall(x)
        if x[:1] in "LDX" and y[:1] == "C":
            # a literal came back as a field code: its text was not accepted as a number
            got = [unstable_key(int(h, 16)) for h in hs]
            got = [g_ for g_ in got if g_]
            if not got:
                return None
            keys.update(got)
            continue
        hy = DBL_RE.findall(y)
        if x[:1] != y[:1] or len(hs) != len(hy) or not hs:
            return None
        if DBL_RE.sub("#", x) != DBL_RE.sub("#", y):
            return None
        for pos, (u, w) in enumerate(zip(hs, hy)):
            if u != w:
                kk = unstable_key(int(u, 16))
                if kk == KNZ and pos % 2 == 1 and ";" in x:
                    kk = KNZI       # imaginary part of an entry written without the complex-scalar flag
                if not kk:
                    return None
                keys.add(kk)
    if not keys:
        return None
    return sorted(keys)[0]


def main():
    chk = vlib.Check("C07")
    rng = chk.rng
    # 1. translator
    rc, tout = vlib.sh("python3 %s/translate/tr_formats.py" % V)
    trans_problems = [l for l in tout.splitlines() if l.startswith("PROBLEM")]
    m = re.search(r"FLUSH_DIGITS (\d+)", tout)
    P = int(m.group(1)) if m else 15
    gates = {}
    try:
        gtxt = open(os.path.join(V, "coq", "Gen", "Formats.v")).read()
        for tab in ("parser_gate", "parser_directive_gate"):
            mt = re.search(r"Definition %s : list \(string \* Z\) := \[(.*?)\]\." % tab, gtxt, re.S)
            for k_, v_ in re.findall(r'\("(\w+)", (\d+)\)', mt.group(1) if mt else ""):
                gates[k_] = int(v_)
        mt = re.search(r"Definition parser_namespace_gate : Z := (\d+)", gtxt)
        if mt:
            gates["NAMESPACE"] = int(mt.group(1))
    except OSError:
        pass
    facts = {}
    for k_, v_ in re.findall(r"\b(INC_BLANK|NS_RULE|REPRZ|STRIP_GUARD|NAME_FLAG|INHERIT_RULE|TOK_ZERO|HIDDEN_SKIPS) (\d)", tout):
        facts[k_] = (v_ == "1")
    # 2. proofs
    proved = chk.prove("Properties_C07", extra_targets=["Gen/Formats.vo"])
    chk.cov["trusted_base"] += [
        "Coq 8.16.1 kernel, vm_compute",
        "translator translate/tr_formats.py (regex over the printf format strings of src/flush.c and the version tables of _GD_FindVersion/_GD_ParseFieldSpec)",
        "glibc printf %.Pg / strtod / strtoll are modelled by exact Gallina functions (coq/C07/Number.v: correct rounding, ties to even, ERANGE on overflow and tiny inexact results); the models are compared with the library's output on every run (text equality, parse equality)",
        "extraction: ExtrOcamlBasic only; OCaml driver ocaml/C07/driver.ml; C harness harness/C07/rt.c (uses internal.h only to enumerate D->entry and read ref_name)",
        "entry model covers one fragment without affixes/namespaces, Standards Versions >= 5, field codes without '.'; includes, affixes, aliases, hidden flags, metafields and fragment attributes are checked on the implementation only (snapshot before == after)",
    ]
    chk.assumptions += ["NaN payloads are not compared (NaNs are one class)",
                        "a fragment written for Standards Version <= 4 cannot declare its version; the GD_PEDANTIC reopen is not compared there",
                        "a fragment written for Standards Version <= 5 cannot record its encoding (no /ENCODING directive); the encoding is not compared there",
                        "a scalar index -1 and the index 0 forced by the '<0>' disambiguation of number-like CONST names are the same index",
                        "a trailing '.z' (explicit no-representation suffix) added to the ambiguous one-character codes r,i,a,m is the same field code"]
    try:
        impl = vlib.build_impl()
        exe = vlib.build_harness(impl, os.path.join(V, "harness/C07/rt.c"))
        ok, log = vlib.coq_make(["C07/Entry.vo"])
        drv = vlib.build_ocaml_driver("C07", "C07/Extract.v", "ocaml/C07/driver.ml") if ok else None
    except vlib.BuildError as e:
        chk.violation("build", "build failed: " + str(e)[:2000], {"kind": "build", "log": str(e)}, found=False)
        return chk.finish()
    if drv is None:
        chk.violation("model-build", "Coq model does not compile: " + log[-1500:], {"kind": "model-build", "log": log[-4000:]}, found=False)
        return chk.finish()

    g = Gen(rng, P, facts)
    ncase = 260 if not chk.thorough else 4000
    cases = []
    for i in range(ncase):
        hard = (i % 4 == 3)
        rich = (i % 3 == 1)
        cases.append(gen_case(g, "g%d" % i, hard, rich))
    vcases = gen_version_cases()
    cases += vcases
    cases += gen_history_cases()
    cases += gen_known_history_cases()
    cases += gen_include_tree_cases(rng, 60 if not chk.thorough else 1500)
    cases += gen_partial_alter_cases(rng, 0)
    cases += gen_reference_cases(rng, 250 if not chk.thorough else 4000)
    for i in range(120 if not chk.thorough else 1500):
        cases.append(gen_xfrag_case(g, "x%d" % i))
    # known-finding witnesses (replayed on every run)
    wit = []
    for key, bits in ((K15, dbits(0.1 + 0.2)), (KSUB, dbits(1e-310)), (KNZ, 0x8000000000000000)):
        c = Case("w" + str(len(wit)))
        c.pretty = False
        c.cmds += ["OPEN 0", "ADD CONST 0 - %s 088 %x 0" % (hx(b"c"), bits),
                   "ADD LINCOM 0 - %s 1 0 %s %016x 0 %016x 0" % (hx(b"l"), hx(b"in"), bits, dbits(1.0))]
        c.entries = [("CONST %s FLOAT64 D%s" % (hx(b"c"), h16(bits)), 0, None),
                     ("LINCOM %s 0 1 %s L%s;%s L%s;%s" % (hx(b"l"), hx(b"in"), h16(bits), h16(0), h16(dbits(1.0)), h16(0)), 0, None)]
        c.dbls = [bits]
        c.wkey = key
        wit.append(c)
    c = Case("w%d" % len(wit))
    c.pretty = False
    c.cmds += ["OPEN 0", "ADD SARRAY 0 - %s 2 %s %s" % (hx(b"s"), hx(b"a"), hx(b"b")), "HIDE %s" % hx(b"s"), "STD 9"]
    c.entries = [("SARRAY %s 2 %s %s" % (hx(b"s"), hx(b"a"), hx(b"b")), 0, None)]
    c.pure = False
    wit.append(c)
    for key, cmds in (
            (KINC, ["OPEN 0", "INC 0 %s %s %s -" % (hx(b"sub"), hx(b"ns"), hx(b"p")), "ADD CONST 1 - %s 008 3 0" % hx(b"ns.pc")]),
            (KNSV, ["OPEN 0", "INC 0 %s %s - -" % (hx(b"sub"), hx(b"ns")), "STD 9"]),
            (KREPRZ, ["OPEN 0", "INC 0 %s - %s -" % (hx(b"sub"), hx(b"p")), "ADD PHASE 1 - %s %s 1" % (hx(b"px"), hx(b"pr"))]),
            (KINH, ["OPEN 0", "INC 0 %s - - -" % hx(b"sub"), "FRAGATTR 0 4 -1 0 -1"]),
            (KMOVREF, ["OPEN 0", "INC 0 %s - - %s" % (hx(b"sub"), hx(b"_S")), "ADD RAW 0 - %s 088 1" % hx(b"d"), "MFLUSH", "MOVE %s 1 2" % hx(b"d")]),
            (KNZI, ["OPEN 0", "ADD POLYNOM 0 - %s %s 1 1 %016x 8000000000000000 %016x 0" % (hx(b"p"), hx(b"in"), dbits(1.5), dbits(2.0))]),
            (KUNCLEAN, ["OPEN 0", "FRAGATTR 0 0 -1 0 4000000", "ADD RAW 0 - %s 088 1" % hx(b"r"), "MFLUSH", "RENAME %s %s 0" % (hx(b"r"), hx(b"x"))]),
            (KREFREPR, ["OPEN 0", "INC 0 %s %s - -" % (hx(b"sub"), hx(b"ns")), "ADD RAW 1 - %s 088 1" % hx(b"ns.i")]),
            (KAMB, ["OPEN 0", "ADD CONST 0 - %s 001 5 0" % hx(b"1e3"), "ADD PHASE 0 - %s %s 0 S 0 %s -1" % (hx(b"ph"), hx(b"in"), hx(b"1e3")), "STD 6"]),
            (KMOVAFF, ["OPEN 0", "INC 0 %s - - %s" % (hx(b"sub"), hx(b"_S")), "ADD CONST 0 - %s 001 5 0" % hx(b"k"),
                       "ADD PHASE 0 - %s %s 0 S 0 %s -1" % (hx(b"ph"), hx(b"in"), hx(b"k")), "MOVE %s 1 2" % hx(b"ph")]),
            (KDELREF, ["OPEN 0", "INC 0 %s - - -" % hx(b"sub"), "ADD RAW 1 - %s 088 3" % hx(b"d"), "MFLUSH", "DELETE %s 8" % hx(b"d")]),
            (KDEREF, ["OPEN 0", "INC 0 %s - - -" % hx(b"sub"), "ADD CONST 1 - %s 001 8 0" % hx(b"k"),
                      "ADD PHASE 0 - %s %s 0 S 0 %s -1" % (hx(b"ph"), hx(b"in"), hx(b"k")), "MFLUSH", "DELETE %s c" % hx(b"k")])):
        c = Case("w%d" % len(wit))
        c.pretty = False
        c.cmds += cmds
        c.pure = False
        c.wkey = key
        c.inc = (None, None, b"_S") if key == KMOVAFF else None
        wit.append(c)
    allc = cases + wit
    sc = vlib.scratch("C07-")
    inp = "".join(c.text() for c in allc).encode()
    if os.environ.get("VERIF_C07_DUMP"):
        open(os.environ["VERIF_C07_DUMP"], "wb").write(inp)
    # the harness prints and flushes "CASE <id>" first: if it (or the library under it) dies, the last
    # case seen is the one it died in; that case is recorded and the run continues after it
    res = {}
    crashed = []
    pending = list(allc)
    while pending:
        inp = "".join(c.text() for c in pending).encode()
        rc1, out1 = vlib.sh([exe, sc], inp=inp, timeout=1500)
        part = parse_out(out1)
        res.update(part)
        if rc1 == 0 and len(part) == len(pending):
            break
        seen = [c for c in pending if c.cid in part]
        if not seen or len(crashed) > 40:
            chk.violation("harness", "harness failed rc=%d: %s" % (rc1, out1[-300:]), {"kind": "harness"}, found=False)
            return chk.finish()
        bad = seen[-1]
        crashed.append((bad, rc1, out1[-200:]))
        res.pop(bad.cid, None)
        pending = pending[pending.index(bad) + 1:]
    for bad, rc1, tail in crashed:
        rep = {"kind": "crash", "commands": bad.cmds + ["FLUSH", "END"], "rc": rc1,
               "how": "feed the commands to harness/C07/rt.c <scratch-dir>; the process dies with signal %d" % (-rc1)}
        if any(x.startswith("MOVE ") for x in bad.cmds) and getattr(bad, "inc", None) and any(bad.inc):
            chk.violation(KMOVAFF, "gd_move into a fragment with affixes of a field whose input/scalar codes do not carry them is accepted; "
                          "gd_metaflush then dereferences the NULL that _GD_StripCode returns (_GD_WriteFieldCode -> _GD_TokToNum(NULL)): process died with rc=%d (case %s)" % (rc1, bad.cid), rep)
        else:
            chk.violation("crash", "the library crashed (rc=%d) in case %s: %s" % (rc1, bad.cid, tail), rep)
    allc = [c for c in allc if c.cid in res]

    # ---- driver batch: stability of every double literal, model text, model parse of the real lines
    dq = []
    alld = sorted({b for c in allc for b in c.dbls})
    for b in alld:
        dq.append("G %d %016x" % (P, b))
    # the classical fact used for the digit obligation, evaluated on the executable model:
    # 17 significant digits identify every normal binary64 value
    norm = [b for b in alld if (1 << 52) <= (b & 0x7fffffffffffffff) < (0x7ff << 52)]
    extra17 = [(rng.getrandbits(1) << 63) | (rng.randint(1, 2046) << 52) | rng.getrandbits(52) for _ in range(2000 if not chk.thorough else 40000)]
    norm17 = norm + extra17
    jobs = []     # (case, kind, payload)
    for c in allc:
        r_ = res[c.cid]
        if r_["std"] is None or 0 not in r_["text"] or r_["text"][0] is None:
            continue
        std, perm = r_["std"]
        c.std, c.perm = std, perm
        c.dstd = std
        A = r_["snap"].get("A")
        if not A or A["err"]:
            continue
        c.A = {}
        c.order = []
        for l in A["lines"]:
            if l.startswith("F "):
                ce = canon_from_snap(l)
                nm = l.split()[1]
                c.order.append((nm, l))
                if ce:
                    c.A[nm] = ce
        # max_len as _GD_FlushFragment computes it (pretty printing)
        maxlen = 0
        if c.pretty:
            tl = [len(unhx(nm) or b"") for nm, l in c.order if " meta=1" not in l and (" frag=0" in l or " INDEX" in l)]
            if tl:
                maxlen = min(2 * sum(tl) // len(tl), max(tl), 80)
        c.maxlen = maxlen
        # a fragment that was not rewritten by the last flush still declares the version of the flush that wrote it
        m0 = re.search(rb"^/VERSION (\d+)$", r_["text"][0], re.M)
        if m0 and not perm:
            std = int(m0.group(1))
            c.std = std
        if std >= 5:
            given = {e[0].split()[1]: e[0] for e in c.entries}
            c.M = {}
            for nm, ce in c.A.items():
                l = [x for n_, x in c.order if n_ == nm][0]
                ismeta = " meta=1" in l
                if " frag=0" not in l or (ismeta and (std < 7 or perm)):
                    continue        # Standards Version 6 writes metafields with the META directive (not modelled)
                # the entry as it was added (gd_entry normalises a CONST's scalar index to -1)
                if nm in given and normalise(given[nm], idx=True) == normalise(ce, idx=True):
                    ce = given[nm]
                c.M[nm] = ce
                jobs.append((c, "P", nm))
                dq.append("P %d %d %d %d %d %s" % (std, perm, 1 if c.pretty else 0, 0 if ismeta else maxlen, P, ce))
            body = strip_header(r_["text"][0])
            for ln in body:
                if ln and not ln.startswith(b"/") and not ln.startswith(b"#") and not ln.startswith(b"META ") and (b"/" not in first_token_raw(ln) or (std >= 7 and not perm)):
                    jobs.append((c, "L", ln))
                    dq.append("L %d %d %s" % (10 if perm else std, 0 if perm else 1, hx(ln + b"\n")))
    # fragment-level lines: header, /INCLUDE, /HIDDEN, /ALIAS (writer and reader model)
    ENCN = {0x1000000: "none", 0x2000000: "text", 0x3000000: "slim", 0x4000000: "gzip", 0x5000000: "bzip2", 0x6000000: "lzma",
            0x7000000: "sie", 0x8000000: "zzip", 0x9000000: "zzslim", 0xa000000: "flac"}
    HDR = (b"/VERSION ", b"/ENDIAN ", b"/PROTECT ", b"/FRAMEOFFSET ", b"/ENCODING ")
    fjobs = []
    n_before_f = len(dq)

    def gattrs(lines):
        out = {}
        for l in lines:
            if l.startswith("G "):
                t = l.split()
                d_ = kv(t[2:])
                out[int(t[1])] = d_
        return out
    for c in allc:
        r_ = res[c.cid]
        if not hasattr(c, "A") or c.std < 6 or c.perm:
            continue
        GA = gattrs(r_["snap"]["A"]["lines"])
        B_ = r_["snap"].get("B")
        GB = gattrs(B_["lines"]) if B_ and not B_["err"] else {}
        c.GA, c.GB = GA, GB
        for i, txt in r_["text"].items():
            if not txt or i not in GA:
                continue
            body = strip_header(txt)
            hdr = [l for l in body if l.startswith(HDR)]
            ga = GA[i]
            vi = c.std
            if hdr and hdr[0].startswith(b"/VERSION "):
                vi = int(hdr[0].split()[1])
            if vi < 6:
                continue
            end = int(ga["end"], 16)
            par = int(ga["parent"])
            force = 1 if (par >= 0 and par in GA and int(GA[par]["off"]) != 0) else 0
            enc = ENCN.get(int(ga["enc"], 16), "-")
            fjobs.append((c, "F", i, hdr))
            fjobs[-1] = (c, "F", i, hdr)
            c.fver = getattr(c, "fver", {}); c.fver[i] = vi
            dq.append("F %d %d %d %s %s %d %s" % (vi, 1 if end & 4 else 0, 1 if end & 0x2000 else 0, ga["prot"], ga["off"], force, enc))
            if par >= 0 and par in GA:
                ioff, iprot = GA[par]["off"], GA[par]["prot"]
            else:
                ioff, iprot = "0", "0"
            fjobs.append((c, "R", i, None))
            dq.append("R %s %s %s" % (ioff, iprot, ",".join(hx(l + b"\n") for l in hdr) or "."))
            if i == 0:
                for j, gj in GA.items():
                    if int(gj["parent"]) == 0 and ga["px"] == "-" and ga["sx"] == "-" and ga["ns"] in (".", "-"):
                        nsj = gj["ns"] if gj["ns"] not in (".", "-") else "-"
                        fjobs.append((c, "I", j, body))
                        dq.append("I %d %s %s %s %s" % (1 if facts.get("INC_BLANK") else 0, gj["name"], nsj, gj["px"], gj["sx"]))
                if c.std >= 10:
                    for ln in body:
                        if ln.startswith(b"/INCLUDE "):
                            fjobs.append((c, "J", ln, None))
                            dq.append("J %d %s" % (c.std, hx(ln + b"\n")))
                if ga["px"] == "-" and ga["sx"] == "-" and ga["ns"] in (".", "-"):
                    for l in r_["snap"]["A"]["lines"]:
                        if l.startswith("F ") and " frag=0 " in l and " hidden=1" in l and " meta=0" in l and "2f" not in [l.split()[1][k:k + 2] for k in range(0, len(l.split()[1]), 2)]:
                            fjobs.append((c, "H", l.split()[1], body))
                            dq.append("H %d %d %s" % (c.std, c.perm, l.split()[1]))
                        if l.startswith("F ") and " ALIAS frag=0 " in l and "2f" not in [l.split()[1][k:k + 2] for k in range(0, len(l.split()[1]), 2)]:
                            tg = l.rsplit("target=", 1)[1].strip()
                            fjobs.append((c, "A", l.split()[1], body))
                            dq.append("A %d %d %s %s" % (c.std, c.perm, l.split()[1], tg))
    n_frag_jobs = len(dq) - n_before_f
    n_main = len(dq)
    for b in norm17:
        dq.append("G 17 %016x" % b)
    rc2, out2 = vlib.sh([drv], inp=("\n".join(dq) + "\n").encode(), timeout=3000)
    dl = out2.split("\n")
    if rc2 != 0 or len(dl) < len(dq):
        chk.violation("driver", "driver failed rc=%d lines=%d/%d %s" % (rc2, len(dl), len(dq), out2[-300:]), {"kind": "driver"}, found=False)
        return chk.finish()
    stable_tab = {}
    gtext = {}
    for b, l in zip(alld, dl):
        t = l.split()
        stable_tab[b] = (t[1] == "1")
        gtext[b] = t[0]
    stable = lambda b: stable_tab.get(b, True)
    pres = {}
    lres = {}
    for (c, kind, pay), l in zip(jobs, dl[len(alld):]):
        if kind == "P":
            pres[(c.cid, pay)] = l
        else:
            lres[(c.cid, pay)] = l

    bad17 = [b for b, l in zip(norm17, dl[n_main:]) if l.split()[1:] != ["1"]]
    if bad17:
        chk.violation("model/digits17", "the executable printf/strtod model does not read back the normal double %016x printed with 17 significant digits" % bad17[0],
                      {"kind": "model", "bits": "%016x" % bad17[0]}, found=False)
    chk.cov["digits17_model_checked"] = len(norm17)
    chk.notes.append("digit obligation: src/flush.c prints doubles with %d significant digits (%s branch of double_sites_roundtrip_digits_verdict); "
                     "hidden-entry version rule %s (%s branch of version_sound_hidden_verdict)" % (
                         P, "statement" if P >= 17 else "refutation",
                         "skipped for hidden entries" if "HIDDEN_SKIPS 1" in tout else "applied to hidden entries",
                         "refutation" if "HIDDEN_SKIPS 1" in tout else "statement"))
    fres = list(zip(fjobs, dl[n_before_f:n_before_f + n_frag_jobs]))
    # ---- judge
    n_eval = 0
    nontriv = set()
    n_text = n_parse = n_snap = 0
    kinds_seen = {}
    for c in allc:
        r_ = res[c.cid]
        forced = getattr(c, "wkey", None) if getattr(c, "wkey", None) in (KINC, KNSV, KREPRZ, KINH, KMOVREF, KDEREF, KDELREF, KMOVAFF, KREFREPR, KAMB, KNZI, KUNCLEAN) else None
        oracle = None
        if not forced and hasattr(c, "A") and not c.perm:
            need, why = needed_version(r_["snap"]["A"]["lines"], gates)
            hk = history_key(c, r_["ops"], need)
            if hk in (KNOREVAL, KSTALE):
                forced = hk
            elif hk == KORACLE:
                oracle = (need, why)
            seen_mflush = False
            for i_, cmd_ in enumerate(c.cmds):
                if cmd_ == "MFLUSH":
                    seen_mflush = True
                elif seen_mflush and cmd_.startswith(("ALTERAFFIX ", "NSALTER ")) and any(int(o[0]) == i_ and o[1:] == ["0", "0"] for o in r_["ops"]):
                    forced = forced or KAFFPAR
        c.dynforced = forced

        def viol(key, desc, rep, found=True, forced=forced):
            return chk.violation(forced if forced else key, desc, rep, found=(found or bool(forced)))
        replay = {"kind": "case", "commands": c.cmds + ["FLUSH", "END"],
                  "how": "feed the commands to harness/C07/rt.c <scratch-dir> (built by vlib.build_harness); compare SNAP A with SNAP B/C"}
        fl = [o for o in r_["ops"]]
        if oracle:
            chk.violation(KORACLE, "gd_dirfile_standards accepted Standards Version %d for a database that contains %s, which the parser only reads from "
                          "Standards Version %d on (the list of conforming versions was not recomputed after the last metadata change), case %s" % (
                              c.dstd, oracle[1], oracle[0], c.cid), dict(replay, accepted=c.dstd, needed=oracle[0], because=oracle[1]))
        if forced in (KNOREVAL, KSTALE):
            need, why = needed_version(r_["snap"]["A"]["lines"], gates)
            viol(forced, "the database is flushed as Standards Version %d although it contains %s (needs %d)" % (c.dstd, why, need), replay)
        if any(o[1:] == ["-27", "-27"] for o in fl):
            viol(KUNCLEAN, "gd_rename/gd_move of a RAW field of a gzip/lzma-encoded fragment whose data file was only created (never written) fails with "
                 "GD_E_UNCLEAN_DB and leaves the DIRFILE invalid: every later call, gd_metaflush included, returns GD_E_BAD_DIRFILE (case %s)" % c.cid, replay)
            continue
        if not hasattr(c, "A") and any(x.startswith("MOVE ") for x in c.cmds) and fl and fl[-1][1:] == ["-6", "-6"]:
            viol(KMOVAFF if facts.get("STRIP_GUARD") else KMOVREF,
                 "after gd_move gd_metaflush fails with GD_E_INTERNAL_ERROR: a field code (the stale /REFERENCE name, or an input/scalar code of the moved field) does not carry the fragment's affixes, case %s" % c.cid, replay)
            continue
        if not hasattr(c, "A") and fl and fl[-1][1:] == ["-6", "-6"] and any(x.startswith("STD ") and int(x.split()[1]) < 8 for x in c.cmds) \
                and any(" S " in x and any(numlike(unhx(t_)) for t_ in re.findall(r" S \d+ ([0-9a-f.]+) -1", x)) for x in c.cmds):
            viol(KAMB, "gd_dirfile_standards accepted a Standards Version < 8 although a number-like CONST name is used as a scalar field code without index "
                 "(needs the <0> suffix of Version 8); gd_metaflush then fails with GD_E_INTERNAL_ERROR (case %s)" % c.cid, replay)
            continue
        if not hasattr(c, "A"):
            # metaflush itself failed or nothing was written
            viol("metaflush/failed", "gd_metaflush failed for a database built by successful operations (case %s): ops=%s" % (c.cid, fl[-3:]), replay)
            continue
        A = r_["snap"]["A"]
        for tag in ("B", "C"):
            if tag == "C" and c.dstd < 5:
                continue        # below Standards Version 5 a fragment cannot declare its version: GD_PEDANTIC reads it as the newest
            S = r_["snap"].get(tag)
            n_eval += 1
            if S is None:
                continue
            if S["err"]:
                # which double literal does the error message quote?
                quoted = [b for b in c.dbls if (unhx(gtext.get(b, "")) or b"?").decode("latin1") in S["errstr"] and not stable(b)]
                subn = [b for b in quoted if 0 < (b & 0x7fffffffffffffff) < (1 << 52)]
                if "literal" in S["errstr"] and quoted:
                    key = KSUB if subn else K15
                    viol(key, "after gd_metaflush the dirfile no longer opens (%s): %s; the database holds the double %016x" % (
                        "plain" if tag == "B" else "GD_PEDANTIC", S["errstr"][:160], (subn or quoted)[0]), dict(replay, reopen=tag, error=S["errstr"]))
                elif "REFERENCE field code not found" in S["errstr"] and any(x.startswith("MOVE ") for x in c.cmds):
                    viol(KMOVREF, "after gd_move of the reference field the fragment keeps the old name in /REFERENCE and the dirfile no longer opens (%s): %s" % (
                        "plain" if tag == "B" else "GD_PEDANTIC", S["errstr"][:160]), dict(replay, reopen=tag, error=S["errstr"]))
                elif "REFERENCE field code not found" in S["errstr"] and re.search(r"\.[rima]\b", " ".join((unhx(t_) or b"").decode("latin1") for x in c.cmds if x.startswith("ADD RAW") for t_ in x.split()[4:5])):
                    viol(KREFREPR, "a RAW field whose name ends in .r/.i/.m/.a (one-character name in a namespace) is written to /REFERENCE without that ending "
                         "(_GD_WriteFieldCode takes it for a representation suffix): %s" % S["errstr"][:120], dict(replay, reopen=tag, error=S["errstr"]))
                elif "REFERENCE field code not found" in S["errstr"] and any(x.startswith("DELETE ") for x in c.cmds):
                    viol(KDELREF, "gd_delete of a reference RAW field clears /REFERENCE of the other fragments in memory without marking them modified; the stale directive makes the dirfile unopenable (%s): %s" % (
                        "plain" if tag == "B" else "GD_PEDANTIC", S["errstr"][:160]), dict(replay, reopen=tag, error=S["errstr"]))
                elif "indecipherable" in S["errstr"] and c.std < 10 and hidden_late_type(A["lines"]):
                    viol(KHID, "gd_dirfile_standards accepted Standards Version %d for a database with the hidden %s field; the fragment written for that version no longer opens: %s" % (
                        c.std, hidden_late_type(A["lines"]), S["errstr"][:120]), dict(replay, reopen=tag, error=S["errstr"]))
                else:
                    viol("reopen/%s/error" % ("plain" if tag == "B" else "pedantic"),
                                  "after gd_metaflush the dirfile no longer opens (%s, Standards Version %d): %s" % (
                                      "plain" if tag == "B" else "GD_PEDANTIC", c.std, S["errstr"][:200]), dict(replay, reopen=tag, error=S["errstr"]))
                continue
            la = [l for l in A["lines"]]
            lb = renumber_snapshot(la, [l for l in S["lines"]])
            if lb is None:
                viol("reopen/fragment-list", "the reopened database has a different set of fragments (%s): before %s | after %s (case %s)" % (
                    tag, [unhx(kv(l.split()[2:])["name"]) for l in la if l.startswith("G ")],
                    [unhx(kv(l.split()[2:])["name"]) for l in S["lines"] if l.startswith("G ")], c.cid), dict(replay, reopen=tag))
                continue
            S["lines"] = lb
            # normalisations allowed by the assumptions
            def norm(l):
                return l
            if len(la) != len(lb):
                viol("reopen/entry-count", "number of snapshot lines differs after reopen (%s): %d vs %d (case %s)" % (tag, len(la), len(lb), c.cid),
                              dict(replay, before=la, after=lb))
                continue
            for x, y in zip(la, lb):
                n_snap += 1
                if x == y:
                    continue
                if any(q.startswith(("UNINCLUDEN ", "UNINCLUDE ")) for q in c.cmds) and (
                        (x == "R -" and y.startswith("R ")) or
                        (x.startswith("G ") and " ref=- " in x + " " and re.sub(r" ref=\S+", "", x) == re.sub(r" ref=\S+", "", y))):
                    viol(KUNREF, "gd_uninclude of the fragment holding the reference field leaves the dirfile without a reference field in memory "
                         "(gd_reference() = NULL) although RAW fields remain; after flush+reopen one of them is the reference field: %s | %s" % (x[:80], y[:80]),
                         dict(replay, reopen=tag))
                    continue
                if c.dstd < 6 and ((x.startswith("R ") and y.startswith("R ")) or
                                   (x.startswith("G 0 ") and re.sub(r" ref=\S+", "", x) == re.sub(r" ref=\S+", "", y))):
                    # reader rule (dirfile-format(5)): without /REFERENCE the first RAW field in file order is the reference field
                    after_ref = y[2:].strip() if y.startswith("R ") else kv(y.split()[2:]).get("ref")
                    want_ref = first_raw_in_text(r_["text"].get(0) or b"")
                    if want_ref is not None and after_ref != want_ref:
                        viol("reopen/reference-rule", "without /REFERENCE the reopened dirfile nominates %s, the first RAW field of the format file is %s (case %s)" % (
                            after_ref, want_ref, c.cid), dict(replay, reopen=tag))
                        continue
                    viol(KREF5, "below Standards Version 6 no /REFERENCE is written; the reopened dirfile takes the first RAW field in file order, "
                         "which is not the reference field the database had: %s | %s" % (x[:60], y[:60]), dict(replay, reopen=tag))
                    continue
                if False:
                    viol(KREF5, "below Standards Version 6 no /REFERENCE is written and the parser nominates the LAST RAW field of the fragment "
                         "(first_raw is overwritten by every field line): the reference field changes from %s to %s on reopen" % (x[2:], y[2:]), dict(replay, reopen=tag))
                    continue
                if x.startswith("G ") and not x.startswith("G 0 ") and re.sub(r" ref=\S+", "", x) == re.sub(r" ref=\S+", "", y):
                    continue        # which RAW field an included fragment nominates is internal (gd_reference is compared)
                if x.startswith("G ") and c.std < 6 and re.sub(r" enc=\w+", "", x) == re.sub(r" enc=\w+", "", y):
                    continue        # Standards Versions <= 5 have no /ENCODING directive
                cx, cy = canon_from_snap(x) if x.startswith("F ") else None, canon_from_snap(y) if y.startswith("F ") else None
                if cx and cy and x.split()[2:6] == y.split()[2:6]:
                    if normalise(cx, idx=True) == normalise(cy, idx=True):
                        continue
                    key = classify_diff(normalise(cx, idx=True), normalise(cy, idx=True), stable, gtext)
                    if not key and deref_diff(cx, cy) and any(x_.startswith("DELETE ") and int(x_.split()[2], 16) & 4 for x_ in c.cmds):
                        key = KDEREF
                    if key:
                        c.flagged = getattr(c, "flagged", set()) | {cx.split()[1]}
                        viol(key, "parameter changed by metaflush+reopen: %s -> %s" % (cx[:300], cy[:300]),
                                      dict(replay, before=cx, after=cy, reopen=tag))
                        continue
                    kind = cx.split()[0]
                    viol("reopen/%s/changed" % kind, "entry differs after gd_metaflush + gd_open%s (Standards Version %d): before %s | after %s" % (
                        "(GD_PEDANTIC)" if tag == "C" else "", c.std, cx[:400], cy[:400]), dict(replay, before=cx, after=cy, reopen=tag))
                elif " ALIAS " in x and x.rsplit("=", 1)[0] == y.rsplit("=", 1)[0] and strip_z(x.rsplit("=", 1)[1]) == strip_z(y.rsplit("=", 1)[1]):
                    continue
                else:
                    viol("reopen/line-changed", "snapshot line differs after reopen (%s): %s | %s" % (tag, x[:300], y[:300]),
                                  dict(replay, before=x, after=y, reopen=tag))
        # (d) the API stored what was put in (harness sanity) and (b)/(c) correspondence
        if c.std < 5:
            continue
        body = strip_header(r_["text"][0])
        bodyset = set(body)
        for ce, frag, parent in c.entries:
            nm = ce.split()[1]
            if nm in c.A and normalise(c.A[nm], idx=True) != normalise(ce, idx=True) and parent is None and not getattr(c, "phase2", False):
                viol("harness/api-store", "gd_entry right after gd_add differs from what was added: %s vs %s" % (ce[:300], c.A[nm][:300]),
                              dict(replay, added=ce, got=c.A[nm]), found=False)
        for nm, ce in c.M.items():
            pr = pres.get((c.cid, nm))
            if pr is None or nm in getattr(c, "flagged", ()):
                continue
            t = pr.split(" ", 1)
            mtext = unhx(t[0]) if not t[0].startswith("FAIL") else None
            kinds_seen[ce.split()[0]] = kinds_seen.get(ce.split()[0], 0) + 1
            if b"/" in (unhx(nm) or b""):
                kinds_seen["(metafield lines)"] = kinds_seen.get("(metafield lines)", 0) + 1
            n_text += 1
            if mtext is None or not mtext.endswith(b"\n") or mtext[:-1] not in bodyset:
                near = [l for l in body if l.startswith((mtext or b"")[:max(3, len(unhx(nm) or b""))])][:1]
                viol("model/print/%s" % ce.split()[0],
                              "correspondence broken (writer): model print_entry gives %r, the fragment written by the library has %r (entry %s, Standards Version %d)" % (
                                  (mtext or b"?")[:200], (near[0] if near else b"<no such line>")[:200], ce[:200], c.std),
                              dict(replay, correspondence="print_entry vs _GD_FieldSpec", model=(mtext or b"").decode("latin1"), entry=ce), found=False)
            else:
                nontriv.add(mtext)
        if c.pure and not c.perm and not getattr(c, "flagged", None):
            # the whole body: header lines, then exactly the model lines in entry order, then /REFERENCE
            want = []
            for nm, l in c.order:
                pr = pres.get((c.cid, nm))
                if pr is not None and not pr.startswith("FAIL"):
                    want.append(unhx(pr.split(" ", 1)[0])[:-1])
            got = [l for l in body if l and not l.startswith(b"/")]
            if want != got:
                viol("model/print/fragment", "correspondence broken (writer): the field lines of the fragment are not the model lines in entry order (case %s): %r vs %r" % (
                    c.cid, got[:3], want[:3]), dict(replay, correspondence="fragment body", got=[x.decode("latin1") for x in got], want=[x.decode("latin1") for x in want]), found=False)
        B = r_["snap"].get("B")
        if B and not B["err"]:
            Bc = {}
            for l in B["lines"]:
                if l.startswith("F "):
                    ce = canon_from_snap(l)
                    if ce:
                        Bc[l.split()[1]] = (ce, l)
            for ln in body:
                lr = lres.get((c.cid, ln))
                if lr is None:
                    continue
                n_parse += 1
                if lr == "NONE" or lr.startswith("FAIL"):
                    viol("model/parse/none", "correspondence broken (reader): the library reopened the fragment but the model parser rejects the line %r (Standards Version %d)" % (ln[:200], c.std),
                                  dict(replay, correspondence="parse_line vs _GD_ParseFieldSpec", line=ln.decode("latin1")), found=False)
                    continue
                nm = lr.split()[1]
                if nm in getattr(c, "flagged", ()):
                    continue
                if nm not in Bc:
                    viol("model/parse/name", "correspondence broken (reader): model parses line %r as field %s, the library has no such field" % (ln[:200], nm),
                                  dict(replay, correspondence="parse_line", line=ln.decode("latin1"), model=lr), found=False)
                    continue
                if " meta=1" in Bc[nm][1] and (c.std < 7 or c.perm):
                    continue
                if normalise(Bc[nm][0], idx=True) != normalise(lr, idx=True):
                    viol("model/parse/%s" % lr.split()[0], "correspondence broken (reader): line %r: model parse %s, library %s" % (ln[:200], lr[:300], Bc[nm][0][:300]),
                                  dict(replay, correspondence="parse_line vs _GD_Parse*", line=ln.decode("latin1"), model=lr, impl=Bc[nm][0]), found=False)
    n_fragline = 0
    for (c, kind, key_, body), l in fres:
        if getattr(c, "flagged", None) or getattr(c, "wkey", None) or getattr(c, "dynforced", None):
            continue
        replay = {"kind": "case", "commands": c.cmds + ["FLUSH", "END"]}
        n_fragline += 1
        if kind == "F":
            want = unhx(l) if not l.startswith("FAIL") else None
            got = b"".join(x + b"\n" for x in body)
            if want != got:
                chk.violation("model/print/header", "correspondence broken (writer): fragment %d header written as %r, model print_header gives %r (case %s)" % (
                    key_, got[:160], (want or b"?")[:160], c.cid), dict(replay, correspondence="print_header vs _GD_FlushFragment"), found=False)
        elif kind == "R":
            gb = c.GB.get(key_)
            if gb is None:
                continue
            end = int(gb["end"], 16)
            want = "%d 1 %d %d %s %s %s" % (c.fver.get(key_, c.std), 1 if end & 4 else 0, 1 if end & 0x2000 else 0, gb["prot"], gb["off"], ENCN.get(int(gb["enc"], 16), "-"))
            if l.strip() != want:
                chk.violation("model/parse/header", "correspondence broken (reader): fragment %d header: model parse_header gives %r, the library read %r (case %s)" % (
                    key_, l.strip(), want, c.cid), dict(replay, correspondence="parse_header vs _GD_ParseDirective"), found=False)
        elif kind in ("I", "H", "A"):
            want = unhx(l) if not l.startswith("FAIL") else None
            if want is None or want[:-1] not in body:
                chk.violation("model/print/%s" % {"I": "include", "H": "hidden", "A": "alias"}[kind],
                              "correspondence broken (writer): model line %r is not in the fragment written by the library (case %s)" % ((want or b"?")[:200], c.cid),
                              dict(replay, correspondence="include_items / print_hidden / print_alias vs flush.c", body=[x.decode("latin1") for x in body][:40]), found=False)
        elif kind == "J":
            t = l.split()
            ok = False
            if len(t) == 4:
                for j, gj in c.GB.items():
                    nsj = gj["ns"] if gj["ns"] not in (".", "-") else "-"
                    if int(gj["parent"]) == 0 and gj["name"] == t[0] and (nsj, gj["px"], gj["sx"]) == (t[1], t[2], t[3]):
                        ok = True
            if not ok:
                chk.violation("model/parse/include", "correspondence broken (reader): /INCLUDE line %r: model parse_include gives %r, no fragment of the reopened database has these affixes (case %s)" % (
                    key_[:160], l.strip(), c.cid), dict(replay, correspondence="parse_include vs _GD_Include/_GD_SetFieldAffixes"), found=False)
    chk.cov["fragment_lines_compared"] = n_fragline
    # witnesses of listed findings
    for c in wit:
        pass
    chk.cov["evaluations"] = n_eval + n_text + n_parse
    chk.cov["distinct_nontrivial"] = len(nontriv)
    chk.cov["rule"] = ("%d generated databases (1-9 fields of all 18 types; names/strings from spaces, '#', quotes, backslashes, control and high-bit bytes, "
                       "number-like and keyword-like names; scalar field codes with and without index; CARRAY/SARRAY lengths around the 14-token window; "
                       "doubles: 3/4 of the cases decimal-short, 1/4 random bit patterns; complex parameters; 64-bit limits; optional GD_PRETTY_PRINT, "
                       "gd_dirfile_standards 6..10, metafields, aliases, hidden, fragment attributes) + 3 finding witnesses; each reopened plain and GD_PEDANTIC; "
                       "evaluations = reopen comparisons + model print comparisons + model parse comparisons; non-trivial = distinct field lines whose "
                       "model text equals the written text") % ncase
    chk.cov["snapshot_lines_compared"] = n_snap
    chk.cov["model_print_compared"] = n_text
    chk.cov["model_parse_compared"] = n_parse
    chk.cov["entry_kinds"] = kinds_seen
    chk.cov["flush_double_digits"] = P
    chk.cov["doubles"] = {"distinct": len(alld), "unstable_at_P": sum(1 for b in alld if not stable(b))}
    for c in allc[:3]:
        chk.sample({"case": c.cid, "commands": c.cmds[:6], "std": getattr(c, "std", None)})
    found_any = any(f for _, _, _, f in chk.violations)
    if trans_problems and not found_any:
        chk.violation("translator", "translator cannot read src/flush.c / src/parse.c: " + "; ".join(trans_problems[:3]),
                      {"kind": "translator", "problems": trans_problems}, found=False)
    if not proved and not found_any:
        chk.violation("proof", "Properties_C07 does not check: " + getattr(chk, "proof_log", "")[-1500:],
                      {"kind": "proof", "theorem": "Properties_C07", "log": getattr(chk, "proof_log", "")[-4000:]}, found=False)
    return chk.finish()


def strip_z(h):
    """drop the explicit no-representation suffix .z (the writer adds it to codes whose
    (sub)field name is the single character r, i, a or m; it means "no representation")"""
    if h.endswith("2e7a") and len(h) >= 6:
        return h[:-4]
    return h


def normalise(ce, idx=False):
    """assumption-level normalisation of a canonical entry: trailing .z on codes; with idx=True
    also scalar index -1 == 0 (the '<0>' disambiguation)"""
    t = ce.split()
    out = []
    for x in t:
        if re.fullmatch(r"[0-9a-f]+", x):
            x = strip_z(x)
        if x.startswith("C") and ":" in x:
            n, i = x[1:].rsplit(":", 1)
            n = strip_z(n)
            if idx and i == "-1":
                i = "0"
            x = "C%s:%s" % (n, i)
        out.append(x)
    return " ".join(out)


if __name__ == "__main__":
    sys.exit(main())
