#!/usr/bin/env python3
"""C10 -- a failed call changes nothing and every argument combination is answered safely.

proof:   Properties_C10.v (64-bit wrap guards, recursion-counter exit table, call model)
tie:     translator tr_guards.py (exit-path table + guard shapes regenerated from src/*.c)
         + correspondence of the extracted guard/call model with the ASan+UBSan build
search:  boundary-value sweep over the public API (each failing call repeated 40x,
         interleaved with valid calls, full snapshot before/after); the oracle is the
         property text: snapshot unchanged, counter back at 0, no sanitizer report,
         no GD_E_INTERNAL_ERROR, later valid calls still work."""
import sys, os, re, json, itertools, subprocess, concurrent.futures, shutil
sys.path.insert(0, os.path.join(os.path.dirname(os.path.abspath(__file__)), "..", "bin"))
import vlib

V = vlib.VERIF
I63, I64 = 1 << 63, 1 << 64
E_RANGE, E_ALLOC, E_INTERNAL, E_RECURSE, E_BOUNDS = -8, -7, -6, -10, -29
REPS = 40

# ------------------------------------------------------------------ running the harness

PIECE = 150          # cases per harness process
CPU_PER_CASE = 20    # seconds of CPU time a single case may use (a rep-40 case needs about 0.1 s)


def _run_piece(exe, wd, env, piece, cpu_limit):
    """one harness process over `piece`; the limit is CPU time of the child (RLIMIT_CPU), so machine load cannot
    produce a HANG verdict; the wall timeout is only a last resort against a child that sleeps for ever"""
    import resource
    script = []
    for c in piece:
        script.append("case %s %s %s %s %s %d" % (c["id"], c.get("mode", "RDWR"), c.get("p0", "none"), c.get("p1", "none"), c.get("enc1", "none"), c.get("verbose", 0)))
        script += c["cmds"]

    def lim():
        resource.setrlimit(resource.RLIMIT_CPU, (cpu_limit, cpu_limit + 5))
    try:
        p = subprocess.run([exe, wd], input=("\n".join(script) + "\n").encode(), stdout=subprocess.PIPE,
                           stderr=subprocess.STDOUT, env=env, timeout=max(1800, 40 * cpu_limit), preexec_fn=lim)
        out, rc = p.stdout.decode("utf-8", "replace"), p.returncode
        timed_out = rc in (-24, -9) or rc == 152       # SIGXCPU / SIGKILL from the CPU limit
    except subprocess.TimeoutExpired as ex:
        out, rc, timed_out = (ex.stdout or b"").decode("utf-8", "replace"), 124, True
    return out, rc, timed_out


def run_chunk(args):
    exe, wd, cases = args
    env = dict(os.environ)
    env["ASAN_OPTIONS"] = "allocator_may_return_null=1:detect_leaks=0:abort_on_error=0:exitcode=77"
    env["UBSAN_OPTIONS"] = "print_stacktrace=0"
    res = {}
    todo = list(cases)
    single = False      # after a CPU-limit hit the suspected case is run alone before it is called a hang
    while todo:
        piece = todo[:1] if single else todo[:PIECE]
        out, rc, timed_out = _run_piece(exe, wd, env, piece, CPU_PER_CASE * (3 if single else len(piece)))
        cur = None
        for ln in out.split("\n"):
            m = re.match(r"CASE (\S+) open_err (-?\d+)", ln)
            if m:
                cur = m.group(1)
                res[cur] = {"open_err": int(m.group(2)), "out": [], "crash": None}
            elif cur is not None:
                res[cur]["out"].append(ln)
        ids = [c["id"] for c in piece]
        if rc == 0:
            todo = todo[len(piece):]
            single = False
            continue
        last = cur if cur is not None else ids[0]
        k = ids.index(last) if last in ids else 0
        if timed_out and not single:
            # which case used up the budget is unknown: run the one that was in progress alone
            res.pop(last, None)
            todo = todo[k:]
            single = True
            continue
        if last not in res:
            res[last] = {"open_err": None, "out": [], "crash": None}
        res[last]["crash"] = "rc=%d\n" % rc + "\n".join(res[last]["out"][:3] + res[last]["out"][-60:]) + \
            ("\nHANG: the case alone used more than %d s of CPU time" % (3 * CPU_PER_CASE) if timed_out else "")
        todo = todo[k + 1:]
        single = False
    shutil.rmtree(wd, ignore_errors=True)
    return res


def run_cases(exe, cases, nproc=16):
    if not cases:
        return {}
    base = vlib.scratch("verif-C10-")
    n = max(1, min(nproc, (len(cases) + 19) // 20))
    chunks = [cases[i::n] for i in range(n)]
    res = {}
    with concurrent.futures.ThreadPoolExecutor(max_workers=n) as ex:
        for r in ex.map(run_chunk, [(exe, os.path.join(base, "w%d" % i), ch) for i, ch in enumerate(chunks)]):
            res.update(r)
    return res


def parse_rep(out):
    for ln in out:
        m = re.match(r"REP R (-?\d+) E (-?\d+) EL (-?\d+) NF (\d+) DIRTY (\d+) LMAX (-?\d+) LEND (-?\d+) PROBE (\d+) INT (\d+)(?: FL (\d+))?", ln)
        if m:
            return dict(zip(["ret", "err", "errl", "nf", "dirty", "lmax", "lend", "probe", "internal", "fl"], [int(x or 0) for x in m.groups()]))
    return None


def parse_op(out):
    for ln in out:
        m = re.match(r"R (-?\d+) E (-?\d+) L (-?\d+)", ln)
        if m:
            return tuple(map(int, m.groups()))
    return None


class Model:
    def __init__(self, drv):
        self.p = subprocess.Popen([drv], stdin=subprocess.PIPE, stdout=subprocess.PIPE, text=True, bufsize=1)

    def q(self, line):
        self.p.stdin.write(line + "\n")
        self.p.stdin.flush()
        return self.p.stdout.readline().strip()

    def close(self):
        try:
            self.p.stdin.close(); self.p.wait(timeout=5)
        except Exception:
            self.p.kill()


# ------------------------------------------------------------------ fixture description (harness/C10/api.c)
RAWS = {"raw": (2, 1, 100), "r16": (1, 2, 50)}           # spf, sample size, samples in file
CARR = {"carray": 4, "const": 1, "scarray": 3, "sconst": 1}
SARR = {"sarray": 4, "string": 1, "ssarray": 2, "sstring": 1}
TSIZE = {0: 0, 1: 1, 0x21: 1, 0x28: 8, 0x88: 8, 0x110: 16, 0x22: 2, 0x24: 4}
FIELDS = ["raw", "r16", "rc", "lincom", "linterp", "bit", "sbit", "phase", "mult", "div", "recip", "poly", "win",
          "mplex", "const", "carray", "indir", "string", "sarray", "sindir", "al", "lcbad", "raw/meta", "raw/mstr",
          "raw/mph", "sraw", "sph", "sconst", "scarray", "xph", "xlc", "xbit", "INDEX", "raw.i", "rc.m", "const.i", "phase.r",
          "P_praw", "P_plint", "P_pph", "P_pbit", "P_plc", "P_ppoly", "P_pconst", "P_pmult",
          "kc", "kca", "ab", "ac", "ad", "kalias", "kindir", "kc/mv", "kzz", "nofile", "skc"]
AFFIXED = ["P_plint", "P_pph", "P_pbit", "P_plc", "P_ppoly", "P_pmult", "P_praw", "P_pconst"]
BADFIELDS = ["nosuch", "~", "@L5000", "raw.z", "a%20b", "raw/nosuch", "raw/meta/x", ".", "/"]
NEWNAMES = ["newf", "raw", "~", "@L5000", "a/b", "raw/newm", "INDEX", "new.f", "ne#w", "nosuch/x", "al"]
INFIELDS = ["raw", "nosuch", "~", "carray", "@L5000", "r16", "sarray", "lcbad", "P_praw", "praw", "kc", "kca<1>"]
POOL = {
    # (no 2^31..2^40 offsets: a valid gd_putdata there legitimately creates a multi-gigabyte sparse file)
    "l": [0, 1, -1, -2, 5, 49, 50, 51, 1 << 61, 1 << 62, (1 << 62) + 1, I63 - 1, I63 - 2, -I63, -I63 + 1, -(1 << 62), (I63 - 1) // 2 + 1],
    # no mid-size counts (2^31..2^40): the library would really allocate them, which only measures the allocator
    "z": [0, 1, 2, 5, 100, 1 << 16, 1 << 61, I63 - 1, I63, I64 - 1, I64 - 2],
    "u": [0, 1, 2, 3, 4, 5, 1 << 32, I63, I64 - 1, I64 - 2, I64 - 3],
    "i": [0, 1, -1, 2, 3, 5, 6, 7, 63, 64, 65, (1 << 31) - 1, -(1 << 31), 100, 17, 19],
    "t": [0, 1, 0x21, 0x28, 0x88, 0x110, 0x48, 0xfa0, 0x208, 7],
    "f": [0, 1, -1, 2, 3, 4, 5, -2, (1 << 31) - 1],
    "d": ["0", "1.5", "-1", "1e300", "nan", "inf"],
    "x": [0, 1, 2, 4, 8, 15, 0xFFFFFFFF, 0x1000000, 0x2000000],
}
BASE = {"l": 0, "z": 1, "u": 0, "i": 1, "t": 0x88, "f": 0, "d": "1.5", "x": 0}
SPECS = ["phase%20RAW%20UINT8%201", "const%20RAW%20UINT8%202", "ab%20PHASE%20raw%20kc", "ac%20RAW%20UINT8%20skc", "ad%20BIT%20raw%20kca<2>%20kc", "recip%20RECIP%20raw%20kc", "newf%20RAW%20UINT8%201", "newc%20CONST%20UINT8%201", "bad%20line", "~", "@L70000", "raw%20RAW%20UINT8%201",
         "nb%20BIT%20raw%2063%202", "nb%20BIT%20raw%200%2065", "/INCLUDE%20x", "np%20PHASE%20raw%2099999999999999999999",
         "nl%20LINCOM%204%20raw%201%200", "nr%20RAW%20UINT8%200", "nr%20RAW%20UINT8%204294967296", "META%20raw%20m2%20CONST%20UINT8%201"]
# ops never driven by the generic sweep (reasons in notes/C10.md)
SKIP_OPS = {"framenum_subset64",   # C19: known non-termination on valid input
            "verbose_prefix", "desync", "strtok", "error_string"}
ADD_OPS_PREFIX = ("add_", "madd_")


# tuples that are always part of the sweep (regions of the recorded findings and their neighbours)
EXTRA = [("open_limit", (1,)), ("open_limit", (2,)), ("open_limit", (3,)), ("open_limit", (4,)),
         ("getdata64", ("raw.i", 0, 0, 0, 5, 1)), ("getdata64", ("phase.i", 0, 0, 1, 0, 0x88)), ("get_constant", ("const.i", 0x88)),
         ("getdata64", ("raw", 0, I63 - 2, 0, 5, 1)), ("putdata64", ("raw", 0, I63 - 2, 0, 5, 1)), ("seek64", ("raw", 0, -5, 0)),
         ("seek64", ("phase", 0, 1, 0)), ("native_type", ("lcbad",)), ("getdata64", ("lcbad", 0, 0, 0, 1, 1)),
         ("rename", ("raw", "newf", 16)), ("rename", ("sarray", "newf", 0x1F)), ("alter_carray", ("carray", 0x88, I63)),
         ("alter_sarray", ("sarray", 1 << 61)), ("add_entry", ("newf", 7, 1, 0)), ("add_bit", ("newf", "raw", (1 << 31) - 1, 1, 0)),
         ("open_limit", ((1 << 62) + 1,)), ("alter_lincom", ("lincom", 1, "raw")), ("alter_lincom", ("carray", 0, "raw")),
         ("add_const", ("newf", 0x88, 0, 0)), ("constants", (0xfa0,)), ("alter_frameoffset64", (I63 - 1, 0, 0)),
         ("alter_spec", ("phase", 0)), ("malter_spec", ("meta", "raw", 0)), ("add_spec", ("phase", 0)),
         ("add_entry", ("newf", 2, 17, 0)), ("madd_entry", ("raw", "newm", 2, 17)), ("add_entry", ("newf", 8, 17, 0)),
         ("add_entry", ("newf", 19, -1, 0)), ("add_sarray", ("newf", I64 - 1, 0)),
         ("alter_bit", ("bit", "!", 63, 64)), ("alter_bit", ("bit", "!", 0, 65)), ("alter_sbit", ("sbit", "!", 70, 70))]


# a field of the kind each alter function is for, and its counterpart in the prefixed fragment
# a valid call of the same kind made after a tuple whose 40 calls all failed: it must still work
FOLLOW = {"alter_frameoffset64": "alter_frameoffset64 1 0 1", "alter_endianness": "alter_endianness 0x4 0 1", "alter_encoding": "alter_encoding 0x2000000 1 1",
          "open_limit": "open_limit 3", "rename": "rename const fnewname 0", "move": "move const 1 0", "alter_raw": "alter_raw r16 0x22 2 1",
          "add_const": "add_const fnewc 0x88 0x88 0", "add_raw": "add_raw fnewr 1 1 0", "add_spec": "add_spec fnews%20CONST%20UINT8%201 0",
          "delete": "delete const 0", "include": "include sub/fnewfmt 0 0x10", "alter_linterp": "alter_linterp linterp ! other.txt 0",
          "alter_carray": "alter_carray carray 0x88 6", "alter_sarray": "alter_sarray sarray 6", "alter_protection": "alter_protection 1 1",
          "put_carray_slice": "put_carray_slice carray 1 2 0x88", "putdata64": "putdata64 r16 0 3 0 2 0x22", "uninclude": "uninclude 1 0"}
KIND_FIELD = {"alter_linterp": ["linterp", "P_plint"], "alter_phase": ["phase", "P_pph"], "alter_bit": ["bit", "P_pbit"], "alter_sbit": ["sbit"],
              "alter_lincom": ["lincom", "P_plc"], "alter_polynom": ["poly", "P_ppoly"], "alter_recip": ["recip"], "alter_mplex": ["mplex"],
              "alter_window": ["win"], "alter_multiply": ["mult", "P_pmult"], "alter_divide": ["div"], "alter_indir": ["indir"],
              "alter_sindir": ["sindir"], "alter_const": ["const", "P_pconst"], "alter_carray": ["carray"], "alter_sarray": ["sarray"],
              "alter_raw": ["rc", "P_praw"], "alter_entry": ["phase", "P_plint"], "rename": ["phase", "P_pph", "raw/meta", "rc"],
              "move": ["phase", "P_pph", "sconst", "kc", "rc", "sraw"], "seek64": ["nofile", "raw", "xph"], "putdata64": ["nofile"], "getdata64": ["nofile"], "delete": ["const", "P_pconst", "raw", "kc", "kca", "kc/mv", "raw/meta", "carray"]}


def arg_pool(op, sig, k):
    """values for argument k of op"""
    c = sig[k]
    if op == "delete" and k == 1:
        return list(range(16)) + [0xFFFFFFFF]       # every combination of GD_DEL_META/DATA/DEREF/FORCE
    if op == "rename" and k == 2:
        return list(range(16)) + [0x10, 0xFFFFFFFF]
    # calls that would legitimately rewrite data files to astronomically many samples are not made
    if op == "alter_raw" and k == 2:
        return [0, 1, 2, 3, 1 << 32]
    if op == "alter_entry" and c == "i" and k == len(sig) - 1:
        return [0]
    if op == "alter_frameoffset64" and c == "i" and k == len(sig) - 1:
        return [0, 1]       # a shift with moved data: small offsets rewrite 100-byte files, huge ones fail while positioning
    if c != "s":
        return POOL[c]
    if op in ("add_spec", "alter_spec") and k == 0 or op in ("madd_spec", "malter_spec") and k == 0:
        return SPECS
    if op in ("include", "include_affix", "include_ns") and k == 0:
        return ["sub/format1", "nosuch", "~", "@L5000", "format", "sub/newfmt", "sub/badfrag"]
    if op == "match_entries" and k == 0:
        return ["!", "ra.*", "(", "@L5000", "~"]
    if op in ("nentries", "entry_list", "raw_close", "sync", "flush", "reference") and k == 0:
        return ["!", "raw", "nosuch", "const", "~"] + (["lincom"] if op != "reference" else ["r16"])
    if op.startswith("madd_") and k == 0:
        return ["raw", "nosuch", "raw/meta", "al", "~", "const"]
    if op.startswith("madd_") and k == 1:
        return NEWNAMES
    if op.startswith("add_") and k == 0:
        return NEWNAMES
    if op in ("put_string",) and k == 1:
        return ["val", "~", "@L5000"]
    if op in ("rename",) and k == 1:
        return NEWNAMES
    if op in ("alter_affixes", "include_affix", "include_ns", "fragment_namespace") and k > 0:
        return ["!", "~", "p_", "@L5000", "a/b", "ns."]
    if op in ("add_linterp", "alter_linterp") and k == 2:
        return ["lut.txt", "nosuch.txt", "~", "@L5000", "!", "../lut.txt", "other.txt"] if op == "alter_linterp" else ["lut.txt", "nosuch.txt", "~", "@L5000"]
    if op.startswith("alter_") and c == "i" and k == len(sig) - 1 and op in ("alter_linterp", "alter_raw", "alter_spec", "malter_spec"):
        return [0, 1]      # a flag (move the table / recode the data)
    if k == 0:
        return FIELDS + BADFIELDS
    return INFIELDS + (["!"] if op.startswith("alter_") else [])


def base_arg(op, sig, k):
    c = sig[k]
    if c != "s":
        if op in ("add_lincom", "alter_lincom", "madd_lincom") and c == "i":
            return 1
        if op in ("alter_entry", "alter_raw") and c == "i" and k == len(sig) - 1:
            return 0
        return BASE[c]
    p = arg_pool(op, sig, k)
    return p[0]


def gen_sweep(ops, rng, per_op_random):
    cases = []
    for op, sig in ops:
        if op in SKIP_OPS:
            continue
        tuples = []
        base = [base_arg(op, sig, k) for k in range(len(sig))]
        tuples.append(tuple(base))
        for k in range(len(sig)):
            for v in arg_pool(op, sig, k):
                t = list(base); t[k] = v
                tuples.append(tuple(t))
        # second base: a scalar / different field so that type errors are reached with every other argument
        if sig and sig[0] == "s" and not op.startswith(ADD_OPS_PREFIX):
            for alt in ("carray", "sarray", "phase", "sraw", "P_plint", "P_pph"):
                for k in range(1, len(sig)):
                    for v in arg_pool(op, sig, k)[:: 2 if len(sig) > 3 else 1]:
                        t = list(base); t[0] = alt; t[k] = v
                        tuples.append(tuple(t))
        # alter_*: several arguments wrong/changed at once, on a field of the right kind and on its
        # counterpart in the fragment that carries a prefix (products of the argument pools; kept in the quick tier)
        prio = []
        if op in KIND_FIELD and len(sig) > 1:
            for alt in KIND_FIELD[op]:
                pools = [arg_pool(op, sig, k) for k in range(1, len(sig))]
                prod = list(itertools.product(*pools))
                lim = 60 if per_op_random <= 6 else 400
                for t in (prod if len(prod) <= lim else rng.sample(prod, min(len(prod), lim))):
                    prio.append((alt,) + tuple(t))
        # functions whose arguments are all scalars: the full product of the boundary pools (kept in the quick tier)
        if sig and "s" not in sig and "d" not in sig:
            prod = list(itertools.product(*[arg_pool(op, sig, k) for k in range(len(sig))]))
            lim = 260 if per_op_random <= 6 else 2000
            prio += prod if len(prod) <= lim else rng.sample(prod, min(len(prod), lim // 2))
        if op.startswith("alter_") and sig and sig[0] == "s" and len(sig) > 2:
            for alt in AFFIXED:
                pools = [arg_pool(op, sig, k) for k in range(1, len(sig))]
                prod = list(itertools.product(*pools))
                for t in (prod if len(prod) <= 20 else rng.sample(prod, min(len(prod), 20 if per_op_random <= 6 else 100))):
                    tuples.append((alt,) + tuple(t))
        for _ in range(per_op_random):
            tuples.append(tuple(rng.choice(arg_pool(op, sig, k)) for k in range(len(sig))))
        prio = [t for o_, t in EXTRA if o_ == op] + prio
        tuples = prio + tuples
        seen = set()
        for t in tuples:
            if t in seen:
                continue
            seen.add(t)
            cases.append({"op": op, "args": t, "prio": t in prio, "cmds": (["rmfile nofile"] if t and t[0] == "nofile" else []) +
                          ["rep %d %s %s" % (REPS, op, " ".join(str(a) for a in t))] +
                          (["op " + FOLLOW[op]] if op in FOLLOW else [])})
    return cases


# ------------------------------------------------------------------ classification of symptoms -> finding keys
GET_FAMILY = {"getdata64", "get_carray_slice", "get_carray", "get_constant", "mconstants", "constants", "carrays", "mcarrays"}
PUT_FAMILY = {"putdata64", "put_carray_slice", "put_carray", "put_constant"}
SLICE_FN = {"get_carray_slice": "gd_get_carray_slice", "put_carray_slice": "gd_put_carray_slice",
            "get_sarray_slice": "gd_get_sarray_slice", "put_sarray_slice": "gd_put_sarray_slice"}


BADTYPE_OPS = {"add_const", "add_carray", "madd_const", "madd_carray", "constants", "mconstants", "carrays", "mcarrays",
               "put_constant", "put_carray", "put_carray_slice", "get_constant", "get_carray", "get_carray_slice"}


def internal_key(op):
    if op in SLICE_FN and False:
        return "C10/slice-wrap/" + SLICE_FN[op]
    return "C10/internal-error/bad-data-type" if op in BADTYPE_OPS else "C10/internal-error/%s" % op.replace("madd_", "add_")


def partial_key(c, rp):
    """GD_ALL_FRAGMENTS operations that stop at a protected fragment after having changed the earlier ones"""
    if c["op"] in ("alter_encoding", "alter_endianness", "alter_frameoffset64") and int(c["args"][1]) == -1 and rp["errl"] == -22:
        return "C10/all-fragments-partial/%s" % c["op"]
    return None


def leak_key(op, args, err):
    code = str(args[0]) if args else ""
    if err == E_RANGE and op == "seek64":
        return "C10/recurse-leak/_GD_Seek/GD_E_RANGE"
    if err == E_RANGE and op in PUT_FAMILY:
        return "C10/recurse-leak/_GD_DoFieldOut/GD_E_RANGE"
    if err == E_RANGE and op in GET_FAMILY:
        return "C10/recurse-leak/_GD_DoField/GD_E_RANGE"
    if err == 0 and code.endswith(".i"):
        return "C10/recurse-leak/_GD_DoField/repr-imag"
    if err == -3 and code.split(".")[0] in ("lcbad",):
        return "C10/recurse-leak/_GD_NativeType/input-error"
    return "C10/recurse-leak/%s/E%d" % (op, err)


def crash_key(op, text, args=()):
    if "HANG" in text:
        return "C10/hang/%s" % op
    if op == "open_limit" and args and abs(int(args[0])) >= (1 << 60):
        return "C10/open_limit/size-overflow"
    first = re.search(r"FIRST R (-?\d+) E (-?\d+)", text)
    if op in ("alter_linterp", "alter_entry", "alter_spec") and first and first.group(2) == "0" and \
            ("double-free" in text or "_GD_ReadLinterpFile" in text or "heap-use-after-free" in text):
        return "C10/alter_linterp/stale-lut-after-table-change"
    if op in ("alter_carray", "alter_sarray") and args and int(args[-1]) >= (1 << 60):
        return "C10/%s/size-overflow" % op
    if op in ("alter_spec", "malter_spec") and "_GD_ParseFieldSpec" in text and "SEGV" in text:
        return "C10/ub/load-of-null-pointer-of-type-c/parse.c"     # the same NULL in_cols[1], seen without UBSan's null check
    if op in ("rename", "move") and args and (int(args[2]) & 0x10):
        return "C10/rename/flag-0x10-aliases-GD_REN_META"
    for fn, key in (("gd_get_carray_slice", "C10/slice-wrap/gd_get_carray_slice"), ("_GD_PutCarraySlice", "C10/slice-wrap/gd_put_carray_slice"),
                    ("gd_put_carray_slice", "C10/slice-wrap/gd_put_carray_slice"),
                    ("gd_get_sarray_slice", "C10/slice-wrap/gd_get_sarray_slice"), ("_GD_PutSarraySlice", "C10/slice-wrap/gd_put_sarray_slice"),
                    ("_GD_FindOpenFields", "C10/open_limit/opened-overrun"), ("_GD_CheckParent", "C10/add/empty-name")):
        if fn in text:
            return key
    m = re.search(r"#\d+ 0x[0-9a-f]+ in (_?GD_\w+|gd_\w+)", text)
    kind = re.search(r"AddressSanitizer: ([\w-]+)", text)
    if not kind:
        u = re.search(r"(\w+\.c):\d+:\d+: runtime error: (.*)", text)
        if u and "api.c" not in u.group(1):
            return "C10/ub/%s/%s" % ("index-out-of-bounds" if "out of bounds" in u.group(2) else re.sub(r"[^a-z]+", "-", u.group(2).lower())[:30], u.group(1))
    return "C10/crash/%s/%s/%s" % (kind.group(1) if kind else "abort", m.group(1) if m else "unknown", op)


def ub_key(op, line):
    m = re.match(r"(\w+\.c):(\d+):\d+: runtime error: (.*)", line.strip())
    if not m:
        return "C10/ub/%s" % op
    what = m.group(3)
    kind = "signed-overflow" if "signed integer overflow" in what else "shift" if "shift" in what else \
        "negation" if "negation" in what else re.sub(r"[^a-z]+", "-", what.lower())[:40]
    return "C10/ub/%s/%s" % (kind, m.group(1))


def main():
    chk = vlib.Check("C10")
    rng = chk.rng
    # findings staged in known_findings.d/C10.json are honoured too (helper; vlib reads known_findings.json only)
    stg = os.path.join(V, "known_findings.d", "C10.json")
    if os.path.exists(stg):
        for f in json.load(open(stg)).get("findings", []):
            if f.get("property") == "C10" and f.get("status", "open") == "open" and f["key"] not in [k["key"] for k in chk.known]:
                chk.known.append(f)
    # 1. translator
    import time as _t
    def ph(x):
        if not os.environ.get("VERIF_VERBOSE"):
            return
        sys.stderr.write("[C10 %.0fs] %s\n" % (_t.time() - chk.t0, x)); sys.stderr.flush()
    rc, tout = vlib.sh("python3 %s/translate/tr_guards.py" % V)
    trans_problems = [l for l in tout.splitlines() if l.startswith("PROBLEM")]
    gj = {}
    try:
        gj = json.load(open(os.path.join(V, "coq/Gen/guards.json")))
    except Exception as e:
        trans_problems.append("PROBLEM guards.json unreadable: %s" % e)
    ph("translator done")
    # 2. proofs
    proved = chk.prove("Properties_C10", extra_targets=["Gen/Recurse.vo", "Gen/GuardForms.vo"])
    ph("proofs done: %s" % proved)
    chk.cov["trusted_base"] += [
        "Coq 8.16.1 kernel, vm_compute (no native_compute)",
        "translator translate/tr_guards.py (block-tree exit-path analysis of every function using D->recurse_level; textual pinning of the guard "
        "expressions and macros transcribed in coq/C10/Guards.v; shape recognition of the four slice guards)",
        "C integer semantics as modelled in coq/C10/Wrap.v: size_t/unsigned long = Z mod 2^64 (defined), int64_t/int overflow = two's-complement wrap "
        "(undefined in C; what gcc -O1 emits on x86-64; flagged `ub` in the model and excluded from the soundness theorems)",
        "the call model coq/C10/Calls.v covers five calls (get/put_carray_slice, getdata on RAW, add CONST, delete); every other public function is "
        "covered by the correspondence/sweep only",
        "extraction: ExtrOcamlBasic only; OCaml driver ocaml/C10/driver.ml; harness harness/C10/api.c (reads D->recurse_level through internal.h)",
        "sanitizers: gcc ASan+UBSan build of libgetdata (vlib.build_impl('asan')), allocator_may_return_null=1",
    ]
    chk.assumptions += [
        "'buffers sized as documented': the harness never makes a call whose documented buffer would exceed 1 MiB (huge counts are exercised with GD_NULL "
        "or rejected-before-use paths only)",
        "gd_framenum* is excluded from the sweep (non-termination on valid input is C19's finding); gd_verbose_prefix/gd_desync/gd_strtok/gd_error_string are not driven",
        "the observable snapshot is taken through the same handle (entry lists, entries, fragment attributes, first samples of every field, "
        "directory listing with content hashes); error string/count and I/O pointers are excluded as the property allows",
    ]
    try:
        for attempt in range(3):
            # the shared cache is pruned by concurrent checks; a build can lose its directory under its feet
            try:
                impl = vlib.build_impl("asan", "-fsanitize-recover=signed-integer-overflow,shift")
                exe0 = vlib.build_harness(impl, os.path.join(V, "harness/C10/api.c"))
                break
            except (vlib.BuildError, OSError):
                if attempt == 2:
                    raise
        # private copy: the shared build cache may be pruned by concurrent checks while this one runs
        exe = os.path.join(vlib.scratch("verif-C10-exe-"), "api")
        shutil.copy(exe0, exe)
        ok, log = vlib.coq_make(["C10/Calls.vo", "C10/Recurse.vo", "C10/Guards.vo"])
        drv = vlib.build_ocaml_driver("C10", "C10/Extract.v", "ocaml/C10/driver.ml") if ok else None
    except vlib.BuildError as e:
        chk.violation("build", "build failed: " + str(e)[:2000], {"kind": "build", "log": str(e)}, found=False)
        return chk.finish()
    if drv is None:
        chk.violation("model-build", "Coq model does not compile: " + log[-1500:], {"kind": "model-build", "log": log[-4000:]}, found=False)
        return chk.finish()
    rc, lst = vlib.sh([exe, "--list"])
    ops = [tuple(l.split(" ", 1)) if " " in l else (l, "") for l in lst.strip().split("\n")]
    ops = [(a, b.strip()) for a, b in ops]
    M = Model(drv)
    found_any = False
    model_bad = []
    nontrivial = set()

    # leaks according to the model/translator
    lk = M.q("leaks")
    m = re.match(r"(.*) balanced(\d) in(-?\d+) out(-?\d+)", lk)
    leak_list = [x for x in m.group(1).split(";") if x] if m else []
    leak_in, leak_out = (int(m.group(3)), int(m.group(4))) if m else (0, 0)
    seek_leak = 1 if any(x.startswith("_GD_Seek|GD_E_RANGE") for x in leak_list) else 0

    # ---------------------------------------------------------------- A. guard correspondence
    A = []

    def addA(op, args, pred):
        A.append({"id": "A%d" % len(A), "op": op, "args": args, "pred": pred, "cmds": ["op %s %s" % (op, " ".join(str(a) for a in args))]})

    lvals = [0, 1, -1, -2, 49, 50, 99, 100, 1 << 61, 1 << 62, (1 << 62) + 1, I63 - 1, I63 - 2, I63 - 6, -I63, -(1 << 62), (I63 - 1) // 2, (I63 - 1) // 2 + 1]
    zsmall = [0, 1, 2, 5]
    zbig = [1 << 61, I63 - 1, I63, I64 - 1, I64 - 2, (I63 - 1) // 8, (I63 - 1) // 8 + 1, (I63 - 1) // 16 + 1]
    combos = []
    for name in RAWS:
        for t in (1, 0x88, 0, 0x110):
            for ff, fs in itertools.product(lvals, lvals):
                for nf, ns in ((0, 1), (1, 0), (0, 5), (2, 3), (0, 0)):
                    combos.append((name, ff, fs, nf, ns, t))
            for ff, fs in ((0, 0), (0, 10), (1, 0), (0, I63 - 2), (1 << 61, 0)):
                for nf, ns in itertools.product([0] + zbig, [0, 1] + zbig):
                    combos.append((name, ff, fs, nf, ns, 0))
    if not chk.thorough:
        combos = rng.sample(combos, min(len(combos), 2600))
    for name, ff, fs, nf, ns, t in combos:
        spf, szn, total = RAWS[name]
        r = M.q("frames get %d %d %d %d %d" % (spf, ff, fs, nf, ns))
        ub = r.endswith("ub1")
        pred = None
        tag = "frames-reject"
        if r.startswith("R"):
            pred = (0, E_RANGE, 0)
        else:
            _, a, b, _ = r.split()
            a, b = int(a), int(b)
            if a == -1:
                a = 0
            d = M.q("dofield %d %d %d %d" % (TSIZE[t], szn, a, b))
            if d == "R":
                pred = (0, E_RANGE, leak_in); tag = "dofield-reject"
            else:
                _, a2, b2 = d.split(); a2, b2 = int(a2), int(b2)
                if t != 0 and b2 * 16 > (1 << 20):
                    continue
                if b2 * szn == 0:
                    pred = (0, 0, 0); tag = "zero"
                elif b2 * szn >= (1 << 40):
                    pred = (0, E_ALLOC, 0); tag = "alloc"
                elif M.q("doseek %d %d" % (szn, a2)) == "0":
                    pred = (0, E_RANGE, 0); tag = "doseek-reject"
                elif a2 * szn >= (1 << 40):
                    pred = (0, 0, 0); tag = "bigseek"      # lseek beyond the file system's limit: GD_E_IO is as good as 0 samples
                else:
                    pred = (max(0, min(b2, total - a2)), 0, 0); tag = "read"
        nontrivial.add((name, tag, ub, min(abs(ff), 3), min(abs(fs), 3), min(nf, 3), min(ns, 3), t))
        addA("getdata64", (name, ff, fs, nf, ns, t), {"pred": pred, "ub": ub, "tag": tag})
    # seek64 (SEEK_SET on RAW): model = seek64_sample ; seek64_offset ; entry guard ; doseek guard
    sk = []
    for name in RAWS:
        for fr, sa in itertools.product(lvals, lvals):
            sk.append((name, fr, sa))
    if not chk.thorough:
        sk = rng.sample(sk, 400)
    for name, fr, sa in sk:
        spf, szn, total = RAWS[name]
        r = M.q("seeks %d %d %d" % (spf, fr, sa))
        ub = r.endswith("ub1")
        if r.startswith("N"):
            pred = (E_RANGE, E_RANGE, 0); tag = "sample-reject"
        else:
            s = int(r.split()[1])
            o = M.q("seeko %d 0" % s)
            if o == "N":
                pred = (E_RANGE, E_RANGE, 0); tag = "offset-reject"
            else:
                off = int(o.split()[1])
                if M.q("seeke %d" % off) == "0":
                    pred = (E_RANGE, E_RANGE, seek_leak); tag = "entry-reject"
                elif M.q("doseek %d %d" % (szn, off)) == "0":
                    pred = (E_RANGE, E_RANGE, 0); tag = "doseek-reject"
                elif off * szn >= (1 << 40):
                    pred = (off, 0, 0); tag = "bigseek"
                else:
                    pred = (off, 0, 0); tag = "seek"
        nontrivial.add((name, "seek", tag, ub, min(abs(fr), 3), min(abs(sa), 3)))
        addA("seek64", (name, fr, sa, 0), {"pred": pred, "ub": ub, "tag": tag})
    # slices: accept/reject of the bound guard (calls that the model accepts out of range are made too: that is the search)
    uvals = [0, 1, 2, 3, 4, 5, I63, I64 - 1, I64 - 2, I64 - 3, I64 - 4]
    nvals = [0, 1, 2, 3, 4, 5, I64 - 1, I64 - 2, I63]
    for op, cfn, table in (("get_carray_slice", "gd_get_carray_slice", CARR), ("put_carray_slice", "_GD_PutCarraySlice", CARR),
                           ("get_sarray_slice", "gd_get_sarray_slice", SARR), ("put_sarray_slice", "_GD_PutSarraySlice", SARR)):
        for name, ln in table.items():
            for st, n in itertools.product(uvals, nvals):
                if n * 16 > (1 << 20):
                    # no documented-size buffer exists; only the rejected ones are interesting and safe
                    if M.q("slice %s %d %d %d" % (cfn, st, n, ln)) == "1":
                        continue
                acc = M.q("slice %s %d %d %d" % (cfn, st, n, ln)) == "1"
                truth = st + n <= ln
                nontrivial.add((op, name, acc, truth, min(st, 6), min(n, 6)))
                args = (name, st, n, 0x88) if "carray" in op else (name, st, n)
                addA(op, args, {"pred": None, "accept": acc, "truth": truth, "tag": "slice"})
    # BIT numbits/bitnum in gd_add_bit
    bvals = [0, 1, -1, 2, 32, 63, 64, 65, (1 << 31) - 1, -(1 << 31), (1 << 31) - 64]
    for b, n in itertools.product(bvals, bvals):
        r = M.q("addbit %d %d" % (b, n))
        acc, ub = r.startswith("1"), r.endswith("ub1")
        truth = b >= 0 and n >= 1 and b + n <= 64
        nontrivial.add(("addbit", acc, truth, ub, min(abs(b), 70), min(abs(n), 70)))
        addA("add_bit", ("nbit", "raw", b, n, 0), {"pred": None, "accept": acc, "truth": truth, "ub": ub, "tag": "addbit"})
    # fragment index
    for op, sig in ops:
        if sig == "f":
            for i in (0, 1, 2, 3, 4, 5, -1, -2, (1 << 31) - 1, -(1 << 31)):
                acc = M.q(("fraga %d 5" if op == "rewrite_fragment" else "frag %d 5") % i) == "1"
                if op == "parent_fragment" and i == 0:
                    acc = False        # the root fragment has no parent: GD_E_BAD_INDEX is documented
                addA(op, (i,), {"pred": None, "accept": acc, "truth": 0 <= i < 5, "tag": "frag"})
                nontrivial.add((op, i))
    ph("builds done; running A (%d cases)" % len(A))
    t_a = _t.time()
    violA = {}
    def vA(key, desc, replay):
        violA.setdefault(key, []).append((desc, replay))
    resA = run_cases(exe, A)
    chk.notes.append("phase A: %d cases in %.1fs" % (len(A), _t.time() - t_a))
    chk.cov["evaluations"] += len(A)
    guard_dis = 0
    for c in A:
        r = resA.get(c["id"])
        p = c["pred"]
        what = "%s(%s)" % (c["op"], ", ".join(str(a) for a in c["args"]))
        if r is None:
            model_bad.append((what, "no result")); continue
        txt = "\n".join(r["out"])
        ubl = [l for l in r["out"] if "runtime error:" in l]
        if r["crash"]:
            found_any = True
            vA(crash_key(c["op"], r["crash"], c["args"]), "%s: the call does not return: %s" % (what, r["crash"][:600]),
                          {"kind": "impl-vs-spec", "op": c["op"], "args": c["args"], "report": r["crash"][:3000], "model": p})
            if p.get("tag") == "slice" and not p["accept"]:
                model_bad.append((what, "model rejects, implementation crashed"))
            continue
        for l in ubl:
            found_any = True
            vA(ub_key(c["op"], l), "%s: undefined behaviour reported by UBSan: %s" % (what, l.strip()),
                          {"kind": "impl-vs-spec", "op": c["op"], "args": c["args"], "report": l.strip(), "model_ub_flag": p.get("ub")})
        got = parse_op(r["out"])
        if got is None:
            if "SKIP" in txt:
                continue
            model_bad.append((what, "no result line: " + txt[-200:])); continue
        ret, err, lvl = got
        if err == E_INTERNAL:
            found_any = True
            key = "C10/slice-wrap/" + SLICE_FN[c["op"]] if c["op"] in SLICE_FN else "C10/internal-error/%s" % c["op"]
            vA(key, "%s returns GD_E_INTERNAL_ERROR" % what, {"kind": "impl-vs-spec", "op": c["op"], "args": c["args"], "impl": got})
        if lvl != 0:
            found_any = True
            vA(leak_key(c["op"], c["args"], err), "%s leaves D->recurse_level = %d (error %d)" % (what, lvl, err),
                          {"kind": "impl-vs-spec", "op": c["op"], "args": c["args"], "impl": got, "model": p})
        if p.get("pred") is not None:
            if p.get("ub") and ubl:
                continue        # outside the model's defined region; reported above
            e_ret, e_err, e_lvl = p["pred"]
            if p.get("tag") == "bigseek" and err == -5 and lvl == 0:
                continue
            if (err, lvl) != (e_err, e_lvl) or (err == 0 and ret != e_ret):
                guard_dis += 1
                model_bad.append((what, "implementation (ret,err,lvl)=%s, model predicts %s [%s]" % (got, p["pred"], p["tag"])))
        elif "accept" in p:
            rejected = err in (E_BOUNDS, -1, -16, E_RANGE) if p["tag"] != "frag" else err == -19
            if p["tag"] == "frag":
                if (err == 0) != p["accept"] and err in (0, -19):
                    model_bad.append((what, "fragment guard: implementation err=%d, model accept=%s" % (err, p["accept"])))
            elif p["tag"] == "slice":
                if (err == E_BOUNDS) == p["accept"]:
                    model_bad.append((what, "slice guard: implementation err=%d, model accept=%s" % (err, p["accept"])))
                if err == 0 and not p["truth"]:
                    found_any = True
                    vA("C10/slice-wrap/" + SLICE_FN[c["op"]], "%s succeeds although start+n exceeds the array length" % what,
                                  {"kind": "impl-vs-spec", "op": c["op"], "args": c["args"], "impl": got})
            elif p["tag"] == "addbit":
                if (err == 0) != p["accept"] and not p.get("ub"):
                    model_bad.append((what, "BIT guard: implementation err=%d, model accept=%s" % (err, p["accept"])))
                if err == 0 and not p["truth"]:
                    found_any = True
                    vA("C10/add_bit/bitnum+numbits-int-overflow", "%s is accepted although bitnum+numbits exceeds 64" % what,
                                  {"kind": "impl-vs-spec", "op": c["op"], "args": c["args"], "impl": got})

    for key, l in sorted(violA.items()):
        desc, rp = l[0]
        rp = dict(rp); rp["count"] = len(l); rp["others"] = [d for d, _ in l[1:6]]
        chk.violation(key, desc + " (%d such cases)" % len(l), rp)
    # ---------------------------------------------------------------- C. call-model sequences
    ents = [("raw", 1, 0, [2, 1, 100], []), ("r16", 1, 0, [1, 2, 50], []), ("lincom", 2, 0, [], ["raw", "r16"]), ("bit", 4, 0, [], ["raw"]),
            ("phase", 6, 0, [], ["raw"]), ("const", 16, 0, [3], []), ("carray", 18, 0, [1, 2, 3, 4], []), ("indir", 14, 0, [], ["r16", "carray"]),
            ("string", 17, 0, [], []), ("sconst", 16, 1, [1], []), ("scarray", 18, 1, [1, 2, 3], [])]
    nseq = 120 if not chk.thorough else 1200
    C = []
    for k in range(nseq):
        mode = rng.choice(["RDWR", "RDWR", "RDWR", "RDONLY"])
        p0, p1 = rng.choice(["none", "none", "format", "all"]), rng.choice(["none", "format"])
        M.q("reset %d %d %d 0 0 1" % (mode == "RDWR", {"none": 0, "format": 1, "data": 2, "all": 3}[p0], {"none": 0, "format": 1}[p1]))
        for (nm, kd, fr, vals, refs) in ents:
            M.q("ent %s %d %d %s | %s" % (nm, kd, fr, " ".join(map(str, vals)), " ".join(refs)))
        cmds, preds = [], []
        for j in range(14):
            w = rng.random()
            if w < 0.25:
                nm = rng.choice(["carray", "const", "scarray", "sconst", "raw", "nosuch", "string"])
                st, n = rng.choice([0, 1, 2, 3, 4, 5, I64 - 1]), rng.choice([0, 1, 2, 3, 5])
                if st == I64 - 1:
                    n = 0      # stay inside the region where no crash is predicted
                q = "call put %s %d %d 1" % (nm, st, n); cmd = "op put_carray_slice %s %d %d 0x28" % (nm, st, n)
            elif w < 0.38:
                nm = rng.choice(["carray", "const", "scarray", "raw", "nosuch"])
                st, n = rng.choice([0, 1, 2, 3, 4, 5]), rng.choice([0, 1, 2, 3, 5])
                q = "call get %s %d %d" % (nm, st, n); cmd = "op get_carray_slice %s %d %d 0x28" % (nm, st, n)
            elif w < 0.55:
                nm = rng.choice(["raw", "r16", "const", "nosuch"])
                ff, fs = rng.choice([0, 1, 3, 60, I63 - 2]), rng.choice([0, 1, 5, I63 - 2, I63 - 1])
                nf, ns = rng.choice([0, 1, 2]), rng.choice([0, 1, 5])
                if fs >= I63 - 2 or ff >= I63 - 2:
                    ns = 5         # stay where the range guards (not lseek / _GD_DoSeek) decide
                q = "call getdata %s %d %d %d %d 1" % (nm, ff, fs, nf, ns); cmd = "op getdata64 %s %d %d %d %d 1" % (nm, ff, fs, nf, ns)
            elif w < 0.75:
                nm = rng.choice(["n1", "n2", "n3", "raw", "const"])
                fr = rng.choice([0, 0, 1, 5, -1])      # (fragments 2 and 3 carry a prefix: names are not modelled)
                q = "call add %s %d 1" % (nm, fr); cmd = "op add_const %s 0x28 0x28 %d" % (nm, fr)
            elif w < 0.90:
                nm = rng.choice(["n1", "n2", "const", "sconst", "carray", "nosuch", "scarray"])
                q = "call del %s" % nm; cmd = "op delete %s 0" % nm
            elif w < 0.94:
                nm, nn = rng.choice(["n1", "const", "sconst", "nosuch", "n2"]), rng.choice(["n1", "n2", "n3", "const", "raw"])
                q = "call rename %s %s" % (nm, nn); cmd = "op rename %s %s 0" % (nm, nn)
            elif w < 0.97:
                nm, fr = rng.choice(["n1", "const", "sconst", "scarray", "nosuch", "carray"]), rng.choice([0, 1, 1, 5, -1])
                q = "call move %s %d" % (nm, fr); cmd = "op move %s %d 0" % (nm, fr)
            else:
                nm, ln = rng.choice(["carray", "scarray", "const", "nosuch", "raw"]), rng.choice([0, 1, 2, 4, 6, 1 << 61, I63, I64 - 1])
                q = "call altc %s %d" % (nm, ln); cmd = "op alter_carray %s 0 %d" % (nm, ln)
            pr = M.q(q)
            if pr.startswith("C"):
                continue
            cmds.append(cmd); preds.append((q, pr))
        cmds.append("op get_carray carray 0x28")
        C.append({"id": "C%d" % k, "mode": mode, "p0": p0, "p1": p1, "cmds": cmds, "preds": preds})
    ph("A judged; running C")
    resC = run_cases(exe, C)
    for c in C:
        r = resC.get(c["id"])
        if r is None or r["crash"]:
            model_bad.append((c["id"], "sequence did not run: %s" % (r["crash"][:300] if r else "")))
            continue
        got = [tuple(map(int, m.groups())) for m in re.finditer(r"R (-?\d+) E (-?\d+) L (-?\d+)", "\n".join(r["out"]))]
        chk.cov["evaluations"] += len(got)
        for (q, pr), g in zip(c["preds"], got):
            mm = re.match(r"(O|E) (-?\d+) L (-?\d+)", pr)
            e_err = 0 if mm.group(1) == "O" else int(mm.group(2))
            e_lvl = int(mm.group(3))
            nontrivial.add(("seq", q.split()[1], e_err))
            ok_ = (g[1] == e_err and g[2] == e_lvl and (mm.group(1) != "O" or "getdata" not in q or g[0] == int(mm.group(2))))
            if not ok_:
                model_bad.append(("%s [%s/%s/%s] %s" % (c["id"], c["mode"], c["p0"], c["p1"], q), "implementation (ret,err,lvl)=%s, model %s" % (g, pr)))
                break

    # ---------------------------------------------------------------- B. boundary sweep over the API
    sweep = gen_sweep(ops, rng, 6 if not chk.thorough else 60)
    if "B" not in os.environ.get("VERIF_C10_PHASES", "ABCD"):
        sweep = sweep[:5]       # development aid only
    if not chk.thorough and len(sweep) > 3000:
        # quick tier: every op keeps its base tuple and a seeded sample of the rest
        byop = {}
        for c in sweep:
            byop.setdefault(c["op"], []).append(c)
        sweep = []
        tot = sum(len(x) for x in byop.values())
        for op_, l in byop.items():
            pr = [c for c in l if c["prio"]]
            rest = [c for c in l if not c["prio"]]
            quota = max(6, (1200 * len(l)) // tot)
            sweep += pr + rest[:1] + rng.sample(rest[1:], min(max(0, len(rest) - 1), quota))
    # ---- variants of the swept tuples (same oracle): under /PROTECT, with a damaged data file, after a huge frame offset
    PROT_OPS = ("seek64", "putdata64", "put_constant", "put_carray", "put_carray_slice", "put_string", "put_sarray", "put_sarray_slice",
                "alter_raw", "alter_frameoffset64", "alter_encoding", "alter_endianness", "move", "rename", "delete", "add_raw", "add_spec",
                "add_const", "add_bit", "madd_const", "include", "uninclude", "alter_linterp", "alter_phase", "alter_entry", "alter_spec",
                "hide", "reference", "alter_affixes", "rewrite_fragment", "alter_carray", "getdata64")
    DATAFILE = {"r16": "r16", "rc": "rc", "sraw": "sub/sraw", "ac": "ac"}      # (not raw: the interleaved valid read uses it)
    base_cases = [c for c in sweep if c["prio"] or len(c["args"]) <= 2]
    variants = []
    pv = [c for c in base_cases if c["op"] in PROT_OPS]
    for (p0, p1) in (("data", "data"), ("all", "format")):
        must = [c for c in pv if any(x.startswith("rmfile") for x in c["cmds"])][:40]      # RAW fields whose data file is missing: always
        for c in (pv if chk.thorough else must + rng.sample(pv, min(len(pv), 200))):
            variants.append(dict(c, p0=p0, p1=p1, vkey="/protected", tag="[fragment 0 /PROTECT %s, fragment 1 /PROTECT %s] " % (p0, p1),
                                 cmds=[x for x in c["cmds"] if x.startswith(("rep ", "rmfile "))]))
    fv = [c for c in base_cases if c["op"] in ("move", "rename", "delete", "alter_raw", "alter_entry", "putdata64", "getdata64", "seek64", "alter_spec")
          and c["args"] and str(c["args"][0]) in DATAFILE and str(c["args"][0]) != "ac"]
    for c in (fv if chk.thorough else rng.sample(fv, min(len(fv), 140))):
        f = DATAFILE[str(c["args"][0])]
        rep = [x for x in c["cmds"] if x.startswith("rep ")]
        fol = ["op move ac 1 1"] if c["op"] == "move" else ["op rename ac fnewac 1"] if c["op"] == "rename" else []
        variants.append(dict(c, vkey="/file-missing", tag="[data file %s missing] " % f, cmds=["rmfile " + f] + rep + fol, follow=(fol[0][3:] if fol else None)))
        variants.append(dict(c, vkey="/file-is-directory", tag="[a directory in place of the data file %s] " % f, cmds=["rmfile " + f, "mkdir " + f] + rep + fol, follow=(fol[0][3:] if fol else None)))
        if c["op"] in ("move", "rename", "alter_raw", "delete"):
            variants.append(dict(c, vkey="/after-frameoffset", tag="[after gd_alter_frameoffset(2^61) of the field's fragment, flushed] ",
                                 cmds=["op alter_frameoffset64 2305843009213693952 %d 0" % (1 if f.startswith("sub/") else 0), "op metaflush"] + rep, follow=None))
    for c in variants:
        c["variant"] = True
    sweep = sweep + variants
    for k, c in enumerate(sweep):
        c["id"] = "B%d" % k
    ph("running B (%d tuples)" % len(sweep))
    t_b = _t.time()
    resB = run_cases(exe, sweep)
    chk.notes.append("phase B: %d tuples in %.1fs" % (len(sweep), _t.time() - t_b))
    chk.cov["evaluations"] += len(sweep) * REPS
    nfail_calls = 0
    viol = {}
    for c in sweep:
        r = resB.get(c["id"])
        what = "%s%s(%s)" % (c.get("tag", ""), c["op"], ", ".join(str(a) for a in c["args"]))
        if r is None:
            continue
        if r["crash"]:
            viol.setdefault(crash_key(c["op"], r["crash"], c["args"]), []).append((what, c, "the call does not return normally: " + r["crash"][-1500:]))
            continue
        for l in r["out"]:
            if "runtime error:" in l:
                viol.setdefault(ub_key(c["op"], l), []).append((what, c, "UBSan: " + l.strip()))
        rp = parse_rep(r["out"])
        if rp is None:
            continue
        if rp["nf"]:
            nfail_calls += rp["nf"]
            nontrivial.add((c["op"], rp["err"], rp["errl"]))
        if rp["internal"]:
            key = internal_key(c["op"])
            viol.setdefault(key, []).append((what, c, "GD_E_INTERNAL_ERROR returned (%d of %d calls)" % (rp["internal"], REPS)))
        if rp["lmax"] != 0 or rp["lend"] != 0:
            viol.setdefault(leak_key(c["op"], c["args"], rp["err"]), []).append(
                (what, c, "D->recurse_level is %d after %d calls (first error %d, last error %d); interleaved valid reads failing: %d" % (
                    rp["lend"], REPS, rp["err"], rp["errl"], rp["probe"])))
        elif rp["dirty"]:
            viol.setdefault(internal_key(c["op"]) if rp["internal"] else partial_key(c, rp) or "C10/dirty-fail/%s/E%d%s" % (c["op"], rp["err"], c.get("vkey", "")), []).append(
                (what, c, "%d failing calls (error %d) changed the observable snapshot" % (rp["dirty"], rp["err"])))
        fname = c.get("follow") if c.get("variant") else FOLLOW.get(c["op"])
        has_follow = any(x.startswith("op ") for x in c["cmds"][1:]) and fname
        fo = parse_op([l for l in r["out"][r["out"].index(next(x for x in r["out"] if x.startswith("REP "))):]]) if has_follow else None
        if fo is not None and rp["nf"] == REPS and fo[1] != 0 and not (rp["lmax"] or rp["dirty"]):
            viol.setdefault("C10/future/%s/followup%s" % (c["op"], c.get("vkey", "")), []).append(
                (what, c, "all %d calls failed (error %d); the valid follow-up call `%s` on the same handle then fails with error %d" % (REPS, rp["err"], fname, fo[1])))
        elif rp.get("fl"):
            viol.setdefault(partial_key(c, rp) or "C10/flush-after-failed/%s/E%d%s" % (c["op"], rp["err"], c.get("vkey", "")), []).append(
                (what, c, "all %d calls failed (error %d), yet a following gd_metaflush rewrote files of the dirfile: a failed call left a fragment marked modified" % (REPS, rp["err"])))
        elif rp["nf"] == REPS and rp["probe"] and c.get("vkey") != "/after-frameoffset":   # (there the probed field itself moved)
            viol.setdefault("C10/future/%s/E%d" % (c["op"], rp["err"]), []).append(
                (what, c, "after the failing calls (error %d) a valid gd_getdata on another field fails" % rp["err"]))
    for key, l in sorted(viol.items()):
        what, c, desc = l[0]
        found_any = True
        chk.violation(key, "%s: %s (%d such argument tuples)" % (what, desc[:900], len(l)),
                      {"kind": "impl-vs-spec", "op": c["op"], "args": c["args"], "count": len(l), "detail": desc,
                       "how": "printf 'case x RDWR %s %s none 1\\n%s\\n' | <harness/C10/api built against the asan library> <dir>" % (c.get("p0", "none"), c.get("p1", "none"), "\\n".join(c["cmds"])),
                       "others": [w for w, _, _ in l[1:8]]})

    ph("B done")
    # ---------------------------------------------------------------- E. histories on one handle (handle-state functions interleaved with valid reads)
    READS_E = [("getdata64 raw 0 0 1 0 1", 2), ("getdata64 r16 0 0 1 0 0x22", 1), ("getdata64 rc 0 0 1 0 0x110", 1), ("getdata64 sraw 0 0 1 0 1", 1),
               ("getdata64 ac 0 0 1 0 1", 2), ("getdata64 P_praw 0 0 1 0 1", 1)]
    LIM = [0, 1, 2, 3, 5, -1, -2, 1 << 40, 1 << 59, (I63 - 1) // 16, (I63 - 1) // 8, (I63 - 1) // 8 + 1, 1 << 61, (1 << 62) + 1]
    hist = []
    for a, b in itertools.product(LIM, LIM):
        hist.append([("open_limit %d" % a, None)] + READS_E[:4] + [("open_limit %d" % b, None)] + READS_E)
    nh = 150 if not chk.thorough else 2000
    for _ in range(nh):
        h = []
        for _ in range(rng.randint(3, 7)):
            w = rng.random()
            if w < 0.5:
                h.append(("open_limit %d" % rng.choice(LIM), None))
            elif w < 0.65:
                h.append(("raw_close %s" % rng.choice(["!", "raw", "sraw", "nosuch"]), None))
            elif w < 0.75:
                h.append(("sync %s" % rng.choice(["!", "raw"]), None))
            elif w < 0.85:
                h.append(("seek64 %s 0 %d %d" % (rng.choice(["raw", "r16", "sraw"]), rng.choice([0, 3, -5]), rng.choice([0, 4])), None))
            else:
                h.append((rng.choice(["alter_frameoffset64 4611686018427387904 0 1", "getdata64 raw 0 9223372036854775806 0 5 1", "mplex_lookback -7",
                                      "flush nosuch", "desync 0"]), None))
            h += rng.sample(READS_E, rng.randint(2, 6))
        hist.append(h)
    E = [{"id": "E%d" % k, "hist": h, "cmds": ["op " + x for x, _ in h]} for k, h in enumerate(hist)]
    resE = run_cases(exe, E)
    violE = {}
    for c in E:
        r = resE.get(c["id"])
        what = "history [%s]" % "; ".join(x for x, _ in c["hist"])
        if r is None:
            continue
        if r["crash"]:
            opn = "open_limit" if any(x.startswith("open_limit") for x, _ in c["hist"]) else c["hist"][0][0].split()[0]
            violE.setdefault("C10/history-crash/%s" % opn, []).append((what, c, "the sequence does not run to its end: " + r["crash"][-1200:]))
            continue
        got = [tuple(map(int, m.groups())) for m in re.finditer(r"R (-?\d+) E (-?\d+) L (-?\d+)", "\n".join(r["out"]))]
        chk.cov["evaluations"] += len(got)
        for (x, want), g in zip(c["hist"], got):
            nontrivial.add(("hist", x.split()[0], g[1]))
            if g[2] != 0:
                violE.setdefault(leak_key(x.split()[0], x.split()[1:], g[1]), []).append((what, c, "%s leaves D->recurse_level = %d" % (x, g[2])))
            if want is not None and (g[1] != 0 or g[0] != want):
                violE.setdefault("C10/future/valid-read-after-history", []).append(
                    (what, c, "the valid read `%s` returns %d samples, error %d (expected %d, 0)" % (x, g[0], g[1], want)))
                break
    for key, l in sorted(violE.items()):
        what, c, desc = l[0]
        found_any = True
        chk.violation(key, "%s: %s (%d such histories)" % (what[:600], desc[:900], len(l)),
                      {"kind": "impl-vs-spec", "history": [x for x, _ in c["hist"]], "count": len(l), "detail": desc,
                       "how": "printf 'case x RDWR none none none 0\\n%s\\n' | harness/C10/api <dir>" % "\\n".join(c["cmds"])})
    # ---------------------------------------------------------------- D. replay the recorded witnesses
    for f in chk.known:
        w = f.get("witness", {})
        cmds = w.get("cmds")
        if not cmds:
            continue
        rr = run_cases(exe, [{"id": "K", "cmds": cmds}]).get("K")
        if not rr:
            continue
        txt = "\n".join(rr["out"]) + (rr["crash"] or "")
        if re.search(w.get("expect", "$^"), txt):
            chk.known_confirm(f["key"], "witness replayed")
    # structural: leaks the translator sees that are not listed
    known_keys = [f["key"] for f in chk.known]
    tag2key = {"_GD_DoField|GD_E_RANGE": "C10/recurse-leak/_GD_DoField/GD_E_RANGE", "_GD_DoField|if(repr==GD_REPR_IMAG)": "C10/recurse-leak/_GD_DoField/repr-imag",
               "_GD_DoFieldOut|GD_E_RANGE": "C10/recurse-leak/_GD_DoFieldOut/GD_E_RANGE", "_GD_Seek|GD_E_RANGE": "C10/recurse-leak/_GD_Seek/GD_E_RANGE",
               "_GD_NativeType|if(D->error)": "C10/recurse-leak/_GD_NativeType/input-error"}
    for x in leak_list:
        k = tag2key.get(x, "C10/recurse-leak/" + x.replace("|", "/"))
        if k not in known_keys:
            chk.violation(k, "translator: exit path %s does not restore D->recurse_level" % x,
                          {"kind": "translator-table", "exit": x, "table": [t for t in gj.get("recurse_table", []) if t["fn"] == x.split("|")[0]]},
                          found=k in [v[0] for v in chk.violations])
    M.close()
    chk.cov["distinct_nontrivial"] = len(nontrivial)
    chk.cov["rule"] = ("A: guard correspondence -- getdata64 (%d tuples over {0,+-1,EOF neighbourhood,2^61,2^62(+1),2^63-1/-2/-6,-2^63,(2^63-1)/2(+1)} for first_frame x first_samp, "
                       "counts {0..5, 2^61, 2^63-1, 2^63, 2^64-1/-2, TRANSACTION_MAX neighbourhood}, 4 return types, 2 RAW fields), seek64, the four slice functions "
                       "(start x n over {0..5, 2^63, 2^64-1..-4}), gd_add_bit bitnum x numbits, every fragment-index function; model prediction (ret, error, counter) compared. "
                       "B: sweep -- every op of harness/C10/api.c x (each argument over its boundary pool with the others at a valid base, 4 alternative field kinds, "
                       "%d random tuples per op), each tuple called %d times with a snapshot before/after every failing call and a valid read every 8 calls. "
                       "C: %d random 14-call sequences of the five modelled calls over access mode x protection. non-trivial = distinct (op, outcome class, boundary class)") % (
                           len(combos), 6 if not chk.thorough else 60, REPS, nseq)
    chk.cov["exhaustive"] = False
    chk.cov["ops_driven"] = len([o for o in ops if o[0] not in SKIP_OPS])
    chk.cov["sweep_tuples"] = len(sweep)
    chk.cov["failing_calls_checked"] = nfail_calls
    chk.cov["guard_cases"] = len(A)
    chk.cov["translator"] = {"functions_using_counter": len(gj.get("recurse_table", [])), "exit_paths": sum(len(t["exits"]) for t in gj.get("recurse_table", [])),
                             "unbalanced": leak_list, "slice_forms": gj.get("slice_forms")}
    for c in (A[5], A[len(A) // 2], sweep[min(7, len(sweep) - 1)], sweep[len(sweep) // 2]):
        chk.sample({"op": c["op"], "args": [str(a) for a in c["args"]], "model": c.get("pred")})
    if model_bad:
        what, d = model_bad[0]
        chk.violation("model", "correspondence broken (%d cases), first: %s: %s" % (len(model_bad), what, d),
                      {"kind": "model-vs-impl", "correspondence": "C10 guard/call model vs libgetdata", "cases": model_bad[:40]}, found=False)
    if trans_problems and not found_any:
        chk.violation("translator", "translator cannot tie the model to the source: " + "; ".join(trans_problems[:3]),
                      {"kind": "translator", "problems": trans_problems}, found=False)
    if not proved and not found_any:
        chk.violation("proof", "Properties_C10 does not check: " + getattr(chk, "proof_log", "")[-1200:],
                      {"kind": "proof", "log": getattr(chk, "proof_log", "")[-4000:]}, found=False)
    return chk.finish()


if __name__ == "__main__":
    sys.exit(main())
