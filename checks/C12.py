#!/usr/bin/env python3
"""C12 -- a format fragment on disk is always entirely old or entirely new.

proof:   Properties_C12.v (crash_atomic, crash_prefix_shape, reader_sees_one_version,
         flush_success, fault_atomic (full, for the current source), fault_atomic_{fixed,refuted,partial}) over the
         protocol model C12/FlushProto.v on the abstract filesystem C12/Fs.v
tie:     translate/tr_flushproto.py regenerates Gen/FlushShape.v from src/flush.c;
         harness/C12/shim.c (ptrace supervisor) logs every system call of the real
         flush, kills before / fails every call; the traces, directory states at
         every call boundary, return values, `modified` flags and retries are
         compared with the extracted model (ocaml/C12/driver) ...
search:  ... and every run is judged against the property text itself (each
         fragment file byte-identical to its old or its new text, a fresh gd_open
         sees one consistent version, failure => old in place + pending + no
         temporary file + retry succeeds)."""
import sys, os, re, json, shutil
from concurrent.futures import ThreadPoolExecutor
sys.path.insert(0, os.path.join(os.path.dirname(os.path.abspath(__file__)), "..", "bin"))
sys.path.insert(0, os.path.join(os.path.dirname(os.path.abspath(__file__)), "..", "harness", "C12"))
import vlib, shimlib
from shimlib import ERRNO

KEY_EEXIST = "flush/mktemp-collision-EEXIST/descriptor-and-temp-file-leak"
KEY_FDOPEN = "flush/fdopen-failure/temp-file-and-descriptor-leak"

# fragment index -> (relative path, directory)
LAYOUT = [("format", ""), ("sub1/format1", "sub1"), ("format2", ""), ("sub2/format3", "sub2"), ("sub1/formatnew", "sub1")]
NFRAG0 = 4          # fragments of the template; index 4 is created by the `include` operation
O_CREAT_EXCL = 0o300


def old_text(i, big):
    if i == 0:
        t = "/VERSION 9\n/ENCODING none\n/INCLUDE sub1/format1\n/INCLUDE format2\n/INCLUDE sub2/format3\nc0 CONST UINT8 10\nd RAW UINT8 1\n"
    else:
        t = "c%d CONST UINT8 %d\n" % (i, 10 + i)
    for n in range(big):
        # a mix of field types: their literal parameters are printed by different routines of flush.c
        kind = n % 6
        nm = "k%dx%d" % (i, n)
        if kind == 0:
            t += "%s CONST FLOAT64 %d.5\n" % (nm, n)
        elif kind == 1:
            t += "%s POLYNOM INDEX 0.1 0.2 0.3 0.4 0.6 0.%d\n" % (nm, 7 + n % 3)
        elif kind == 2:
            t += "%s LINCOM 2 INDEX 1.5 %d.25 INDEX 3 4\n" % (nm, n)
        elif kind == 3:
            t += "%s BIT INDEX %d 3\n" % (nm, n % 20)
        elif kind == 4:
            t += "%s PHASE INDEX %d\n" % (nm, n)
        else:
            t += "%s RECIP INDEX %d.125\n" % (nm, n + 1)
    return t


def make_template(d, big, links=()):
    """links: fragments whose format file is a symbolic link to a regular file `real<i>` in the same directory"""
    for sub in ("sub1", "sub2"):
        os.makedirs(os.path.join(d, sub))
    for i, (rel, _) in enumerate(LAYOUT[:NFRAG0]):
        if i in links:
            real = os.path.join(os.path.dirname(os.path.join(d, rel)), "real%d" % i)
            os.symlink("real%d" % i, os.path.join(d, rel))
            rel = os.path.relpath(real, d)
        with open(os.path.join(d, rel), "w") as fh:
            fh.write(old_text(i, big.get(i, 0)))


def norm(b):
    """the header carries the time of writing; everything else must match byte for byte"""
    return re.sub(rb"# Written on [^\n]*\n", b"# Written on <date>\n", b)


def frs_of(op, mods):
    """fragments the operation writes, in index order"""
    if op.startswith("rewrite:"):
        return [int(op[8:])]
    if op == "rewriteall":
        return list(range(NFRAG0))
    if op == "include":
        return [0, 4]
    return sorted(mods)


def parse_harness(out):
    r = {"first": None, "retry": None, "open": None, "before": None}
    for l in out.splitlines():
        w = l.split()
        if not w:
            continue
        if w[0] == "open":
            r["open"] = int(w[1])
        elif w[0] == "before":
            r["before"] = [int(x) for x in w[2:]]
        elif w[0] in ("first", "retry"):
            d = {"ret": int(w[2])}
            if "freed" in w:
                d["freed"] = True; d["flags"] = None
            else:
                d["freed"] = False; d["flags"] = [int(x) for x in w[w.index("flags") + 1:]]
            r[w[0]] = d
    return r


class Scenario:
    def __init__(self, sid, mods, op, big, base, pad=None, links=(), parent_endian=False):
        self.links = tuple(links)
        self.parent_endian = parent_endian
        self.pad = pad; self.env = ({"LOGNAME": "u" * pad, "HOSTNAME": "h"} if pad else None)
        if parent_endian:
            self.env = dict(self.env or {}, C12_PARENT_ENDIAN="1")
        self.sid = sid; self.mods = sorted(mods); self.op = op; self.big = dict(big)
        self.dir = os.path.join(base, "s%d" % sid)
        self.tmpl = os.path.join(self.dir, "tmpl")
        os.makedirs(self.dir)
        make_template(self.tmpl, self.big, self.links)
        self.frs = frs_of(op, self.mods)
        self.include = (op == "include")
        if self.include:
            self.mods = [0, 4]          # the operation itself changes the parent and the new fragment
        if parent_endian:
            # the root's byte order changes: the children that inherited it must be rewritten too (they restate it),
            # and stay pending until they are
            self.frs = list(range(NFRAG0)); self.pending = list(range(NFRAG0))
        self.pend = set(getattr(self, "pending", self.mods))
        self.n = 0

    def modarg(self):
        if self.include:
            return "-"
        return ",".join(str(m) for m in self.mods) if self.mods else "-"

    def desc(self):
        return {"layout": [r for r, _ in LAYOUT], "modified_fragments": self.mods, "operation": self.op,
                "extra_fields_per_fragment": self.big, "root_byte_order_changed_before_the_flush": self.parent_endian, "symlinked_format_files": [LAYOUT[i][0] for i in self.links],
                "how": "harness/C12/shim -r DIR [-k K | -f K:ERRNO] -- harness/C12/flush run DIR %s %s  (DIR built by checks/C12.py make_template)" % (self.op, self.modarg())}

    def work(self, tag):
        w = os.path.join(self.dir, tag)
        shutil.copytree(self.tmpl, w, symlinks=True)
        return w


def content(tr, rel):
    """what a reader of <rel> gets: a symbolic link is followed (one level, inside the tree)"""
    b = tr.get(rel)
    if isinstance(b, tuple):
        b = tr.get(os.path.normpath(os.path.join(os.path.dirname(rel), b[1])))
    return b


def classify_files(sc, tr, old, new):
    """per fragment of sc.frs: O / N / ? / -   and the temporary files present"""
    cls = []
    for i in sc.frs:
        b = tr.get(LAYOUT[i][0])
        if isinstance(b, tuple):          # a symbolic link: what a reader gets is the content of its target
            b = tr.get(os.path.normpath(os.path.join(os.path.dirname(LAYOUT[i][0]), b[1])))
        if old.get(i) is None and (b is None or b == b""):
            cls.append("O")          # a fragment the operation creates: absent or still empty = previous state
        elif b is None:
            cls.append("-")
        elif b == old[i]:
            cls.append("O")
        elif i in new and norm(b) == new[i]:
            cls.append("N")
        else:
            cls.append("?")
    tmps = {r: len(b) for r, b in tr.items() if shimlib.is_temp_name(r)}
    return cls, tmps


def tokens(calls, sc):
    """canonical tokens of the model-relevant calls; returns (tokens, list of real indices, tmp order)"""
    toks, idxs, tmps = [], [], []
    paths = {LAYOUT[i][0]: k for k, i in enumerate(sc.frs)}

    def T(p):
        if p not in tmps:
            tmps.append(p)
        return "T%d" % tmps.index(p)
    for c in calls:
        if c.ret == "KILLED":
            break
        st = "ok" if c.ok else "bad"
        istmp = shimlib.is_temp_name(c.p1)
        if c.name in ("fstatat", "fstat", "lseek", "fsync", "fdatasync", "stat", "lstat", "statx"):
            continue
        if c.name == "close" and c.p1 in (".", "sub1", "sub2"):
            continue          # gd_close releasing its directory descriptors (_GD_FreeD), after the flush
        if c.name == "openat" and (c.arg & O_CREAT_EXCL) == O_CREAT_EXCL and istmp:
            t = "creat:%s:%s" % (T(c.p1), st)
        elif c.name == "fcntl" and istmp and c.arg == 3:
            t = "fcntl:%s" % st
        elif c.name == "write" and istmp:
            t = "write"
        elif c.name == "fchmod" and istmp:
            t = "fchmod:%s" % st
        elif c.name == "close" and istmp:
            t = "close:%s" % st
        elif c.name in ("renameat", "renameat2", "rename") and istmp and c.p2 in paths:
            t = "rename:%s:P%d:%s" % (T(c.p1), paths[c.p2], st)
        elif c.name in ("unlinkat", "unlink") and istmp:
            t = "unlink:%s:%s" % (T(c.p1), st)
        else:
            t = "other:%s:%s:%s" % (c.name, c.p1, st)
        toks.append(t); idxs.append(c.idx)
    return toks, idxs, tmps


def merge_writes(toks):
    out = []
    for t in toks:
        t = "write" if t.startswith("write") else t
        if t == "write" and out and out[-1] == "write":
            continue
        out.append(t)
    return out


def model_case(cl, fault, sc, chunks, oldlen, perm, late=False):
    """late: a write error swallowed by an unchecked stdio call -- the rest of the text, the fchmod and the
    close still happen before ferror() notices it (fextra = [write, fchmod, write])"""
    w = [1 if cl else 0, fault, len(sc.frs)]
    for k, i in enumerate(sc.frs):
        pre, post = chunks[k]
        w += [oldlen[i], perm[k], len(pre)] + pre + [len(post)] + post + ([3, 1, -1, 1] if late else [0])
    return " ".join(str(x) for x in w)


def parse_model(out):
    """list of cases: {trace, R..., P: {j: (cls, tmps)}}"""
    cases, cur = [], None
    for l in out.splitlines():
        if l.startswith("T"):
            cur = {"trace": l.split()[1:], "P": {}}
        elif l.startswith("R ") and cur is not None:
            f = [x.strip() for x in l[2:].split("|")]
            cur["err"] = int(f[0]); cur["mod"] = [int(x) for x in f[1].split()]
            cur["final"] = f[2].split(); cur["tmps"] = f[3].split()
            cur["retry_err"] = int(f[4].split()[1]); cur["retry_final"] = f[5].split(); cur["retry_tmps"] = f[6].split()
        elif l.startswith("P ") and cur is not None:
            f = [x.strip() for x in l[2:].split("|")]
            cur["P"][int(f[0])] = (f[1].split(), f[2].split())
        elif l.startswith("E") and cur is not None:
            cases.append(cur); cur = None
    return cases


def dump_class(dump, sc):
    """what a fresh gd_open sees, per modified fragment: O / N / M(ixed) ; None when the open failed"""
    if "error 0" not in dump.splitlines()[:1]:
        return None
    ent = {}
    for l in dump.splitlines():
        w = l.split()
        if w and w[0] == "entry":
            ent[w[1]] = l
    out = []
    for i in sc.mods:
        has_n = ("n%d" % i) in ent
        c = ent.get("c%d" % i, "")
        m = re.search(r"const (\S+)", c)
        v = float(m.group(1)) if m else None
        if has_n and v == 90 + i:
            out.append("N")
        elif not has_n and v == 10 + i:
            out.append("O")
        else:
            out.append("M")
    return out


def main():
    chk = vlib.Check("C12")
    shimlib.load_staged_findings(chk, "C12")
    rng = chk.rng
    rc, tout = vlib.sh("python3 %s/translate/tr_flushproto.py" % vlib.VERIF)
    trans_problems = [l for l in tout.splitlines() if l.startswith("PROBLEM")]
    proved = chk.prove("Properties_C12", extra_targets=["Gen/FlushShape.vo"])
    try:
        cl = "fdopen_cleans : bool := true" in open(os.path.join(vlib.COQ, "Gen", "FlushShape.v")).read()
    except OSError:
        cl = False
    chk.cov["trusted_base"] += [
        "Coq 8.16.1 kernel, vm_compute only for the refutation witness",
        "abstract filesystem coq/C12/Fs.v (names -> inodes -> content, descriptor table; a failed call has no effect except close releasing its descriptor); POSIX atomicity of rename(2), O_EXCL creation, write(2) appending in order; the page cache survives a process kill (no power loss)",
        "translator translate/tr_flushproto.py (regex anchors over _GD_FlushFragment/_GD_FlushMeta/_GD_MakeTempFile; selects the model instance fdopen_cleans=%s); validated by the trace comparison below" % cl,
        "harness/C12/shim.c (ptrace system-call supervisor: log, kill-before, fail-with-errno, directory snapshot), harness/C12/flush.c, x86-64 Linux syscall numbers, glibc stdio buffering (write sizes are taken from the observed trace)",
        "extraction: ExtrOcamlBasic only; OCaml driver ocaml/C12/driver.ml",
    ]
    chk.assumptions += [
        "kill = SIGKILL of the process, not loss of power: unwritten page-cache data persist, stdio buffers are lost",
        "temporary names chosen by mktemp are distinct from each other and from every fragment name (scen_ok); the EEXIST retry loop of _GD_MakeTempFile is covered by eexist_retry_transparent and by injecting EEXIST at every exclusive creation",
        "single-fault schedules are enumerated exhaustively and compared with the model; double-fault schedules are sampled and judged by the property text (crash_atomic_multi covers one failing call per fragment; failures inside a failure continuation are validated only); the retry runs with no fault",
        "the reader that had the dirfile open before keeps its metadata in memory; it is observed at every call boundary of one scenario",
    ]
    try:
        impl = vlib.build_impl()
        exe = vlib.build_harness(impl, os.path.join(vlib.VERIF, "harness/C12/flush.c"))
        shim = shimlib.build_shim(impl)
        ok, log = vlib.coq_make(["C12/FlushProto.vo", "Gen/FlushShape.vo"])
        drv = vlib.build_ocaml_driver("C12", "C12/Extract.v", "ocaml/C12/driver.ml") if ok else None
    except vlib.BuildError as e:
        chk.violation("build", "build failed: " + str(e)[:2000], {"kind": "build", "log": str(e)}, found=False)
        return chk.finish()
    if drv is None:
        chk.violation("model-build", "Coq model does not compile: " + log[-1500:], {"kind": "model-build", "log": log[-4000:]}, found=False)
        return chk.finish()

    base = vlib.scratch("verif-c12-")
    # the implementation cache may be pruned by a concurrent check: run private copies of the binaries
    exe = shutil.copy2(exe, os.path.join(base, "harness-bin")); shim = shutil.copy2(shim, os.path.join(base, "shim-bin"))
    plan = [({0}, "metaflush", {}), ({1}, "metaflush", {}), ({0, 2}, "metaflush", {}), ({1, 3}, "close", {}),
            ({0, 1, 3}, "flush", {}), ({0, 1, 2, 3}, "metaflush", {}), ({0, 1, 2, 3}, "sync", {1: 160}),
            ({2}, "rewrite:2", {}), ({1}, "rewriteall", {}), ({0, 3}, "close", {0: 330, 3: 170}),
            (set(), "rewrite:1", {}), ({0, 1}, "rewrite:1", {}), (set(), "include", {})]
    nrand = 3 if not chk.thorough else 40
    ops = ["metaflush", "flush", "sync", "close", "rewriteall", "rewrite:0", "rewrite:1", "rewrite:2", "rewrite:3"]
    for _ in range(nrand):
        mods = set(i for i in range(4) if rng.random() < 0.6) or {rng.randrange(4)}
        big = {i: rng.choice([0, 0, 140, 150, 300, 450]) for i in range(4) if rng.random() < 0.4}
        plan.append((mods, rng.choice(ops), big))
    errnos = ["ENOSPC", "EIO", "EACCES"]
    scs = [Scenario(n, m, o, b, base) for n, (m, o, b) in enumerate(plan)]
    # fragments whose format file is a symbolic link (the flush must still publish by rename, never write through the link)
    scs.append(Scenario(len(scs), {2}, "metaflush", {2: 150}, base, links={2}))
    scs.append(Scenario(len(scs), {1, 2}, "close", {}, base, links={1}))
    # a parent whose change forces its children to be rewritten (they must restate byte order they used to inherit)
    scs.append(Scenario(len(scs), {0}, "metaflush", {}, base, parent_endian=True))
    scs.append(Scenario(len(scs), {0, 2}, "close", {}, base, parent_endian=True))
    # sweep the stdio block boundary over many byte positions of the text (only the write calls are failed there):
    # which fprintf/fputs happens to flush the block decides which result check has to notice a failed write
    nsweep = 12 if not chk.thorough else 48
    for q in range(nsweep):
        scs.append(Scenario(len(scs), {0}, "metaflush", {0: 260}, base, pad=1 + (q * (3 if not chk.thorough else 1)) % 60))
    pool = ThreadPoolExecutor(max_workers=vlib.NPROC)

    nontriv = set()
    model_bad, spec_bad = [], []
    known_seen = []
    counts = {"scenarios": len(scs), "kill_points": 0, "fault_runs": 0, "snapshots": 0, "dumps": 0, "model_cases": 0,
              "by_call": {}, "by_op": {}}

    def spec_fail(sc, key, desc, extra):
        r = dict(sc.desc()); r.update(extra); r["kind"] = "impl-vs-spec"
        spec_bad.append((key, desc, r))

    def model_fail(sc, desc, extra):
        r = dict(sc.desc()); r.update(extra); r["kind"] = "model-vs-impl"; r["correspondence"] = "C12 flush protocol trace / state"
        model_bad.append(("model/" + sc.op, desc, r))

    # ---------------------------------------------------------------- baselines
    def baseline(sc):
        w = sc.work("base")
        snap = os.path.join(sc.dir, "snap")
        logp = os.path.join(sc.dir, "base.log")
        rc, out = shimlib.run_shim(shim, w, [exe, "run", w, sc.op, sc.modarg()], log=logp, snap=snap, env=sc.env)
        sc.base_out = parse_harness(out)
        sc.base_rc = rc
        sc.calls = shimlib.read_log(logp)
        sc.final = shimlib.tree(w)
        sc.raw_out = out
        return sc
    list(pool.map(baseline, scs))

    good = []
    for sc in scs:
        h = sc.base_out
        counts["by_op"][sc.op.split(":")[0]] = counts["by_op"].get(sc.op.split(":")[0], 0) + 1
        if sc.base_rc != 0 or h["first"] is None or h["open"] != 0:
            chk.violation("harness", "baseline run failed for %s: rc=%s %s" % (sc.desc(), sc.base_rc, sc.raw_out[-400:]),
                          {"kind": "harness", "scenario": sc.desc()}, found=False)
            continue
        sc.old = {i: (open(os.path.join(sc.tmpl, LAYOUT[i][0]), "rb").read() if os.path.exists(os.path.join(sc.tmpl, LAYOUT[i][0])) else None)
                  for i in range(len(LAYOUT))}
        sc.new = {i: norm(content(sc.final, LAYOUT[i][0])) for i in sc.frs if content(sc.final, LAYOUT[i][0]) is not None}
        toks, idxs, tmps = tokens(sc.calls, sc)
        sc.toks, sc.idxs = toks, idxs
        sc.n = len(sc.calls)
        # write sizes per fragment, before / after fchmod
        chunks, perm, cur, seen_chmod = [], [], None, False
        byidx = {c.idx: c for c in sc.calls}
        for t, ix in zip(toks, idxs):
            if t.startswith("creat"):
                cur = ([], []); chunks.append(cur); seen_chmod = False
            elif t == "write" and cur is not None:
                cur[1 if seen_chmod else 0].append(max(0, int(byidx[ix].ret)))
            elif t.startswith("fchmod"):
                seen_chmod = True; perm.append(byidx[ix].arg & 0o7777)
        sc.chunks, sc.perm = chunks, perm
        sc.oldlen = {i: len(sc.old[i] or b"") for i in range(len(LAYOUT))}
        sc.tmpl_tree = shimlib.tree(sc.tmpl)
        # spec: success, everything the operation writes is new, flags cleared, no temp
        cls, tm = classify_files(sc, sc.final, sc.old, sc.new)
        exp_flags_ok = True
        if h["first"]["flags"] is not None:
            for i in range(len(h["first"]["flags"])):
                want = 0 if i in sc.frs else (1 if i in sc.pend else 0)
                if h["first"]["flags"][i] != want:
                    exp_flags_ok = False
        sc.nomodel = False
        if len(chunks) != len(sc.frs) and not sc.include:
            sc.nomodel = True
            model_fail(sc, "%s: %d temporary files were created for %d fragments to write -- some fragment is not written through a temporary file (real trace %s)" % (
                sc.op, len(chunks), len(sc.frs), merge_writes(toks)), {})
        if h["first"]["ret"] != 0 or tm or not exp_flags_ok:
            spec_fail(sc, "flush/no-fault", "flush without any fault: ret=%s flags=%s temp files=%s (expected success, flags of written fragments cleared, no temporary file)" % (
                h["first"]["ret"], h["first"]["flags"], sorted(tm)), {"observed": sc.raw_out})
            continue
        good.append(sc)

    # ---------------------------------------------------------------- model predictions
    lines, owners = [], []
    for sc in good:
        if len(sc.perm) != len(sc.frs) or sc.include or sc.nomodel:
            continue
        lines.append(model_case(cl, -1, sc, sc.chunks, sc.oldlen, sc.perm)); owners.append((sc, -1))
        for k in range(len(sc.toks)):
            lines.append(model_case(cl, k, sc, sc.chunks, sc.oldlen, sc.perm)); owners.append((sc, k))
            if sc.toks[k] == "write":
                lines.append(model_case(cl, k, sc, sc.chunks, sc.oldlen, sc.perm, late=True)); owners.append((sc, ("late", k)))
    rcm, mout = vlib.sh([drv], inp=("\n".join(lines) + "\n").encode(), timeout=1200)
    mcases = parse_model(mout)
    counts["model_cases"] = len(mcases)
    if rcm != 0 or len(mcases) != len(lines):
        chk.violation("driver", "model driver failed rc=%d cases=%d/%d %s" % (rcm, len(mcases), len(lines), mout[-300:]), {"kind": "harness"}, found=False)
        return chk.finish()
    model = {}
    for (sc, k), mc in zip(owners, mcases):
        model[(sc.sid, k)] = mc

    # ---------------------------------------------------------------- expected dumps of the consistent versions
    def mix_dump(arg):
        sc, j = arg
        w = sc.work("mix%d" % j)
        for i in sc.frs[:j]:
            if os.path.islink(os.path.join(w, LAYOUT[i][0])):
                os.unlink(os.path.join(w, LAYOUT[i][0]))       # publication by rename replaces the link itself
            shutil.copyfile(os.path.join(sc.dir, "base", LAYOUT[i][0]), os.path.join(w, LAYOUT[i][0]))
        for i in sc.frs[j:]:
            if not os.path.exists(os.path.join(w, LAYOUT[i][0])):
                open(os.path.join(w, LAYOUT[i][0]), "w").close()      # a fragment being created: empty until flushed
        rc, out = vlib.sh([exe, "dump", w], timeout=60)
        return (sc.sid, j), out
    mixd = dict(pool.map(mix_dump, [(sc, j) for sc in good for j in range(len(sc.frs) + 1)]))

    def observe(sc, root, tag):
        """classification of a directory state: file classes, temp sizes, what gd_open sees"""
        tr = shimlib.tree(root)
        cls, tm = classify_files(sc, tr, sc.old, sc.new)
        rc, out = vlib.sh([exe, "dump", root], timeout=60)
        return cls, tm, re.sub(r"\s+$", "", out), tr

    def judge_state(sc, what, k, cls, tm, dump, extra):
        """the property: every fragment old or new (bytes), gd_open sees a consistent version"""
        counts["dumps"] += 1
        if "?" in cls or "-" in cls:
            bad = [LAYOUT[sc.frs[n]][0] for n, c in enumerate(cls) if c in "?-"]
            spec_fail(sc, "%s/mixed-or-truncated-fragment" % sc.op.split(":")[0],
                      "%s at call %s of %s: fragment file(s) %s hold neither the complete old nor the complete new text" % (what, k, sc.op, bad),
                      dict(extra, crash_point=k, classes=cls))
            return False
        j = cls.count("N")
        if cls != ["N"] * j + ["O"] * (len(cls) - j):
            spec_fail(sc, "%s/out-of-order" % sc.op.split(":")[0], "%s at call %s: replaced fragments do not form a prefix: %s" % (what, k, cls),
                      dict(extra, crash_point=k, classes=cls))
            return False
        want = re.sub(r"\s+$", "", mixd[(sc.sid, j)])
        if dump != want or not dump.startswith("error 0"):
            spec_fail(sc, "%s/gd_open-sees-inconsistent-metadata" % sc.op.split(":")[0],
                      "%s at call %s of %s: a fresh gd_open does not see the metadata of version %d (files %s)" % (what, k, sc.op, j, cls),
                      dict(extra, crash_point=k, classes=cls, seen=dump[:1500], expected=want[:1500]))
            return False
        return True

    def model_prefix(sc, k):
        """model prefix index for the state before real call k"""
        return sum(1 for ix in sc.idxs if ix < k)

    # ---------------------------------------------------------------- snapshots (concurrent observer) + kill runs
    def snap_job(arg):
        sc, k = arg
        root = os.path.join(sc.dir, "snap", str(k))
        return (sc, "snapshot", k) + observe(sc, root, "snap")

    def kill_job(arg):
        sc, k = arg
        w = sc.work("kill%d" % k)
        rc, out = shimlib.run_shim(shim, w, [exe, "run", w, sc.op, sc.modarg()], kill=k, env=sc.env)
        r = (sc, "kill", k) + observe(sc, w, "kill")
        shutil.rmtree(w, ignore_errors=True)
        return r
    jobs = []
    for sc in good:
        if sc.pad:
            continue
        ks = list(range(sc.n)) + ["end"]
        jobs += [(snap_job, (sc, k)) for k in ks]
        jobs += [(kill_job, (sc, k)) for k in range(sc.n)]
    results = list(pool.map(lambda j: j[0](j[1]), jobs))
    for sc, what, k, cls, tm, dump, tr in results:
        counts["snapshots" if what == "snapshot" else "kill_points"] += 1
        chk.cov["evaluations"] += 1
        kk = sc.n if k == "end" else k
        # crash_prefix_shape / untouched: nothing but the flushed fragments and temporary names may differ from before
        flushed = set(LAYOUT[i][0] for i in sc.frs)
        for rel, b in tr.items():
            if rel not in flushed and not shimlib.is_temp_name(rel) and sc.tmpl_tree.get(rel) != b:
                spec_fail(sc, "%s/other-file-changed" % sc.op.split(":")[0], "%s at call %s of %s: the file %s, which is not a fragment this operation writes, was created or changed" % (what, k, sc.op, rel),
                          {"crash_point": k, "file": rel})
                break
        for rel in sc.tmpl_tree:
            if rel not in tr:
                spec_fail(sc, "%s/other-file-removed" % sc.op.split(":")[0], "%s at call %s of %s: the file %s disappeared" % (what, k, sc.op, rel), {"crash_point": k, "file": rel})
                break
        ok_ = judge_state(sc, what, k, cls, tm, dump, {})
        nontriv.add((sc.sid, what, tuple(cls), tuple(sorted(tm.values()))))
        mc = model.get((sc.sid, -1))
        if mc and ok_:
            j = model_prefix(sc, kk)
            if j not in mc["P"]:
                model_fail(sc, "%s before call %s of %s: the real flush makes more model-relevant calls (%d) than flush_steps has" % (what, k, sc.op, j), {"crash_point": k})
                continue
            mcls, mtm = mc["P"][j]
            real_tm = []
            # temp file of fragment n (in creation order) and its size
            names = sorted(tm)
            want_tm = [x for x in mtm if x != "-"]
            if mcls != cls or sorted(str(v) for v in tm.values()) != sorted(want_tm):
                model_fail(sc, "%s before call %s of %s: directory state (files %s, temp sizes %s) differs from the model's prefix %d (files %s, temp sizes %s)" % (
                    what, k, sc.op, cls, sorted(tm.values()), j, mcls, want_tm), {"crash_point": k})
    # baseline trace against the model
    for sc in good:
        mc = model.get((sc.sid, -1))
        if mc and merge_writes(mc["trace"]) != merge_writes(sc.toks):
            model_fail(sc, "system-call trace of %s differs from flush_steps: real %s, model %s" % (sc.op, merge_writes(sc.toks), merge_writes(mc["trace"])), {})

    # ---------------------------------------------------------------- fault injection
    def fault_job(arg):
        sc, k, en = arg
        w = sc.work("f%d_%s" % (k, en))
        snap = w + ".snap"
        logp = w + ".log"
        if en == "SHORT":
            rc, out = shimlib.run_shim(shim, w, [exe, "run", w, sc.op, sc.modarg()], log=logp, snap_end=snap, short=k, env=sc.env)
        else:
            rc, out = shimlib.run_shim(shim, w, [exe, "run", w, sc.op, sc.modarg()], log=logp, snap_end=snap, fail=(k, ERRNO[en]), env=sc.env)
        calls = shimlib.read_log(logp)
        fin = shimlib.tree(w)
        mid = shimlib.tree(os.path.join(snap, "end")) if os.path.isdir(os.path.join(snap, "end")) else None
        shutil.rmtree(w, ignore_errors=True); shutil.rmtree(snap, ignore_errors=True)
        try:
            os.unlink(logp)
        except OSError:
            pass
        return sc, k, en, rc, parse_harness(out), calls, fin, mid, out
    fjobs = []
    for sc in good:
        for k in range(sc.n):
            if sc.pad:
                if sc.calls[k].name == "write":
                    fjobs.append((sc, k, "EIO"))
                continue
            for en in errnos:
                fjobs.append((sc, k, en))
            if sc.calls[k].name == "write" and sc.calls[k].arg >= 2:
                fjobs.append((sc, k, "SHORT"))        # a short write: stdio must write the rest
            c = sc.calls[k]
            if not sc.pad and c.name == "openat" and (c.arg & O_CREAT_EXCL) == O_CREAT_EXCL and shimlib.is_temp_name(c.p1):
                fjobs.append((sc, k, "EEXIST"))      # the name mktemp produced is taken: _GD_MakeTempFile retries
    fres = list(pool.map(fault_job, fjobs))
    for sc, k, en, rc, h, calls, fin, mid, raw in fres:
        counts["fault_runs"] += 1
        chk.cov["evaluations"] += 1
        call = sc.calls[k]
        counts["by_call"][call.name] = counts["by_call"].get(call.name, 0) + 1
        extra = {"fault": {"call_index": k, "call": repr(call), "errno": en}, "output": raw[-600:]}
        if rc != 0 or h["first"] is None or mid is None:
            chk.violation("harness", "fault run crashed: %s k=%d %s rc=%d %s" % (sc.desc(), k, en, rc, raw[-300:]),
                          dict(sc.desc(), **extra, kind="harness"), found=True if rc in (134, 139) else False)
            continue
        first, retry = h["first"], h["retry"]
        cls_mid, tm_mid = classify_files(sc, mid, sc.old, sc.new)
        cls_fin, tm_fin = classify_files(sc, fin, sc.old, sc.new)
        if en == "EEXIST":
            counts["eexist_retries"] = counts.get("eexist_retries", 0) + 1
            toks, _, _ = tokens([c for c in calls if c.note != "INJECT"], sc)
            nontriv.add((sc.sid, "eexist", k))
            if first["ret"] != 0 or cls_mid != ["N"] * len(cls_mid) or tm_mid:
                spec_fail(sc, KEY_EEXIST, "%s with the temporary name of call %d taken (EEXIST): ret=%s files=%s, %d temporary files left %s... (expected a retry with another name and success)" % (
                    sc.op, k, first["ret"], cls_mid, len(tm_mid), sorted(tm_mid)[:3]), dict(extra, output=extra["output"][-300:]))
            elif len([c for c in calls if c.name == "openat" and (c.arg & O_CREAT_EXCL) == O_CREAT_EXCL and shimlib.is_temp_name(c.p1)]) != len(sc.frs) + 1:
                model_fail(sc, "%s: EEXIST at call %d: expected exactly one extra exclusive creation" % (sc.op, k), extra)
            elif (sc.sid, -1) in model and merge_writes(toks) != merge_writes(model[(sc.sid, -1)]["trace"]):
                model_fail(sc, "%s: EEXIST at call %d: apart from the failed creation the trace must be the success path (eexist_retry_transparent): real %s" % (sc.op, k, merge_writes(toks)), extra)
            continue
        toks, idxs, _ = tokens(calls, sc)
        nontriv.add((sc.sid, "fault", tuple(merge_writes(toks)), first["ret"] != 0, tuple(cls_mid)))
        is_fdopen = (call.name == "fcntl")
        # ---- the property text
        problems = []
        leak = False
        if "?" in cls_mid or "-" in cls_mid:
            problems.append(("mixed-or-truncated-fragment", "fragment file neither old nor new after the failing call: %s" % cls_mid))
        if first["ret"] == 0:
            if cls_mid != ["N"] * len(cls_mid):
                problems.append(("success-but-not-written", "call reported success but files are %s" % cls_mid))
            if tm_mid:
                problems.append(("temp-file-left", "temporary file left after a successful call: %s" % sorted(tm_mid)))
        else:
            if first["freed"]:
                problems.append(("handle-freed-on-failure", "gd_close reported failure but released the handle"))
            flags = first["flags"] or []
            for n, i in enumerate(sc.frs):
                pend = flags[i] if i < len(flags) else None
                if sc.include and len(flags) <= NFRAG0:
                    continue             # gd_include itself failed: nothing is pending
                if cls_mid[n] == "O" and pend != (1 if i in sc.pend else 0):
                    problems.append(("pending-change-lost", "fragment %d still has its old file but its modified flag is %s" % (i, pend)))
                if cls_mid[n] == "N" and pend != 0:
                    problems.append(("flag-not-cleared", "fragment %d was replaced but its modified flag is %s" % (i, pend)))
            if "O" not in cls_mid and not sc.include:
                problems.append(("failure-but-written", "call reported failure although every fragment was replaced"))
            if tm_mid:
                leak = True
                if not is_fdopen:
                    problems.append(("temp-file-left", "temporary file(s) %s left behind by a call that reported failure" % sorted(tm_mid)))
            if retry is None or retry["ret"] != 0:
                problems.append(("retry-fails", "the retry after the fault was lifted returned %s" % (retry and retry["ret"])))
            elif cls_fin != ["N"] * len(cls_fin):
                problems.append(("retry-incomplete", "after a successful retry the files are %s" % cls_fin))
            elif [t for t in tm_fin if t not in tm_mid]:
                problems.append(("temp-file-left", "retry left temporary file(s) %s" % sorted(tm_fin)))
        if leak and is_fdopen:
            known_seen.append((sc, k, en, sorted(tm_mid), dict(sc.desc(), **extra, kind="impl-vs-spec", temp_files=sorted(tm_mid))))
        for key, d in problems:
            spec_fail(sc, "%s/fail-%s/%s" % (sc.op.split(":")[0], call.name, key),
                      "%s with %s injected at call %d (%s): %s" % (sc.op, en, k, call.name, d), extra)
        # ---- the model (only for calls that are steps of the model)
        if en == "SHORT":
            counts["short_writes"] = counts.get("short_writes", 0) + 1
            continue
        if k in sc.idxs and not problems:
            mk = sc.idxs.index(k)
            mc = model.get((sc.sid, mk))
            if mc:
                want = merge_writes(mc["trace"])
                got = merge_writes(toks)
                mlate = model.get((sc.sid, ("late", mk)))
                if got != want and mlate and got == merge_writes(mlate["trace"]):
                    mc = mlate; want = got        # the failed write was swallowed by an unchecked stdio call
                mflags = [first["flags"][i] for i in sc.frs] if first["flags"] is not None else None
                # the flush never sets a flag: a fragment rewritten by force without pending changes stays unflagged
                mc = dict(mc, mod=[m if i in sc.pend else 0 for m, i in zip(mc["mod"], sc.frs)])
                mtm = len([x for x in mc["tmps"] if x != "-"])
                if got != want:
                    model_fail(sc, "%s, %s at call %d (%s): real trace %s, model trace %s" % (sc.op, en, k, call.name, got, want), extra)
                elif (first["ret"] != 0) != bool(mc["err"]) or (mflags is not None and mflags != mc["mod"]) or cls_mid != mc["final"] or len(tm_mid) != mtm:
                    model_fail(sc, "%s, %s at call %d (%s): real outcome ret=%s flags=%s files=%s temps=%d, model err=%s flags=%s files=%s temps=%d" % (
                        sc.op, en, k, call.name, first["ret"], mflags, cls_mid, len(tm_mid), mc["err"], mc["mod"], mc["final"], mtm), extra)
                elif not (leak and is_fdopen) and first["ret"] != 0 and (mc["retry_err"] != 0 or mc["retry_final"] != cls_fin):
                    model_fail(sc, "%s, %s at call %d: retry differs from the model: real %s model %s" % (sc.op, en, k, cls_fin, mc["retry_final"]), extra)

    # ---------------------------------------------------------------- double faults (crash_atomic_multi; outcome judged by the property text)
    def dfault_job(arg):
        sc, k1, k2, e1, e2, uniq = arg
        w = sc.work("d%d_%d" % (k1, uniq))
        snap = w + ".snap"; logp = w + ".log"
        rc, out = shimlib.run_shim(shim, w, [exe, "run", w, sc.op, sc.modarg()], log=logp, snap_end=snap,
                                   fail=[(k1, ERRNO[e1]), (k2, ERRNO[e2])], env=sc.env)
        calls = shimlib.read_log(logp)
        fin = shimlib.tree(w)
        mid = shimlib.tree(os.path.join(snap, "end")) if os.path.isdir(os.path.join(snap, "end")) else None
        shutil.rmtree(w, ignore_errors=True); shutil.rmtree(snap, ignore_errors=True)
        try:
            os.unlink(logp)
        except OSError:
            pass
        return sc, k1, k2, e1, e2, rc, parse_harness(out), calls, fin, mid, out
    djobs = []
    npairs = 10 if not chk.thorough else 60
    for sc in good:
        if sc.n < 4 or sc.pad:
            continue
        for _ in range(npairs):
            k1 = rng.randrange(sc.n - 1)
            k2 = rng.randrange(k1 + 1, sc.n + 3)
            djobs.append((sc, k1, k2, rng.choice(errnos), rng.choice(errnos), len(djobs)))
    for sc, k1, k2, e1, e2, rc, h, calls, fin, mid, raw in pool.map(dfault_job, djobs):
        counts["double_fault_runs"] = counts.get("double_fault_runs", 0) + 1
        chk.cov["evaluations"] += 1
        failed = [c for c in calls if c.note == "INJECT"]
        extra = {"faults": [{"call_index": k1, "errno": e1}, {"call_index": k2, "errno": e2}], "failed_calls": [repr(c) for c in failed], "output": raw[-400:]}
        key0 = "%s/double-fault" % sc.op.split(":")[0]
        if rc != 0 or h["first"] is None or mid is None:
            spec_fail(sc, key0 + "/crash", "%s with two failing calls (%s): the process died rc=%d %s" % (sc.op, [repr(c) for c in failed], rc, raw[-200:]), extra)
            continue
        first, retry = h["first"], h["retry"]
        cls_mid, tm_mid = classify_files(sc, mid, sc.old, sc.new)
        cls_fin, tm_fin = classify_files(sc, fin, sc.old, sc.new)
        nontriv.add((sc.sid, "double", tuple(c.name for c in failed), first["ret"] != 0, tuple(cls_mid), bool(tm_mid)))
        unlink_failed = any(c.name.startswith("unlink") for c in failed)
        j = cls_mid.count("N")
        if "?" in cls_mid or "-" in cls_mid or cls_mid != ["N"] * j + ["O"] * (len(cls_mid) - j):
            spec_fail(sc, key0 + "/mixed-or-truncated-fragment", "%s with failing calls %s: fragment files %s are not old*/new* complete texts" % (sc.op, [repr(c) for c in failed], cls_mid), extra)
            continue
        if first["ret"] == 0:
            if "O" in cls_mid or (tm_mid and not unlink_failed):
                spec_fail(sc, key0 + "/success-but-not-written", "%s with failing calls %s reported success: files %s temps %s" % (sc.op, [repr(c) for c in failed], cls_mid, sorted(tm_mid)), extra)
            continue
        flags = first["flags"] or []
        for n, i in enumerate(sc.frs):
            want = (1 if i in sc.pend else 0) if cls_mid[n] == "O" else 0
            if sc.include and len(flags) <= NFRAG0:
                continue                 # gd_include itself failed: nothing is pending
            if i < len(flags) and flags[i] != want:
                spec_fail(sc, key0 + "/flag-mismatch", "%s with failing calls %s: fragment %d file is %s but modified=%s" % (sc.op, [repr(c) for c in failed], i, cls_mid[n], flags[i]), extra)
        if tm_mid and not unlink_failed:
            spec_fail(sc, key0 + "/temp-file-left", "%s with failing calls %s: %s left although no unlink failed" % (sc.op, [repr(c) for c in failed], sorted(tm_mid)), extra)
        if "O" not in cls_mid:
            spec_fail(sc, key0 + "/failure-but-written", "%s reported failure although every fragment was replaced" % sc.op, extra)
        if retry is None or retry["ret"] != 0 or cls_fin != ["N"] * len(cls_fin):
            spec_fail(sc, key0 + "/retry-incomplete", "%s with failing calls %s: retry returned %s, files %s" % (sc.op, [repr(c) for c in failed], retry and retry["ret"], cls_fin), extra)

    # ---------------------------------------------------------------- histories: equal basenames in several directories,
    # failed reads and includes before the flush; EVERY file on disk is judged, and every rename must stay in the
    # directory of the fragment it belongs to (crash_prefix_shape: nothing but the flushed fragments is touched)
    def make_hist(d):
        for sub in ("a", "b", "c"):
            os.makedirs(os.path.join(d, sub))
        files = {"format": "/VERSION 9\n/ENCODING none\ndata RAW UINT8 1\nc0 CONST UINT8 10\n/INCLUDE a/inc.format\n/INCLUDE c/inc.format\n",
                 "a/inc.format": "lin LINTERP data table.lut\nc1 CONST UINT8 11\n",
                 "c/inc.format": "lin2 LINTERP data tab2.lut\nc2 CONST UINT8 12\n",
                 "b/inc.format": "c3 CONST UINT8 13\n"}
        for rel, t in files.items():
            open(os.path.join(d, rel), "w").write(t)
        open(os.path.join(d, "data"), "wb").write(bytes(range(16)))

    def hist_new(i, b):
        """is b the rewritten text of fragment i (and of no other fragment)?"""
        return (b"n%d CONST" % i) in b and not any((b"n%d CONST" % j) in b for j in range(5) if j != i)

    def hist_job(arg):
        hid, pre, mods = arg
        w = os.path.join(base, "h%d" % hid)
        make_hist(os.path.join(w, "tmpl"))
        d = os.path.join(w, "df")
        shutil.copytree(os.path.join(w, "tmpl"), d)
        logp = os.path.join(w, "log"); snap = os.path.join(w, "snap")
        rc, out = shimlib.run_shim(shim, d, [exe, "run", d, "metaflush", ",".join(str(m) for m in mods)], log=logp, snap=snap,
                                   env={"C12_PREOPS": ",".join(pre)})
        calls = shimlib.read_log(logp)
        old = shimlib.tree(os.path.join(w, "tmpl"))
        states = [("before call %d" % c.idx, shimlib.tree(os.path.join(snap, str(c.idx)))) for c in calls if os.path.isdir(os.path.join(snap, str(c.idx)))]
        states.append(("after the flush", shimlib.tree(d)))
        rcd, dump = vlib.sh([exe, "dump", d], timeout=60)
        shutil.rmtree(w, ignore_errors=True)
        return hid, pre, mods, rc, out, calls, old, states, dump
    hjobs = []
    for nl in (0, 1, 2, 3):
        for nl2 in (0, 2):
            for rdata in (0, 1):
                for inc in (0, 1):
                    pre = ["r:data"] * rdata + ["r:lin"] * nl + ["r:lin2"] * nl2 + (["i:b/inc.format:0"] if inc else [])
                    hjobs.append((len(hjobs), pre, [1, 2] + ([3] if inc else [])))
    for _ in range(8 if not chk.thorough else 60):
        pre = [rng.choice(["r:data", "r:lin", "r:lin", "r:lin2", "n"]) for _ in range(rng.randint(1, 6))]
        inc = rng.random() < 0.7
        if inc:
            pre.insert(rng.randint(0, len(pre)), "i:b/inc.format:0")
        mods = sorted(set(rng.sample([1, 2] + ([3] if inc else []), rng.randint(1, 2 + (1 if inc else 0)))))
        hjobs.append((len(hjobs), pre, mods))
    for hid, pre, mods, rc, out, calls, old, states, dump in pool.map(hist_job, hjobs):
        counts["history_runs"] = counts.get("history_runs", 0) + 1
        chk.cov["evaluations"] += len(states)
        hdesc = {"kind": "impl-vs-spec", "layout": "format (data RAW, INCLUDE a/inc.format, INCLUDE c/inc.format), a/inc.format (LINTERP with a missing table), c/inc.format (the same), b/inc.format on disk only",
                 "history_before_the_flush": pre, "modified_fragments": mods, "operation": "gd_metaflush",
                 "how": "C12_PREOPS=%s harness/C12/shim -r DIR -l LOG -- harness/C12/flush run DIR metaflush %s" % (",".join(pre), ",".join(str(m) for m in mods))}
        frag = {}
        for l in out.splitlines():
            wds = l.split()
            if wds and wds[0] == "fragname":
                frag[int(wds[1])] = wds[2]
        h = parse_harness(out)
        nontriv.add(("hist", tuple(pre), tuple(mods)))
        if rc != 0 or h["first"] is None:
            spec_bad.append(("history/crash", "history %s then metaflush of fragments %s: the process died rc=%d %s" % (pre, mods, rc, out[-200:]), hdesc)); continue
        root_dir = os.path.dirname(frag.get(0, ""))
        relof = {i: os.path.relpath(pth, root_dir) for i, pth in frag.items()}
        home = {"format": 0, "a/inc.format": 1, "c/inc.format": 2, "b/inc.format": 3}
        owner = {"data": 0, "c0": 0, "n0": 0, "lin": 1, "c1": 1, "n1": 1, "lin2": 2, "c2": 2, "n2": 2, "c3": 3, "n3": 3}
        must = {0: {"data", "c0"}, 1: {"lin", "c1"}, 2: {"lin2", "c2"}, 3: {"c3"}}

        def own_text(i, b):
            """a complete text written by the library for fragment i: only fields of fragment i, all of its old ones"""
            if not b.startswith(b"# This is a dirfile format file"):
                return False
            names = set()
            for ln in b.decode("latin1").splitlines():
                wds = ln.split()
                if wds and not wds[0].startswith(("#", "/")):
                    names.add(wds[0])
            return all(owner.get(nm) == i for nm in names) and must[i] <= names
        bad = None
        for label, tr in states:
            for rel, b in tr.items():
                if shimlib.is_temp_name(rel):
                    continue
                o = old.get(rel)
                okf = (b == o) or (rel in home and own_text(home[rel], b))
                if not okf and bad is None:
                    bad = (label, rel, b[:200])
            for rel in old:
                if rel not in tr and bad is None:
                    bad = (label, rel, b"<removed>")
        if bad:
            spec_bad.append(("history/file-holds-neither-its-old-nor-its-own-new-text",
                             "history %s, fragments %s modified, gd_metaflush: %s the file %s holds neither its previous text nor a complete text of ITS OWN fragment: %r" % (
                                 pre, mods, bad[0], bad[1], bad[2]), dict(hdesc, at=bad[0], file=bad[1])))
            continue
        fin = states[-1][1]
        if h["first"]["ret"] != 0 or any(not hist_new(i, fin.get(relof.get(i, ""), b"")) for i in mods):
            spec_bad.append(("history/flush-incomplete", "history %s: gd_metaflush returned %s but fragments %s are not all rewritten" % (pre, h["first"]["ret"], mods), hdesc))
            continue
        # every rename of the flush stays in the directory of a flushed fragment and hits exactly its own file
        rn = [(c.p1, c.p2) for c in calls if c.name.startswith("rename") and c.ok]
        want = sorted(relof[i] for i in mods if i in relof)
        tg = [p2 for _, p2 in rn]
        if any(wp not in tg for wp in want) or len(set(tg)) != len(tg) or any(p2 not in home for p2 in tg) or \
                any(os.path.dirname(p1) != os.path.dirname(p2) for p1, p2 in rn):
            spec_bad.append(("history/rename-into-wrong-directory", "history %s: the flush of fragments %s renamed %s (expected one rename onto each of %s and only onto fragment files, each inside its own directory)" % (
                pre, mods, rn, want), hdesc))
            continue
        if not dump.startswith("error 0") or any(("entry n%d " % i) not in dump for i in mods):
            spec_bad.append(("history/gd_open-after-flush", "history %s: a fresh gd_open after the flush does not see the new fields of fragments %s: %s" % (pre, mods, dump[:300]), hdesc))

    # ---------------------------------------------------------------- reader that had the dirfile open before
    hold_problem = None
    if good:
        sc = good[min(5, len(good) - 1)]
        w = sc.work("hold")
        import subprocess
        holder = subprocess.Popen([exe, "hold", w], stdin=subprocess.PIPE, stdout=subprocess.PIPE)

        def read_dump():
            buf = []
            while True:
                l = holder.stdout.readline().decode()
                if not l:
                    break
                buf.append(l)
                if l.startswith("enddump") or (l.startswith("error") and not l.startswith("error 0")):
                    break
            return "".join(buf)
        first = read_dump()
        wr = subprocess.Popen([shim, "-r", w, "-i", "--", exe, "run", w, sc.op, sc.modarg()], stdin=subprocess.PIPE, stdout=subprocess.PIPE)
        stops = 0
        while True:
            l = wr.stdout.readline().decode()
            if not l:
                break
            if l.startswith("STOP"):
                stops += 1
                holder.stdin.write(b"x\n"); holder.stdin.flush()
                d = read_dump()
                chk.cov["evaluations"] += 1
                if d != first and hold_problem is None:
                    hold_problem = (l.strip(), d)
                wr.stdin.write(b"c\n"); wr.stdin.flush()
        wr.wait(); holder.stdin.close(); holder.wait()
        counts["long_lived_reader_observations"] = stops
        if hold_problem:
            spec_fail(sc, "%s/long-lived-reader" % sc.op, "a reader that had the dirfile open sees changed or broken metadata at %s" % hold_problem[0],
                      {"seen": hold_problem[1][:1000], "expected": first[:1000]})

    # ---------------------------------------------------------------- verdicts
    chk.cov["distinct_nontrivial"] = len(nontriv)
    chk.cov["rule"] = ("%d scenarios (fixed list + %d random: 1-4 modified fragments of 4 in 3 directories, some with >4 KiB / >8 KiB text so that several write(2) calls occur before fchmod; "
                       "operations metaflush / flush / sync / close / rewrite_fragment(i|ALL)); for EVERY logged system call of the operation: directory snapshot before it, "
                       "SIGKILL before it, and the call failed with ENOSPC, EIO, EACCES; distinct = distinct (scenario, kind, canonical trace or file classes, outcome)") % (len(scs), nrand)
    chk.cov["exhaustive"] = False
    chk.cov["exhaustive_note"] = "every call boundary of every scenario is used (kill and three errnos); the scenarios themselves are sampled"
    chk.cov["distribution"] = counts
    for sc in good[:3]:
        chk.sample({"scenario": sc.desc(), "calls": sc.n, "trace": merge_writes(sc.toks), "write_chunks": sc.chunks})
    leak_reported = False
    if known_seen:
        sc, k, en, tms, rep = known_seen[0]
        rep["occurrences"] = len(known_seen)
        leak_reported = chk.violation(KEY_FDOPEN, "fdopen failure (fcntl F_GETFL -> %s) during %s leaves the temporary file %s and its descriptor behind although the call reports failure (%d such runs)" % (
            en, sc.op, tms, len(known_seen)), rep)
    found_any = bool(locals().get('leak_reported'))
    seen_keys = set()
    for key, desc, rep in spec_bad:
        if key in seen_keys:
            continue
        seen_keys.add(key)
        if chk.violation(key, desc, rep):
            found_any = True
    seen_keys = set()
    for key, desc, rep in model_bad:
        if found_any or key in seen_keys:
            continue
        seen_keys.add(key)
        chk.violation(key, "correspondence broken: " + desc, rep, found=False)
    if trans_problems and not found_any:
        chk.violation("translator", "translator cannot recognise the flush protocol in src/flush.c: " + "; ".join(trans_problems[:3]),
                      {"kind": "translator", "problems": trans_problems, "theorem": "code_shape_recognised"}, found=False)
    if not proved and not found_any and not trans_problems:
        chk.violation("proof", "Properties_C12 does not check: " + getattr(chk, "proof_log", "")[-1200:],
                      {"kind": "proof", "theorem": "Properties_C12", "log": getattr(chk, "proof_log", "")[-4000:]}, found=False)
    return chk.finish()


if __name__ == "__main__":
    sys.exit(main())
