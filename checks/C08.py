#!/usr/bin/env python3
"""C08 -- format files are tokenised and interpreted as the Standards specify.

proof:  Properties_C08.v -- tok_impl = tok_spec for all byte strings (state
        machine of _GD_Tokenise vs the lexer transcribed from dirfile-format(5)),
        the buffer bounds of the tokeniser (cited by C05), and the version-gate
        table REGENERATED from src/parse.c + src/name.c = the HISTORY table.
tie:    translator tr_gates.py; correspondence of the extracted tokeniser
        model with gd_strtok and _GD_Tokenise on ALL short strings over the
        syntactically significant alphabet (+ generated longer lines), and of
        the gate tables with gd_cbopen + parser callback on generated
        specification lines (18 field types, 11 directives, 10 syntax gates x
        Versions 0..10 x {pedantic, permissive}).
search: every disagreement is judged against tok_spec / the HISTORY table."""
import sys, os, json, subprocess, itertools, time, shutil, re
from concurrent.futures import ThreadPoolExecutor
sys.path.insert(0, os.path.join(os.path.dirname(os.path.abspath(__file__)), "..", "bin"))
import vlib

V = vlib.VERIF
A19 = "6172303738787546672009225c233b3c3e2e2f"   # a r 0 7 8 x u F g SP TAB " \ # ; < > . /
A12 = "6130373878754620225c2367"                 # a 0 7 8 x u F SP " \ # g
A9 = "613137787520225c23"                        # a 1 7 x u SP " \ #
AWS = "6120090a0b0c0d225c23"                     # a SP TAB LF VT FF CR " \ #   (the whole whitespace set)
BLOCK = 4096

GNAMES = ["T_BIT", "T_CARRAY", "T_CONST", "T_DIVIDE", "T_INDIR", "T_LINCOM", "T_LINTERP", "T_MPLEX", "T_MULTIPLY",
          "T_PHASE", "T_POLYNOM", "T_RAW", "T_RECIP", "T_SBIT", "T_SINDIR", "T_SARRAY", "T_STRING", "T_WINDOW",
          "D_ALIAS", "D_ENCODING", "D_ENDIAN", "D_FRAMEOFFSET", "D_HIDDEN", "D_INCLUDE", "D_META", "D_NAMESPACE",
          "D_PROTECT", "D_REFERENCE", "D_VERSION",
          "S_ESCAPES", "S_QUOTES", "S_META_SLASH", "S_SLASH_OPTIONAL", "S_SLASH_REQUIRED", "S_ENDIAN_ARM",
          "S_INT_PREFIX", "S_FRAMEOFFSET_PREFIX", "S_NEW_TYPES", "S_COMPLEX_TYPES", "S_NO_TYPE_CHARS", "S_NO_FILEFRAM",
          "S_LINCOM_COUNT_OPTIONAL",
          "R_FRAMEOFFSET", "R_ENCODING", "R_ENDIAN", "R_INCLUDE", "R_META", "R_VERSION", "R_PROTECT", "R_REFERENCE",
          "R_UNTIL"]

# keys of the three defects found by this check and repaired in /repo (commits
# e8e73fb, 903107b, be0b187); their witnesses are replayed as regression cases
K_PENDING = "tokenise/numeric-escape-pending-at-end-of-string"
K_SINDIR = "parse/SINDIR-gate-version-2"
K_NAMES = "validate/hash-or-space-in-field-name-before-version-6"
K_ERANGE = "literal/strtod-ERANGE-makes-a-literal-a-field-code"
K_NEGFLIP = "literal/integer-below-INT64_MIN-read-as-positive"
K_NTOK = "parse/tokeniser-error-in-first-two-tokens-reported-as-N_TOK"
K_LINCOMN = "parse/LINCOM-count-optional-before-version-7"
K_BITOVF = "parse/BIT-range-check-overflows-int"
K_METAARRAY = "parse/META-CARRAY-SARRAY-truncated-at-MAX_IN_COLS"
K_MASQ = "parse/reserved-word-field-name-with-Version-8-field-type-taken-for-a-directive"


def load_staged_findings(chk):
    """known_findings.d/C08.json is the staging area of this property; the
    coordinator merges it into known_findings.json.  Until then read it here."""
    p = os.path.join(V, "known_findings.d", "C08.json")
    if os.path.exists(p):
        have = {f["key"] for f in chk.known}
        for f in json.load(open(p)).get("findings", []):
            if f.get("property") == "C08" and f.get("status", "open") == "open" and f["key"] not in have:
                chk.known.append(f)


def run(cmd, inp=None, timeout=3000):
    p = subprocess.run(cmd, input=inp, stdout=subprocess.PIPE, stderr=subprocess.PIPE, timeout=timeout)
    return p.returncode, p.stdout.decode("latin-1"), p.stderr.decode("latin-1")


def run_sharded(cmd, inp, n=8):
    """run a line-per-case filter on the input split into n contiguous chunks, in parallel"""
    lines = inp.split(b"\n")
    if lines and lines[-1] == b"":
        lines.pop()
    if len(lines) < 4 * n:
        return run(cmd, inp)
    per = (len(lines) + n - 1) // n
    chunks = [b"\n".join(lines[i:i + per]) + b"\n" for i in range(0, len(lines), per)]
    with ThreadPoolExecutor(max_workers=n) as ex:
        res = list(ex.map(lambda c: run(cmd, c), chunks))
    return max(r[0] for r in res), "".join(r[1] for r in res), "".join(r[2] for r in res)


# ------------------------------------------------------------------ tokeniser

def shards(alpha_hex, length, nshard):
    n = (len(alpha_hex) // 2) ** length
    if n <= BLOCK * 4:
        return [(0, n)]
    per = ((n // nshard) // BLOCK + 1) * BLOCK
    return [(lo, min(n, lo + per)) for lo in range(0, n, per)]


def judge_line(impl_line, spec):
    """Is what the implementation did on one string what tok_spec demands?
    impl_line: '<hex> <ver> S <toks> E<e> | L <toks> E<e> P<pos>'; spec: 'OK <toks>' | 'ERR n'."""
    f = impl_line.split()
    s_toks, s_err, l_toks, l_err = f[3], f[4], f[7], f[8]
    tl = lambda t: [] if t == "_" else t.split(",")
    if spec.startswith("OK"):
        want = tl(spec.split()[1])
        ok_s = (s_err == "E0" and tl(s_toks) == want)
        ok_l = (l_err == "E0" and tl(l_toks) == want[:14])
        return ok_s and ok_l
    e = "E" + spec.split()[1]
    ok_s = (s_err == e)
    # an error beyond the 14th token is never looked at (text silent; see notes)
    ok_l = (l_err == e) or (l_err == "E0" and len(tl(l_toks)) == 14)
    return ok_s and ok_l


def tokeniser_part(chk, exe, drv, problems):
    thorough = chk.thorough
    plan = [(A19, L) for L in range(0, 6 if not thorough else 7)]
    plan += [(A12, 6), (A9, 7)] if not thorough else [(A12, 7), (A9, 8)]
    plan += [(AWS, L) for L in range(1, 6 if not thorough else 7)]
    jobs = []
    for alpha, L in plan:
        for lo, hi in shards(alpha, L, 32):
            jobs.append((alpha, L, lo, hi))
    # generated longer lines (stdin mode)
    rng = chk.rng
    pieces = [b"a", b"ab", b"RAW", b"x", b"u", b"0", b"7", b"8", b"F", b"g", b" ", b"  ", b"\t", b"\r", b"\f", b"\v", b"\n",
              b'"', b'""', b"\\", b"#", b";", b"<1>", b".", b"/", b"\\\\", b'\\"', b"\\#", b"\\ ", b"\\a", b"\\b", b"\\e",
              b"\\f", b"\\n", b"\\r", b"\\t", b"\\v", b"\\q", b"\\0", b"\\00", b"\\000", b"\\1", b"\\12", b"\\37", b"\\40",
              b"\\377", b"\\400", b"\\777", b"\\08", b"\\x", b"\\x0", b"\\x00", b"\\x1", b"\\x41", b"\\xg", b"\\x4g",
              b"\\xFF", b"\\xff", b"\\u", b"\\u0", b"\\u41", b"\\u7f", b"\\u80", b"\\u7ff", b"\\u800", b"\\uD800",
              b"\\uffff", b"\\u10000", b"\\u10FFFF", b"\\u110000", b"\\u1234567", b"\\u12345678", b"\\u0000000",
              b"\\u00000041", b"\\ug", b"\\\n", b"\xe9", b"\xff", b"\x80", b"\x01", b"\x7f"]
    nrand = 60000 if not thorough else 600000
    lines = []
    for i in range(nrand):
        k = rng.randint(1, 12) if i % 5 else rng.randint(12, 40)
        s = b"".join(rng.choice(pieces) for _ in range(k))
        if i % 7 == 0:
            s += b"\n"
        s = s.replace(b"\x00", b"")
        lines.append(s.hex() if s else "-")
    rand_inp = ("\n".join(lines) + "\n").encode()

    def do(job):
        if job == "rand":
            a = run([exe, "stdin", "hash"], rand_inp)
            b = run([drv, "stdin", "hash"], rand_inp)
        else:
            alpha, L, lo, hi = job
            args = ["enum", alpha, str(L), str(lo), str(hi), "hash"]
            a = run([exe] + args)
            b = run([drv] + args)
        return job, a, b

    t0 = time.time()
    with ThreadPoolExecutor(max_workers=vlib.NPROC) as ex:
        results = list(ex.map(do, jobs + ["rand"]))
    stats = {"strings": 0, "nontrivial": 0, "spec_errors": 0, "fix_differs": 0, "fixed_vs_spec": 0, "current_vs_spec": 0}
    pending_examples, bad_examples = [], []
    match_cur = match_fix = True
    bad_blocks = []
    for job, (rc1, o1, e1), (rc2, o2, e2) in results:
        il = [l for l in o1.splitlines() if l]
        ml = [l for l in o2.splitlines() if l and not l.startswith("STATS")]
        st = [l for l in o2.splitlines() if l.startswith("STATS")]
        if rc1 != 0 or rc2 != 0 or len(il) != len(ml) or not st:
            problems.append("harness/driver failed on %s: rc=%d/%d lines=%d/%d %s %s" % (job, rc1, rc2, len(il), len(ml), e1[-200:], e2[-200:]))
            continue
        for kv in st[0].split()[1:]:
            k, _, v = kv.partition("=")
            if k in stats:
                stats[k] += int(v)
            elif k == "pending" and v != "[]":
                pending_examples += v.strip("[]").split(";")
            elif k == "bad" and v != "[]":
                bad_examples += v.strip("[]").split(";")
        for a, b in zip(il, ml):
            fa, fb = a.split(), b.split()
            cur = (fa[1:3] == fb[1:3])
            fix = (fa[1:3] == fb[3:5])
            match_cur &= cur
            match_fix &= fix
            if not fix:
                bad_blocks.append((job, int(fa[0])))
    chk.cov["evaluations"] += stats["strings"]
    chk.cov["distinct_nontrivial"] += stats["nontrivial"]
    chk.cov["tokeniser"] = dict(stats, wall_s=round(time.time() - t0, 1),
                                exhaustive=["alphabet %s length %d" % (bytes.fromhex(a).decode("latin-1").encode("unicode_escape").decode(), L) for a, L in plan],
                                generated_lines=nrand, impl_matches_model=match_fix)
    if stats["fixed_vs_spec"]:
        problems.append("extracted tok_impl(fx=true) differs from tok_spec on %d strings, e.g. %s (contradicts theorem tokenise_agrees)" % (stats["fixed_vs_spec"], bad_examples[:3]))
    # blocks where the implementation matches neither model: look at every string
    for job, first in bad_blocks[:6]:
        if job == "rand":
            sub = ("\n".join(lines[first:first + BLOCK]) + "\n").encode()
            a = run([exe, "stdin", "full"], sub)
            b = run([drv, "stdin", "full"], sub)
        else:
            alpha, L, lo, hi = job
            args = ["enum", alpha, str(L), str(first), str(min(hi, first + BLOCK)), "full"]
            a = run([exe] + args)
            b = run([drv] + args)
        il = a[1].splitlines()
        ml = [l for l in b[1].splitlines() if not l.startswith("STATS")]
        n_rep = 0
        for x, y in zip(il, ml):
            m0, m1, spec = y.split("\t")
            if x == m1:
                continue
            n_rep += 1
            if n_rep > 3:
                break
            inhex, ver = x.split()[0], x.split()[1]
            rep = {"kind": "tokeniser", "input_hex": inhex, "standards_version": ver, "impl": x, "model_current": m0,
                   "model_repaired": m1, "spec": spec,
                   "how": "printf '%s\\n' | <harness/C08/tok> stdin full   (gd_strtok sequence | _GD_Tokenise with MAX_IN_COLS)" % inhex}
            if not judge_line(x, spec):
                chk.violation("tokenise/%s" % inhex[:40], "tokenising the string %s (hex) at Standards Version %s gives [%s]; dirfile-format(5) demands [%s]" % (
                    inhex, ver, x.split(" ", 2)[2], spec), rep, found=True)
            else:
                chk.violation("model/tokenise", "correspondence broken: on string %s (hex) gd_strtok/_GD_Tokenise give [%s], the model of _GD_Tokenise [%s] (both satisfy the specification [%s])" % (
                    inhex, x.split(" ", 2)[2], m1.split(" ", 2)[2], spec),
                    dict(rep, correspondence="C08 Token.v vs _GD_Tokenise"), found=False)
    # regression: the witnesses of the repaired defect e8e73fb
    wit = [b"s STRING a\\u41", b"a \\12", b"\\x4", b"x\\u"]
    a = run([exe, "stdin", "full"], ("\n".join(w.hex() for w in wit) + "\n").encode())
    b = run([drv, "stdin", "full"], ("\n".join(w.hex() for w in wit) + "\n").encode())
    il = a[1].splitlines()
    ml = [l for l in b[1].splitlines() if not l.startswith("STATS")]
    n_bad = 0
    for x, y in zip(il, ml):
        m0, m1, spec = y.split("\t")
        if x.split()[1] != "10":
            continue
        chk.sample({"string_hex": x.split()[0], "version": x.split()[1], "impl": x.split(" ", 2)[2], "spec": spec})
        if not judge_line(x, spec):
            n_bad += 1
            w = bytes.fromhex(x.split()[0])
            chk.violation(K_PENDING, "a numeric escape ended by the end of the string is reported as GD_E_FORMAT_UNTERM: %r -> [%s], dirfile-format(5) demands [%s]" % (
                w, x.split(" ", 2)[2], spec),
                {"kind": "tokeniser", "input_hex": x.split()[0], "impl": x, "spec": spec,
                 "how": "gd_strtok(D, %r) / gd_add_spec(D, %r, 0) on any dirfile" % (w.decode("latin-1"), w.decode("latin-1"))}, found=True)
    chk.cov["tokeniser"]["pending_escape_witnesses_failing"] = n_bad
    return match_fix


# ------------------------------------------------------------------ gates

def gate_tables(drv, problems):
    rc, out, err = run([drv, "gates"])
    code, spec = {}, {}
    for l in out.splitlines():
        f = l.split()
        if f and f[0] == "GATE":
            code[GNAMES[int(f[1])]] = int(f[2])
            spec[GNAMES[int(f[1])]] = int(f[3])
    if rc != 0 or len(code) != len(GNAMES):
        problems.append("driver gates failed: rc=%d %s" % (rc, err[-300:]))
    return code, spec


FIELD_LINES = {
    "BIT": "x BIT a 1", "SBIT": "x SBIT a 1", "LINCOM": "x LINCOM 1 a 2 3", "LINTERP": "x LINTERP a /nonexistent/table",
    "MULTIPLY": "x MULTIPLY a b", "DIVIDE": "x DIVIDE a b", "PHASE": "x PHASE a 1", "POLYNOM": "x POLYNOM a 1 2",
    "RECIP": "x RECIP a 1", "CONST": "x CONST UINT8 1", "CARRAY": "x CARRAY UINT8 1 2", "STRING": "x STRING abc",
    "SARRAY": "x SARRAY abc def", "MPLEX": "x MPLEX a b 1 2", "WINDOW": "x WINDOW a b EQ 1", "INDIR": "x INDIR a b",
    "SINDIR": "x SINDIR a b", "RAW": None}
DIR_LINES = {
    "ALIAS": "ALIAS z a", "ENCODING": "ENCODING none", "ENDIAN": "ENDIAN little", "FRAMEOFFSET": "FRAMEOFFSET 3",
    "HIDDEN": "HIDDEN a", "INCLUDE": "INCLUDE frag", "META": "META a m CONST UINT8 1", "NAMESPACE": "NAMESPACE ns",
    "PROTECT": "PROTECT none", "REFERENCE": "REFERENCE b", "VERSION": "VERSION 10"}
BAD_LINE, RES_NAME, BAD_TYPE, BAD_NAME = 8, 9, 11, 12


def gate_cases():
    """(name, v, mode, format text, verdict function(gates, ped) -> expected dict)"""
    cases = []
    for v in range(11):
        cases += gate_cases_for(v)
    return cases


def gate_cases_for(v):
    cases = []
    if True:
        ty = "c" if v < 5 else "UINT8"
        pre = "/VERSION %d\na RAW %s 1\nb RAW %s 1\n" % (v, ty, ty)
        sl = "/" if v >= 5 else ""

        def ge(g, gates, ped, name):      # additive gate: GD_PVERS_GE
            return (not ped) or v >= gates[name]

        def lt_restrict(gates, ped, name):  # restriction that starts at a Version
            return ped and v >= gates[name]

        def directive_seen(gates, ped, name, slash):
            if slash:
                if not ((not ped) or v >= gates["S_SLASH_OPTIONAL"]):
                    return False
            elif lt_restrict(gates, ped, "S_SLASH_REQUIRED"):
                return False
            return (not ped) or v >= gates["D_" + name]

        for nm, line in FIELD_LINES.items():
            line = line or "x RAW %s 1" % ty

            def verdict(gates, ped, nm=nm, line=line):
                if not ((not ped) or v >= gates["T_" + nm]):
                    return {"sub": BAD_LINE}
                if "UINT8" in line and ped and v < gates["S_NEW_TYPES"]:
                    return {"sub": BAD_TYPE}
                return {"sub": 0}
            cases.append(("T_" + nm, v, pre + line + "\n", verdict))
        for nm, line in DIR_LINES.items():
            def verdict(gates, ped, nm=nm):
                if not directive_seen(gates, ped, nm, bool(sl)):
                    return {"sub": BAD_LINE}
                r = {"sub": 0}
                if nm == "FRAMEOFFSET":
                    r["O"] = 3
                return r
            cases.append(("D_" + nm, v, pre + sl + line + "\n", verdict))
        # syntax gates
        cases.append(("S_NEW_TYPES", v, pre + "x RAW UINT8 1\n",
                      lambda gates, ped: {"sub": BAD_TYPE if ped and v < gates["S_NEW_TYPES"] else 0}))
        cases.append(("S_NO_TYPE_CHARS", v, pre + "x RAW c 1\n",
                      lambda gates, ped: {"sub": BAD_TYPE if ped and v >= gates["S_NO_TYPE_CHARS"] else 0}))
        cases.append(("S_COMPLEX_TYPES", v, pre + "x RAW COMPLEX64 1\n",
                      lambda gates, ped: {"sub": BAD_TYPE if ped and (v < gates["S_NEW_TYPES"] or v < gates["S_COMPLEX_TYPES"]) else 0}))
        cases.append(("S_NO_FILEFRAM", v, pre + "FILEFRAM RAW %s 1\n" % ty,
                      lambda gates, ped: {"sub": RES_NAME if ped and v < gates["S_NO_FILEFRAM"] else 0}))
        cases.append(("S_SLASH_REQUIRED", v, pre + "FRAMEOFFSET 3\n",
                      lambda gates, ped: {"sub": 0, "O": 3} if directive_seen(gates, ped, "FRAMEOFFSET", False) else {"sub": BAD_LINE}))
        cases.append(("S_SLASH_OPTIONAL", v, pre + "/FRAMEOFFSET 3\n",
                      lambda gates, ped: {"sub": 0, "O": 3} if directive_seen(gates, ped, "FRAMEOFFSET", True) else {"sub": BAD_LINE}))
        cases.append(("S_META_SLASH", v, pre + "a/m BIT a 1\n",
                      lambda gates, ped: {"sub": 0 if ((not ped) or v >= gates["S_META_SLASH"]) else BAD_NAME}))
        cases.append(("S_LINCOM_COUNT_OPTIONAL", v, pre + "x LINCOM a 1 0\n",
                      lambda gates, ped: {"sub": 2 if ped and v < gates["S_LINCOM_COUNT_OPTIONAL"] else 0}))
        cases.append(("S_INT_PREFIX", v, pre + "x RAW %s 010\n" % ty,
                      lambda gates, ped: {"sub": 0, "P": 8 if ((not ped) or v >= gates["S_INT_PREFIX"]) else 10}))
        if v >= 1:
            cases.append(("S_FRAMEOFFSET_PREFIX", v, pre + sl + "FRAMEOFFSET 010\n",
                          lambda gates, ped: ({"sub": 0, "O": 8 if ((not ped) or v >= gates["S_FRAMEOFFSET_PREFIX"]) else 10}
                                              if directive_seen(gates, ped, "FRAMEOFFSET", bool(sl)) else {"sub": BAD_LINE})))
        if v >= 5:
            cases.append(("S_ENDIAN_ARM", v, pre + "/ENDIAN little arm\n",
                          lambda gates, ped: ({"sub": 0, "N": 1 if ((not ped) or v >= gates["S_ENDIAN_ARM"]) else 0}
                                              if directive_seen(gates, ped, "ENDIAN", True) else {"sub": BAD_LINE})))
    return cases


def parse_spec_out(l):
    f = l.split()
    r = {"E": int(f[0][1:]), "S": int(f[1][1:]), "L": int(f[2][1:]), "C": int(f[3][1:]), "cb": [x for x in f[4:] if "@" in x]}
    for x in f[4:]:
        if "@" not in x and x[0] in "FONPT":
            r[x[0]] = None if x[1:] == "-" else int(x[1:])
    return r


def observed_matches(o, exp):
    if exp["sub"]:
        return o["C"] == 1 and o["cb"] == ["%d@4" % exp["sub"]] and o["E"] == 0
    if o["C"] != 0 or o["E"] != 0:
        return False
    return all(o.get(k) == exp[k] for k in exp if k != "sub")


def gates_part(chk, spec_exe, drv, problems):
    code, spec = gate_tables(drv, problems)
    if len(code) != len(GNAMES):
        return
    cases = gate_cases()
    inp, meta = [], []
    for name, v, text, verdict in cases:
        for mode in "PQ":
            inp.append("%sI %s" % (mode, text.encode().hex()))
            meta.append((name, v, mode, text, verdict))
    rc, out, err = run([spec_exe], ("\n".join(inp) + "\n").encode())
    ol = out.splitlines()
    if rc != 0 or len(ol) != len(inp):
        problems.append("spec harness failed rc=%d lines=%d/%d %s" % (rc, len(ol), len(inp), err[-300:]))
        return
    n_rej = 0
    seen_bad = set()
    for (name, v, mode, text, verdict), l in zip(meta, ol):
        ped = (mode == "P")
        o = parse_spec_out(l)
        e_code, e_spec = verdict(code, ped), verdict(spec, ped)
        n_rej += 1 if e_spec["sub"] else 0
        ok_spec, ok_code = observed_matches(o, e_spec), observed_matches(o, e_code)
        rep = {"kind": "spec-line", "gate": name, "standards_version": v, "mode": "pedantic" if ped else "permissive",
               "format_file": text, "observed": l, "expected_by_standards": e_spec, "expected_by_translated_gates": e_code,
               "how": "printf '%sI %s\\n' | <harness/C08/spec>   (gd_cbopen with a callback returning GD_SYNTAX_IGNORE)" % (mode, text.encode().hex())}
        if not ok_spec:
            if name in seen_bad:
                continue
            seen_bad.add(name)
            key = K_SINDIR if name == "T_SINDIR" else K_LINCOMN if name == "S_LINCOM_COUNT_OPTIONAL" else "gate/%s/v%d/%s" % (name, v, mode)
            chk.violation(key, "Standards Version %d, %s: the line %r is %s by the library (callbacks %s); the Standards (HISTORY: %s from Version %d) demand %s" % (
                v, "pedantic" if ped else "permissive", text.splitlines()[3], "accepted" if o["C"] == 0 else "rejected", o["cb"],
                name, spec[name], ("suberror %d" % e_spec["sub"]) if e_spec["sub"] else "acceptance " + str({k: e_spec[k] for k in e_spec if k != "sub"})),
                rep, found=True)
        elif not ok_code:
            chk.violation("model/gate/%s" % name, "correspondence broken: gate %s translated as Version %d but Version %d %s behaves as [%s]" % (
                name, code[name], v, mode, l), dict(rep, correspondence="Gen/Gates.v vs parser"), found=False)
    chk.cov["evaluations"] += len(inp)
    chk.cov["distinct_nontrivial"] += n_rej
    chk.cov["gates"] = {"cases": len(inp), "rejected_by_standards": n_rej, "code_gates": code,
                        "differences_translated_vs_standards": {k: [code[k], spec[k]] for k in code if code[k] != spec[k]}}
    chk.sample({"gate_case": meta[200][0], "version": meta[200][1], "mode": meta[200][2], "observed": ol[200]})



# ------------------------------------------------------------------ specification lines, entry by entry

def line_cases(chk):
    """generated field specification lines for the 18 field types (mostly valid, with every optional
    token present/absent, literals of every form and scalar field codes, and the ways to be wrong)"""
    rng = chk.rng
    num_i = ["0", "1", "3", "7", "63", "64", "2147483647", "-1", "010", "0x10", "1e1", "2.7", "4294967297", "-0", "+5", "k", "c<2>", "k<0>", "1;0", "1;2", "", "1e999"]
    num_c = ["1", "0", "-2.5", "1e3", "0x1p-1", "1;2", "0;1", "1.5;-2", "k", "c<1>", "inf", "nan", "1e-310", "-9223372036854775809", "010", ""]
    types = ["UINT8", "INT8", "UINT16", "INT16", "UINT32", "INT32", "UINT64", "INT64", "FLOAT32", "FLOAT64", "FLOAT", "DOUBLE",
             "COMPLEX64", "COMPLEX128", "c", "u", "s", "U", "i", "S", "f", "d", "n", "x", "UINT9", "uint8", ""]
    q = lambda s: '""' if s == "" else s
    L = []
    R = lambda l: rng.choice(l)
    for ty in types:
        for spf in ["1", "20", "0", "-1", "0x10", "010", "1.9", "k", "c<3>", "4294967296", "4294967297", "1;0", "1;1", "1e999"]:
            L.append("x RAW %s %s" % (q(ty), q(spf)))
        L.append("x CONST %s 1" % q(ty)); L.append("x CONST %s k" % q(ty)); L.append("x CARRAY %s 1 2 3" % q(ty))
    L += ["x RAW UINT8", "x RAW", "x CONST UINT8", "x CONST FLOAT64 1.5", "x CONST COMPLEX128 1;2", "x CONST UINT8 1;2", "x CONST UINT8 -1",
          "x CARRAY FLOAT64 1 2.5 k", "x CARRAY UINT8", "x CARRAY COMPLEX64 1;2 3", "x STRING", "x STRING abc", 'x STRING "a b" c', 'x STRING ""',
          "x SARRAY", "x SARRAY a", 'x SARRAY a "" "b c"', "x LINTERP a", "x LINTERP a /t", "x LINTERP a t u", "INDEX RAW UINT8 1", "FILEFRAM RAW UINT8 1",
          "x FOO a", "x raw UINT8 1", "x MULTIPLY a", "x MULTIPLY a b", "x DIVIDE a b c", "x INDIR a c", "x SINDIR a s", "x INDIR a", "x SINDIR"]
    for n in ["", "1", "2", "3", "0", "4", "-1", "01", "1x", "a", "2147483649", "4294967297"]:
        for k in range(0, 5):
            trip = " ".join("%s %s %s" % (R(["a", "b", "in"]), q(R(num_c)), q(R(num_c))) for _ in range(k))
            L.append(("x LINCOM %s %s" % (q(n) if n != "" else "", trip)).replace("  ", " ").strip())
        L.append("x LINCOM %s a 1" % n); L.append("x LINCOM %s a" % n)
    for bn in num_i:
        L.append("x BIT a %s" % q(bn)); L.append("x SBIT a %s" % q(bn))
        for nb in ["1", "0", "-1", "64", "65", "k", "2.5", ""]:
            L.append("x BIT a %s %s" % (q(bn), q(nb))); L.append("x SBIT a %s %s" % (q(bn), q(nb)))
        L.append("x PHASE a %s" % q(bn)); L.append("x MPLEX a b %s" % q(bn))
        for pd in ["0", "1", "-1", "k", "10", "2.9", ""]:
            L.append("x MPLEX a b %s %s" % (q(bn), q(pd)))
        for op in ["EQ", "NE", "SET", "CLR", "GT", "GE", "LT", "LE", "XX", "eq", ""]:
            L.append("x WINDOW a b %s %s" % (q(op), q(bn)))
    L += ["x BIT a", "x PHASE a", "x MPLEX a b", "x WINDOW a b EQ", "x WINDOW a b", "x PHASE a 1 2", "x BIT a 1 2 3"]
    for v in num_c:
        L.append("x RECIP a %s" % q(v)); L.append("x WINDOW a b GT %s" % q(v)); L.append("x PHASE a %s" % q(v))
        for k in range(1, 8):
            L.append("x POLYNOM a " + " ".join(q(R(num_c)) for _ in range(k)))
    L += ["x RECIP a", "x POLYNOM a 1", "x POLYNOM a"]
    return sorted(set(L))


RESERVED_WORDS = ["VERSION", "ENDIAN", "PROTECT", "INCLUDE", "ENCODING", "META", "REFERENCE", "FRAMEOFFSET", "ALIAS", "HIDDEN", "NAMESPACE"]
# the field types the parser lets an unslashed reserved word be a field NAME for, outside pedantic mode
# ("check for a field spec masquerading as a directive", _GD_ParseDirective)
MASQUERADE_TYPES = ["RAW", "LINCOM", "BIT", "LINTERP", "PHASE", "MULTIPLY", "SBIT", "POLYNOM", "STRING", "CONST"]


NEWER_TYPES = ["CARRAY", "DIVIDE", "RECIP", "MPLEX", "WINDOW", "INDIR", "SARRAY", "SINDIR"]   # Version 8 and later


def reserved_name_lines_newer():
    """the same with the field types of Standards Version 8+, where the slash is mandatory for directives and a
    reserved word is an ordinary field name"""
    tails = {"CARRAY": ["UINT8 1", "UINT8 1 2"], "DIVIDE": ["a b"], "RECIP": ["a 1"], "MPLEX": ["a b 1", "a b 1 2"],
             "WINDOW": ["a b EQ 1"], "INDIR": ["a b"], "SARRAY": ["v", "v w"], "SINDIR": ["a b"]}
    return ["%s %s %s" % (w, ty, tl) for w in RESERVED_WORDS for ty in NEWER_TYPES for tl in tails[ty]]


def reserved_name_lines():
    """lines whose field NAME is a reserved word without a slash: every word x every such type x token counts 3..n"""
    tails = {"RAW": ["UINT8", "UINT8 1", "UINT8 1 2"], "LINCOM": ["a", "a 1 0", "1 a 1 0", "2 a 1 0 b 2 0"],
             "BIT": ["a", "a 1", "a 1 2"], "LINTERP": ["a", "a /t"], "PHASE": ["a", "a 1"], "MULTIPLY": ["a", "a b"],
             "SBIT": ["a", "a 1", "a 1 2"], "POLYNOM": ["a", "a 1", "a 1 2", "a 1 2 3"], "STRING": ["v", "v w"],
             "CONST": ["UINT8", "UINT8 1", "FLOAT64 2.5"]}
    return ["%s %s %s" % (w, ty, tl) for w in RESERVED_WORDS for ty in MASQUERADE_TYPES for tl in tails[ty]]


def lines_part(chk, spec_exe, lit_exe, drv, problems):
    variant = probe_variant(lit_exe)
    lines = line_cases(chk)
    cases = []
    versions = range(11)
    for v in versions:
        ty = "c" if v < 5 else "UINT8"
        # k CONST / c CARRAY exist from Version 6 / 8 only; scalar codes are not resolved at parse time anyway
        pre = "/VERSION %d\na RAW %s 1\nb RAW %s 1\n" % (v, ty, ty)
        sub = lines if (chk.thorough or v in (0, 4, 5, 6, 7, 8, 9, 10)) else lines[::3]
        for mode in "PQ":
            for ln in (sub if mode == "P" else sub[::2]):
                if v < 6 and mode == "P" and ('"' in ln or "\\" in ln):
                    continue                       # no quoting before Version 6
                cases.append((mode, v, pre, ln))
        # outside pedantic mode an unslashed reserved word followed by a field type is a field NAME
        if v in (0, 5, 7, 10) or chk.thorough:
            for ln in reserved_name_lines():
                cases.append(("Q", v, pre, ln))
    for ln in reserved_name_lines() + reserved_name_lines_newer():
        cases.append(("D", 10, "a RAW UINT8 1\nb RAW UINT8 1\n\n", ln))      # default mode, no /VERSION at all
    for ln in reserved_name_lines_newer():
        cases.append(("Q", 10, "/VERSION 10\na RAW UINT8 1\nb RAW UINT8 1\n", ln))
    inp1 = "".join("%sI %s\n" % (m, (pre + ln + "\n").encode().hex()) for m, v, pre, ln in cases).encode()
    inp2 = "".join("%s %d %s\n" % ("Q" if m == "D" else m, v, (ln + "\n").encode().hex()) for m, v, pre, ln in cases).encode()
    with ThreadPoolExecutor(max_workers=2) as ex:
        f1 = ex.submit(run_sharded, [spec_exe], inp1, 12)
        f2 = ex.submit(run_sharded, [drv, "line", variant], inp2, 4)
        (rc1, o1, e1), (rc2, o2, e2) = f1.result(), f2.result()
    il, ml = o1.splitlines(), o2.splitlines()
    if rc1 != 0 or rc2 != 0 or len(il) != len(cases) or len(ml) != len(cases):
        problems.append("line harness/driver failed rc=%d/%d lines=%d/%d/%d %s %s" % (rc1, rc2, len(cases), len(il), len(ml), e1[-200:], e2[-200:]))
        return
    n_ok = n_err = n_ub = nbad = 0
    reported = set()
    for (m, v, pre, ln), x, y in zip(cases, il, ml):
        o = parse_spec_out(x)
        if o["C"] == 0 and o["E"] == 0:
            got = x.split(" X:", 1)[1] if " X:" in x else "?"
        elif o["C"] == 1 and o["cb"][0].endswith("@4"):
            got = "E" + o["cb"][0].split("@")[0]
        else:
            got = "?" + x
        by_impl, by_code, by_spec = y.split("\t")
        if by_impl != by_code and "model/parse-vs-linespec" not in reported:
            reported.add("model/parse-vs-linespec")
            chk.violation("model/parse-vs-linespec", "extracted impl_line and spec_line differ on %r (Version %d %s): [%s] vs [%s] (contradicts theorem spec_line_agrees)" % (
                ln, v, m, by_impl, by_code), {"kind": "model", "line": ln}, found=False)
        if by_spec == "UB" or by_code == "UB":
            n_ub += 1
            continue
        if by_spec.startswith("E"):
            n_err += 1
        else:
            n_ok += 1
        if got == by_spec or (got == "-" and ln.split()[0] in ("FILEFRAM", "INDEX") and not by_spec.startswith("E")):
            if got != by_impl and got != "-" and "model/parse" not in reported:
                reported.add("model/parse")
                chk.violation("model/parse", "correspondence broken: the line %r (Version %d %s) gives [%s], the model of the _GD_Parse* functions [%s]" % (
                    ln, v, m, got, by_impl), {"kind": "model-vs-impl", "correspondence": "C08 ParseImpl.v vs _GD_ParseFieldSpec", "line": ln}, found=False)
            continue
        ftype = ln.split()[1] if len(ln.split()) > 1 else "?"
        rep = {"kind": "spec-line-entry", "line": ln, "standards_version": v, "mode": "pedantic" if m == "P" else "permissive",
               "observed": x, "expected_by_standards": by_spec, "expected_with_translated_gates": by_code,
               "how": "printf '%sI %s\\n' | <harness/C08/spec>   (entry x dumped after X:)" % (m, (pre + ln + "\n").encode().hex())}
        if got != by_impl and got == by_spec:
            pass
        if got == by_code:
            # only a version gate differs: the findings of gates_part
            key = K_LINCOMN if ftype == "LINCOM" else "gate-entry/%s" % ftype
        elif "1e999" in ln or "1e-310" in ln:
            key = K_ERANGE
        elif "-9223372036854775809" in ln:
            key = K_NEGFLIP
        elif ftype in ("BIT", "SBIT") and "2147483647" in ln:
            key = K_BITOVF
        elif ftype in NEWER_TYPES and ln.split()[0] in RESERVED_WORDS:
            key = K_MASQ
        else:
            key = "line/%s/%s" % (ftype, ln.encode().hex()[:40])
        nbad += 1
        if key in reported or len(reported) > 12:
            continue
        reported.add(key)
        chk.violation(key, "Standards Version %d %s: the line %r gives [%s]; dirfile-format(5) (LineSpec.v) demands [%s]" % (
            v, "pedantic" if m == "P" else "permissive", ln, got, by_spec) + ("" if by_code == by_spec else " (with the parser's own gates: [%s])" % by_code), rep, found=True)
    chk.cov["evaluations"] += len(cases)
    chk.cov["distinct_nontrivial"] += n_err
    chk.cov["spec_lines"] = {"distinct_lines": len(lines), "cases": len(cases), "accepted_by_standards": n_ok, "rejected_by_standards": n_err,
                             "skipped_undefined_in_C": n_ub, "disagreements": nbad}


# ------------------------------------------------------------------ /VERSION scope across fragments

def scoping_part(chk, spec_exe, drv, problems):
    """/VERSION has immediate scope, propagates downwards into sub-fragments, and upwards only when both the
    including fragment and the directive are of Version <= 8 (dirfile-format(5), /VERSION).  Parser mode after an
    /INCLUDE, observed through two lines whose acceptance depends on (pedantic, Version).  Oracle in this file
    (validated only; the full scope model is C09's)."""
    code, spec = gate_tables(drv, problems)
    if len(code) != len(GNAMES):
        return
    def probes(gates, ped, st):
        r = []
        # 'ENDIAN little' without a slash: a directive unless the slash is mandatory / ENDIAN does not exist yet
        ok1 = not (ped and st >= gates["S_SLASH_REQUIRED"]) and ((not ped) or st >= gates["D_ENDIAN"])
        ok2 = (not ped) or st >= gates["T_MPLEX"]
        return ok1, ok2
    cases = []
    for mode in "DPQ":
        for vp in (None, 5, 8, 9, 10):
            for vc in (None, 5, 7, 8, 9, 10):
                for child_probe in (False, True):
                    ty = "UINT8"
                    parent = []
                    if vp is not None:
                        parent.append("/VERSION %d" % vp)
                    parent += ["a RAW %s 1" % ty, "b RAW %s 1" % ty, "/INCLUDE child"]
                    pl1 = len(parent) + 1
                    parent += ["ENDIAN little", "x MPLEX a b 1"]
                    child = []
                    if vc is not None:
                        child.append("/VERSION %d" % vc)
                    child += ["", "", "", "", "", "", "", "", "", "", "", ""][:12 - len(child)]
                    if child_probe:
                        child += ["ENDIAN big", "y MPLEX a b 1"]
                    cases.append((mode, vp, vc, child_probe, "\n".join(parent) + "\n", "\n".join(child) + "\n", pl1))
    def expect(gates, mode, vp, vc, child_probe, pl1):
        ped, st = (mode == "P"), 10
        if vp is not None:
            ped, st = (mode != "Q"), vp
        old = (ped, st)
        if vc is not None:
            ped, st = (mode != "Q"), vc
        out = []
        if child_probe:
            o1, o2 = probes(gates, ped, st)
            if not o1: out.append("8@13")
            if not o2: out.append("8@14")
        # back in the parent
        if (old[1] >= 9 and old[0]) or st >= 9:
            ped, st = old
        o1, o2 = probes(gates, ped, st)
        if not o1: out.append("8@%d" % pl1)
        if not o2: out.append("8@%d" % (pl1 + 1))
        return out
    inp = "".join("%sI %s child=%s\n" % (m, par.encode().hex(), ch.encode().hex()) for m, vp, vc, cp, par, ch, pl1 in cases).encode()
    rc, out, err = run([spec_exe], inp)
    ol = out.splitlines()
    if rc != 0 or len(ol) != len(cases):
        problems.append("scoping harness failed rc=%d lines=%d/%d %s" % (rc, len(ol), len(cases), err[-300:]))
        return
    nbad = 0
    for (m, vp, vc, cp, par, ch, pl1), l in zip(cases, ol):
        o = parse_spec_out(l)
        want, want_code = expect(spec, m, vp, vc, cp, pl1), expect(code, m, vp, vc, cp, pl1)
        if o["cb"] != want or o["E"] != 0:
            nbad += 1
            if nbad == 1:
                chk.violation("scope/VERSION/%s/p%s/c%s" % (m, vp, vc),
                              "mode %s, parent /VERSION %s including a fragment with /VERSION %s: the callback saw %s (error %d), the scope rules of /VERSION demand %s" % (
                                  {"D": "default", "P": "GD_PEDANTIC", "Q": "GD_PERMISSIVE"}[m], vp, vc, o["cb"], o["E"], want),
                              {"kind": "version-scope", "mode": m, "format_file": par, "child": ch, "observed": l, "expected": want,
                               "how": "printf '%sI %s child=%s\\n' | <harness/C08/spec>" % (m, par.encode().hex(), ch.encode().hex())},
                              found=(want == want_code))
    chk.cov["evaluations"] += len(cases)
    chk.cov["distinct_nontrivial"] += sum(1 for c in cases if expect(spec, c[0], c[1], c[2], c[3], c[6]))
    chk.cov["version_scope"] = {"cases": len(cases), "disagreements": nbad}


# ------------------------------------------------------------------ CARRAY / SARRAY longer than MAX_IN_COLS tokens

def array_part(chk, spec_exe, drv, problems):
    """a CARRAY/SARRAY line may carry any number of elements (the parser re-tokenises the rest of the line in
    chunks of MAX_IN_COLS): every element must arrive, whichever way the field is named (top level,
    parent/child, /META parent child)"""
    cases = []
    for k in (1, 2, 8, 9, 10, 11, 12, 13, 14, 15, 20, 27, 28, 29, 40):
        for kind in ("CARRAY UINT8", "CARRAY FLOAT64", "SARRAY"):
            vals = " ".join(str(i % 200 + 1) for i in range(k))
            for form, name in (("x %s %s", "top"), ("p/x %s %s", "slash"), ("/META p x %s %s", "meta")):
                for mode, v in (("P", 10), ("Q", 10), ("P", 8 if kind != "SARRAY" else 10)):
                    if kind == "SARRAY" and v < 10:
                        continue
                    cases.append((mode, v, kind, k, name, "/VERSION %d\np RAW UINT8 1\n" % v + form % (kind, vals) + "\n"))
    rc, out, err = run_sharded([spec_exe], "".join("%sI %s\n" % (m, txt.encode().hex()) for m, v, kind, k, name, txt in cases).encode(), 4)
    ol = out.splitlines()
    if rc != 0 or len(ol) != len(cases):
        problems.append("array harness failed rc=%d lines=%d/%d %s" % (rc, len(ol), len(cases), err[-300:]))
        return
    nbad = 0
    for (m, v, kind, k, name, txt), l in zip(cases, ol):
        o = parse_spec_out(l)
        dump = l.split(" X:", 1)[1] if " X:" in l else "?"
        if kind == "SARRAY":
            want = "SARRAY:" + ",".join(str(i % 200 + 1).encode().hex() for i in range(k))
        else:
            want = "CARRAY:%x:%d" % (1 if "UINT8" in kind else 0x88, k)
        if o["C"] != 0 or o["E"] != 0 or dump != want:
            nbad += 1
            if nbad == 1:
                chk.violation(K_METAARRAY if name == "meta" else "array/%s/%s/%d" % (kind.split()[0], name, k),
                              "the line %r defines %d elements; gd_entry/gd_get_sarray show [%s] (callbacks %s)" % (txt.splitlines()[2][:60] + " ...", k, dump[:80], o["cb"]),
                              {"kind": "array-length", "format_file": txt, "observed": l, "expected": want,
                               "how": "printf '%sI %s\\n' | <harness/C08/spec>" % (m, txt.encode().hex())}, found=True)
    chk.cov["evaluations"] += len(cases)
    chk.cov["distinct_nontrivial"] += sum(1 for c in cases if c[3] > 11)
    chk.cov["long_arrays"] = {"cases": len(cases), "disagreements": nbad}


# ------------------------------------------------------------------ callback protocol

def callback_part(chk, spec_exe, drv, problems):
    rng = chk.rng
    GOOD = lambda i: ("g%d RAW UINT8 1" % i, None)
    BAD = [lambda i: ("q%d FOO a" % i, 8), lambda i: ("zz%d" % i, 3), lambda i: ("b%d RAW UINT8 0" % i, 1),
           lambda i: ('u%d "abc' % i, 13), lambda i: ("INDEX RAW UINT8 1", 9), lambda i: ("k%d RAW UINT9 1" % i, 11),
           lambda i: ("l%d LINCOM 4 a 1 0" % i, 2), lambda i: ("w%d RAW UI\\x00 1" % i, 7)]
    cases = []
    fixed = ["I", "C", "A", "R", "X", "CI", "IC", "CA", "RA", "CRX", "ICRA", "RRC", "CCCA"]
    for k in range(300 if not chk.thorough else 5000):
        n = rng.randint(1, 9)
        lines, verdicts = [], []
        for i in range(n):
            f = GOOD if rng.random() < 0.45 else rng.choice(BAD)
            txt, v = f(i)
            lines.append(txt); verdicts.append(v)
        if rng.random() < 0.3 and lines:          # a duplicate of an accepted line
            j = rng.randrange(len(lines))
            if verdicts[j] is None:
                lines.append(lines[j]); verdicts.append(16)
        ans = fixed[k] if k < len(fixed) else "".join(rng.choice("ICCARX" if rng.random() < 0.5 else "ICR") for _ in range(rng.randint(1, 6)))
        cases.append((ans, lines, verdicts))
    inp1 = "".join("P=%s %s\n" % (a, ("\n".join(ls) + "\n").encode().hex()) for a, ls, vs in cases).encode()
    inp2 = "".join("%s %s\n" % (a, ",".join("-" if v is None else str(v) for v in vs)) for a, ls, vs in cases).encode()
    rc1, o1, e1 = run([spec_exe], inp1)
    rc2, o2, e2 = run([drv, "callback"], inp2)
    il, ml = o1.splitlines(), o2.splitlines()
    if rc1 != 0 or rc2 != 0 or len(il) != len(cases) or len(ml) != len(cases):
        problems.append("callback harness/driver failed rc=%d/%d lines=%d/%d/%d %s %s" % (rc1, rc2, len(cases), len(il), len(ml), e1[-200:], e2[-200:]))
        return
    nbad = 0
    for (a, ls, vs), x, y in zip(cases, il, ml):
        o = parse_spec_out(x)
        got = "C%d%s E%d S%d L%d" % (o["C"], "".join(" " + c for c in o["cb"]), o["E"], o["S"], o["L"])
        if got != y:
            nbad += 1
            if nbad == 1:
                chk.violation("callback/%s" % a, "parser callback answering %s on the fragment %r: gd_cbopen gives [%s], the protocol of gd_cbopen(3) (Callback.v) gives [%s]" % (
                    a, ls, got, y), {"kind": "callback", "answers": a, "format_file": "\n".join(ls) + "\n", "observed": x, "expected": y,
                                     "how": "printf 'P=%s %s\\n' | <harness/C08/spec>" % (a, ("\n".join(ls) + "\n").encode().hex())}, found=True)
    # a syntax error found by the tokeniser must keep its suberror whatever the token count
    probes = [('a\\x00b RAW UINT8 1\n', 7), ('"abc\n', 13), ('a\\\n', 13), ('x \\u110000 1\n', 7)]
    rc, out, err = run([spec_exe], "".join("PI %s\n" % p.encode().hex() for p, _ in probes).encode())
    for (p, want), l in zip(probes, out.splitlines()):
        o = parse_spec_out(l)
        if o["cb"] != ["%d@1" % want]:
            chk.violation(K_NTOK, "the line %r is reported to the callback as %s; the tokeniser's own error is suberror %d (%s)" % (
                p, o["cb"], want, "GD_E_FORMAT_CHARACTER" if want == 7 else "GD_E_FORMAT_UNTERM"),
                {"kind": "suberror", "line": p, "observed": l, "expected": "%d@1" % want,
                 "how": "printf 'PI %s\\n' | <harness/C08/spec>" % p.encode().hex()}, found=True)
            break
    chk.cov["evaluations"] += len(cases) + len(probes)
    chk.cov["distinct_nontrivial"] += sum(1 for a, ls, vs in cases if any(v is not None for v in vs))
    chk.cov["callback_protocol"] = {"fragments": len(cases), "disagreements": nbad, "sample": [il[0], il[3], il[9]]}


# ------------------------------------------------------------------ literals

def literal_tokens(chk):
    rng = chk.rng
    toks = set()
    A = [b"0", b"1", b"9", b"x", b"e", b"p", b".", b"+", b"-", b";", b"a", b"f", b"n", b"i", b" "]
    for L in range(0, 5 if not chk.thorough else 6):
        toks.update(b"".join(x) for x in itertools.product(A, repeat=L))
    B = [b"0", b"1", b"x", b"e", b".", b"-", b";", b"8"]
    for L in (5,) if not chk.thorough else (5, 6, 7):
        toks.update(b"".join(x) for x in itertools.product(B, repeat=L))
    special = ["18446744073709551615", "18446744073709551616", "9223372036854775807", "9223372036854775808",
               "-9223372036854775808", "-9223372036854775809", "-18446744073709551615", "-18446744073709551616",
               "0x7fffffffffffffff", "0x8000000000000000", "0xffffffffffffffff", "0x10000000000000000", "-0x8000000000000001",
               "01777777777777777777777", "02000000000000000000000", "0777", "08", "09", "0x", "0xg", "0x1g", "00", "-0", "+0", "-0.0",
               "1e308", "1.7976931348623157e308", "1.8e308", "1e309", "1e999", "-1e999", "1e-307", "1e-310", "1e-320", "4.9e-324", "1e-400",
               "0e999", "0.0e-999", "0x1p1023", "0x1p1024", "0x1.fffffffffffffp1023", "0x1p-1022", "0x1p-1074", "0x1p-1075", "0x3p-1075",
               "0x0p99999", "0x.8", "0x8.", "0x.", "0x.p1", "0x1p", "0x1p+", "0x1p+1", "0x1P-1", "0X1.8P1", "1e", "1e+", "1e+5", "1E-5", ".", ".5", "5.",
               "5.e1", ".e1", "inf", "INF", "Infinity", "infinit", "infinityx", "-inf", "+INF", "nan", "NaN", "nan()", "nan(0x1)", "nan(a_b)", "nan(", "nan(a-b)",
               "-nan", " 12", "\t12", "\n-12", "12 ", " ", "1;2", "1.5;2.5", "1;0", "1;-0", "1;0.0", "1;nan", "1;inf", "inf;nan", "1;2;3", "1;;2", ";", "1;", ";2",
               "1e999;1", "1;1e999", "1e-400;2", "0x10;010", "1 ;2", "1; 2", "a", "a<1>", "a<>", "a<x><2>", "a<1>j", "a<-1>", "a<010>", "a<0x10>", "a<4294967296>",
               "a<99999999999999999999>", "<1>", "a<1", "a<1><2>", "a b<3>", "1<2>", "1e5<2>", "1.5", "2.5", "-1.5", "1e30", "-1e30", "255", "256", "4294967295",
               "4294967296", "4294967297", "-1", "63", "64", "2147483648", "-2147483649", "1_0", "1,5", "1d5", "0b1", "++1", "+-1", "- 1"]
    toks.update(s.encode() for s in special)
    literal_tokens.special = [s.encode() for s in special]
    digs = b"0123456789"
    for _ in range(4000 if not chk.thorough else 60000):
        k = rng.random()
        if k < 0.3:      # integers near the 64-bit limits, any base
            v = rng.choice([2**63, 2**64, 2**31, 2**32, 2**53, 10**19, 10**18]) + rng.randint(-3, 3)
            s = rng.choice(["%d", "0x%x", "0%o", "-%d", "-0x%x", "+%d"]) % v
        elif k < 0.6:    # decimal floats, exponent anywhere
            m = "%d" % rng.randint(0, 99999)
            if rng.random() < 0.7:
                m = m[:rng.randint(0, len(m))] + "." + m[rng.randint(0, len(m)):]
            e = rng.choice([0, 1, -1, 5, 300, 308, 309, 400, -300, -306, -330, -400, 20, 19, 18])
            s = rng.choice(["", "-", "+"]) + m + rng.choice(["e", "E"]) + rng.choice(["", "+", "-"]) .replace("-", "-" if e < 0 else "") + str(abs(e))
        elif k < 0.75:   # hexadecimal floats
            ex = rng.choice(["", "p0", "p10", "p-10", "p1000", "p1030", "p-1030", "p-1080", "p-1100"])
            # in the subnormal range keep the mantissa short: the driver takes the value of a literal from
            # OCaml's float_of_string, whose hexadecimal parser rounds long inexact subnormals differently
            # from glibc's strtod (values of literals are the host's business, not the property's)
            tiny = ex in ("p-1030", "p-1080", "p-1100")
            s = rng.choice(["", "-"]) + "0x" + "%x" % rng.randint(0, 255 if tiny else 2**40) + rng.choice(["", ".", ".8"] if tiny else ["", ".", ".8", ".0001"]) + ex
        elif k < 0.9:    # complex
            a = rng.choice(special[:60]); b = rng.choice(special[:60]); s = a + ";" + b
        else:            # junk
            s = "".join(rng.choice("01.ex-+;<>a npif") for _ in range(rng.randint(1, 8)))
        toks.add(s.encode())
    # leave out tokens whose magnitude lies where the ERANGE oracle of the driver is a guess
    out = []
    for tk in sorted(toks):
        if b"\x00" in tk:
            continue
        out.append(tk)
    return out


def probe_variant(lit_exe):
    """which of the pending repairs of _GD_TokToNum the library under test contains
    (Literal.cfg: uflow = C07-3, oflow = C08-5, zero = C07-4, ullpos = C08-4)"""
    probes = [b"1e-310", b"1e999", b"-0", b"-9223372036854775809"]
    rc, out, err = run([lit_exe, "num"], "".join("10 0 %s\n" % p.hex() for p in probes).encode())
    f = [l.split()[1] for l in out.splitlines()]
    if rc != 0 or len(f) != 4:
        return "0000"
    bit = lambda b: "1" if b else "0"
    return (bit(f[0].startswith("F0:")) + bit(f[1].startswith("F0:")) + bit(f[2] == "F0:8000000000000000") +
            bit(f[3].startswith("F0:") and int(f[3][3:], 16) >> 63 == 1))


def literal_part(chk, lit_exe, drv, problems):
    variant = probe_variant(lit_exe)
    toks = literal_tokens(chk)
    modes = [(10, 1), (8, 1), (5, 0)]
    inp = "".join("%d %d %s\n" % (st, ped, tk.hex() or "-") for tk in toks for st, ped in modes).encode()
    with ThreadPoolExecutor(max_workers=2) as ex:
        f1 = ex.submit(run_sharded, [lit_exe, "num"], inp, 4)
        f2 = ex.submit(run_sharded, [drv, "num", variant], inp, 8)
        (rc1, o1, e1), (rc2, o2, e2) = f1.result(), f2.result()
    il, ml = o1.splitlines(), o2.splitlines()
    n = len(toks) * len(modes)
    if rc1 != 0 or rc2 != 0 or len(il) != n or len(ml) != n:
        problems.append("literal harness/driver failed rc=%d/%d lines=%d/%d/%d %s %s" % (rc1, rc2, n, len(il), len(ml), e1[-200:], e2[-200:]))
        return
    n_lit = n_field = n_ub = 0
    reported = set()
    k = 0
    for tk in toks:
        for st, ped in modes:
            impl, (model, spec, flags) = il[k], ml[k].split("\t")
            k += 1
            fi, fm = impl.split(), model.split()
            same = all(a == b or b.endswith("UB") for a, b in zip(fi, fm))
            n_ub += sum(1 for b in fm if b.endswith("UB"))
            impl_num = not fi[0].startswith("C-1")
            if spec == "NUM":
                n_lit += 1
            else:
                n_field += 1
            rep = {"kind": "literal", "token_hex": tk.hex(), "token": tk.decode("latin-1"), "standards_version": st, "pedantic": ped,
                   "impl": impl, "model": model, "spec": spec, "flags": flags,
                   "how": "echo '%d %d %s' | <harness/C08/lit> num    (four calls of _GD_TokToNum: complex, double, unsigned, signed)" % (st, ped, tk.hex() or "-")}
            if impl_num != (spec == "NUM"):
                key = K_ERANGE if ("ER" in flags and not impl_num) else "literal/class/%s" % tk.hex()[:30]
                if key not in reported:
                    reported.add(key)
                    chk.violation(key, "the token %r is %s for _GD_TokToNum but %s by the rule of dirfile-format(5) (entire token parses by strtod(3))%s" % (
                        tk, "a number" if impl_num else "not a number (so a field code)", "a literal number" if spec == "NUM" else "not a literal",
                        "; strtod reports ERANGE on it" if "ER" in flags else ""), rep, found=True)
            elif "NEG" in flags and impl_num and fi[1].startswith("F0:") and int(fi[1][3:], 16) >> 63 == 0:
                if K_NEGFLIP not in reported:
                    reported.add(K_NEGFLIP)
                    chk.violation(K_NEGFLIP, "the negative integer literal %r is read as the positive double with bits %s" % (tk, fi[1][3:]), rep, found=True)
            elif not same and "model/literal" not in reported:
                reported.add("model/literal")
                chk.violation("model/literal", "correspondence broken: _GD_TokToNum(%r, %d, %d) gives [%s], the model [%s]" % (tk, st, ped, impl, model),
                              dict(rep, correspondence="C08 Literal.v vs _GD_TokToNum"), found=False)
    # through the public API: gd_add_spec + gd_entry on five scalar parameters
    sel = [tk for tk in toks if 0 < len(tk) <= 24 and b"\n" not in tk]
    sel = sel[::max(1, len(sel) // (1200 if not chk.thorough else 20000))]
    sel = sorted(set(sel) | set(s for s in literal_tokens.special if 0 < len(s) <= 24 and b"\n" not in s))
    smodes = [(10, "P"), (8, "P"), (6, "Q")]
    inp = "".join("%d %s %s\n" % (st, m, tk.hex()) for tk in sel for st, m in smodes).encode()
    with ThreadPoolExecutor(max_workers=2) as ex:
        f1 = ex.submit(run_sharded, [lit_exe, "scalar"], inp, 8)
        f2 = ex.submit(run_sharded, [drv, "scalar", variant], inp, 4)
        (rc1, o1, e1), (rc2, o2, e2) = f1.result(), f2.result()
    il, ml = o1.splitlines(), o2.splitlines()
    n2 = len(sel) * len(smodes)
    if rc1 != 0 or rc2 != 0 or len(il) != n2 or len(ml) != n2:
        problems.append("scalar harness/driver failed rc=%d/%d lines=%d/%d/%d %s %s" % (rc1, rc2, n2, len(il), len(ml), e1[-200:], e2[-200:]))
        return
    k = 0
    n_sc_diff = 0
    for tk in sel:
        for st, m in smodes:
            impl, (model, spec) = il[k].strip(), ml[k].split("\t")
            k += 1
            # compare use by use; a use the model marks UB is skipped
            uses = lambda s: re.findall(r"E\S+(?: [LS]\S+)?|UB", s)
            a, b = uses(impl), uses(model)
            if st < 9 and m == "P":      # WINDOW does not exist before Version 9
                a, b = a[:4], b[:4]
            ok = len(a) == len(b) and all(x == y or y == "UB" for x, y in zip(a, b))
            if not ok:
                n_sc_diff += 1
                if n_sc_diff <= 12 and os.environ.get("C08_DEBUG"): print("DBG", tk, st, m, impl, "|", model.strip())
                if "model/scalar" not in reported:
                    reported.add("model/scalar")
                    chk.violation("model/scalar", "correspondence broken: scalar parameter %r (Version %d %s) gives [%s] through gd_add_spec/gd_entry, the model of _GD_SetScalar [%s]" % (
                        tk, st, m, impl, model.strip()),
                        {"kind": "scalar", "token_hex": tk.hex(), "impl": impl, "model": model.strip(), "spec": spec,
                         "how": "echo '%d %s %s' | <harness/C08/lit> scalar" % (st, m, tk.hex())}, found=False)
    chk.cov["evaluations"] += 4 * n + 5 * n2
    chk.cov["distinct_nontrivial"] += n_lit
    chk.cov["literals"] = {"code_variant(uflow,oflow,zero,ullpos)": variant, "tokens": len(toks), "TokToNum_calls": 4 * n, "spec_literals": n_lit, "spec_field_codes": n_field,
                           "results_undefined_in_C_skipped": n_ub, "scalar_parameters_through_gd_add_spec": 5 * n2,
                           "scalar_disagreements": n_sc_diff}
    chk.sample({"token": "0x1p-1074", "impl": il and il[0]})


# ------------------------------------------------------------------ field names

def names_part(chk, vf_exe, drv, problems):
    rng = chk.rng
    A = [b"a", b"I", b".", b"/", b"#", b" ", b"\\", b"&", b"<", b"|", b";", b">", b"\x01", b"\x1f", b"\xe9"]
    B = [b"a", b".", b"#", b" ", b"/", b"\\"]
    names = [b""]
    for L in (1, 2, 3):
        names += [b"".join(x) for x in itertools.product(A, repeat=L)]
    for L in (4, 5) if not chk.thorough else (4, 5, 6, 7):
        names += [b"".join(x) for x in itertools.product(B, repeat=L)]
    words = [b"FRAMEOFFSET", b"ENCODING", b"ENDIAN", b"INCLUDE", b"META", b"VERSION", b"PROTECT", b"REFERENCE", b"ALIAS",
             b"HIDDEN", b"NAMESPACE", b"INDEX", b"FILEFRAM", b"FRAMEOFFSE", b"FRAMEOFFSETS", b"meta", b"/META"]
    names += words
    for n in (15, 16, 17, 49, 50, 51, 52, 100):
        names += [b"a" * n, b"a" * (n - 1) + b".", b"#" + b"a" * (n - 1)]
    for _ in range(3000 if not chk.thorough else 30000):
        k = rng.randint(1, 20)
        names.append(bytes(rng.choice([97, 98, 46, 35, 32, 47, 92, 38, 60, 62, 59, 124, 1, 31, 127, 128, 255, 48]) for _ in range(k)))
    inp = ("\n".join(n.hex() if n else "-" for n in names) + "\n").encode()
    rc1, o1, e1 = run([vf_exe, "names"], inp)
    rc2, o2, e2 = run([drv, "vf"], inp)
    il, ml = o1.splitlines(), o2.splitlines()
    if rc1 != 0 or rc2 != 0 or len(il) != len(names) or len(ml) != len(names):
        problems.append("names harness/driver failed rc=%d/%d lines=%d/%d/%d %s %s" % (rc1, rc2, len(names), len(il), len(ml), e1[-200:], e2[-200:]))
        return
    n_spec_rej = 0
    match_fix = True
    reported = set()
    for nm, a, b in zip(names, il, ml):
        impl = a.split(" ", 1)[1]
        m0, m1, spec = b.split(" ", 1)[1].split("\t")
        match_fix &= (impl == m1)
        got = impl[11:22]           # type NAME, nsl 0, strict, Version 0..10
        n_spec_rej += spec.count("1")
        if got != spec:
            v = [i for i in range(11) if got[i] != spec[i]][0]
            in_region = (v <= 5 and b" " in nm) or (v <= 4 and b"#" in nm)
            key = K_NAMES if in_region else "validate/%s/v%d" % (nm.hex()[:30], v)
            if key in reported:
                continue
            reported.add(key)
            chk.violation(key, "_GD_ValidateField(%r, 0, %d, strict, GD_VF_NAME) returns %s; dirfile-format(5) 'Field Names' says the name is %s at Standards Version %d" % (
                nm, v, got[v], "invalid" if spec[v] == "1" else "valid", v),
                {"kind": "field-name", "name_hex": nm.hex(), "standards_version": v, "impl_by_version": got, "spec_by_version": spec,
                 "how": "printf '%s\\n' | <harness/C08/vf> names  (digits 12..22); public API: <harness/C08/vf> api" % nm.hex()}, found=True)
        elif impl != m1 and "model/names" not in reported:
            reported.add("model/names")
            chk.violation("model/names", "correspondence broken: _GD_ValidateField on %r gives %s, the model %s" % (nm, impl, m1),
                          {"kind": "model-vs-impl", "correspondence": "C08 Names.v vs _GD_ValidateField", "name_hex": nm.hex(), "impl": impl, "model": m1}, found=False)
    # the public-API witness of the known defect
    rc, out, err = run([vf_exe, "api"])
    f = out.split()
    api_bad = len(f) == 5 and (f[1] == "0" or f[2] == "0")
    if api_bad:
        chk.violation(K_NAMES, "at Standards Version 4 (pedantic) gd_add_bit accepts the field names 'a#b' and 'c d' (results %s %s); the format file then written cannot be opened again (gd_open error %s)" % (f[1], f[2], f[4]),
                      {"kind": "field-name-api", "observed": out.strip(), "how": "<harness/C08/vf> api"}, found=True)
    chk.cov["evaluations"] += len(names) * 176
    chk.cov["distinct_nontrivial"] += n_spec_rej
    chk.cov["names"] = {"names": len(names), "calls": len(names) * 176, "rejected_name_version_pairs": n_spec_rej,
                        "impl_matches_model": match_fix,
                        "api_witness": out.strip()}
    chk.sample({"name": "a#b", "impl_by_version(NAME,strict)": il[names.index(b"a#b")].split(" ", 1)[1][11:22] if b"a#b" in names else None})


def main():
    chk = vlib.Check("C08")
    load_staged_findings(chk)
    problems = []
    rc, tout = vlib.sh("python3 %s/translate/tr_gates.py" % V)
    trans_problems = [l for l in tout.splitlines() if l.startswith("PROBLEM")]
    if rc != 0:
        trans_problems.append("tr_gates.py exit %d: %s" % (rc, tout[-300:]))
    proved = chk.prove("Properties_C08", extra_targets=["Gen/Gates.vo"])
    chk.cov["trusted_base"] += [
        "Coq 8.16.1 kernel, vm_compute (no native_compute); no axioms (Print Assumptions: closed under the global context)",
        "hand-written models coq/C08/Token.v of _GD_Tokenise and coq/C08/Names.v of _GD_ValidateField (tied by exhaustive correspondence below, not by translation)",
        "hand transcription coq/C08/TokSpec.v of dirfile-format(5) 'Tokens' and coq/C08/Standards.v of its HISTORY section",
        "translator translate/tr_gates.py (regular expressions over src/parse.c, src/name.c, src/internal.h; validated against gd_cbopen on every gate x Version x mode)",
        "extraction: ExtrOcamlBasic only; OCaml 4.13 driver ocaml/C08/driver.ml; C harnesses harness/C08/tok.c, spec.c (C locale)",
    ]
    chk.assumptions += [
        "C strings are NUL-free byte lists; D->error is 0 on entry to _GD_Tokenise (true for all four callers)",
        "trailing text after the 14th token (MAX_IN_COLS) is not tokenised by the library; the Standards do not mention a token limit, the comparison follows the code there",
        "the callback protocol and the type-name / literal-base / reserved-name consequences of the gates are validated on the implementation, not derived in Coq",
    ]
    try:
        impl = vlib.build_impl()
        exe = vlib.build_harness(impl, os.path.join(V, "harness/C08/tok.c"))
        spec_exe = vlib.build_harness(impl, os.path.join(V, "harness/C08/spec.c"))
        vf_exe = vlib.build_harness(impl, os.path.join(V, "harness/C08/vf.c"))
        lit_exe = vlib.build_harness(impl, os.path.join(V, "harness/C08/lit.c"))
        # the build cache is shared and pruned by other checks running at the same
        # time: work from private copies of the three executables
        sd = vlib.scratch("verif-c08-")
        exe, spec_exe, vf_exe, lit_exe = [shutil.copy(x, os.path.join(sd, os.path.basename(x) + "-%d" % i))
                                          for i, x in enumerate((exe, spec_exe, vf_exe, lit_exe))]
        ok, log = vlib.coq_make(["C08/Token.vo", "C08/TokSpec.vo", "C08/Standards.vo", "Gen/Gates.vo", "C08/GatesDefs.vo", "C08/Names.vo", "C08/Literal.vo", "C08/Callback.vo", "C08/LineSpec.vo", "C08/ParseImpl.vo"])
        drv = vlib.build_ocaml_driver("C08", "C08/Extract.v", "ocaml/C08/driver.ml") if ok else None
    except vlib.BuildError as e:
        chk.violation("build", "build failed: " + str(e)[:2000], {"kind": "build", "log": str(e)}, found=False)
        return chk.finish()
    if drv is None:
        # the generated table may be unusable: say why
        chk.violation("model-build", "Coq model / generated gate table does not compile (%s): %s" % ("; ".join(trans_problems[:3]), log[-1200:]),
                      {"kind": "model-build", "translator": trans_problems, "log": log[-4000:]}, found=False)
        return chk.finish()
    tokeniser_part(chk, exe, drv, problems)
    gates_part(chk, spec_exe, drv, problems)
    names_part(chk, vf_exe, drv, problems)
    literal_part(chk, lit_exe, drv, problems)
    callback_part(chk, spec_exe, drv, problems)
    lines_part(chk, spec_exe, lit_exe, drv, problems)
    scoping_part(chk, spec_exe, drv, problems)
    array_part(chk, spec_exe, drv, problems)
    chk.cov["rule"] = ("tokeniser: every string of the listed lengths over the listed alphabets (exhaustive enumeration, both dialects: Version 5 and Version 10) "
                       "through gd_strtok (token sequence + error) and one _GD_Tokenise call with MAX_IN_COLS (tokens, suberror, *pos), plus generated lines built from "
                       "escape/quote/whitespace/comment pieces incl. bytes >= 0x80, embedded LF and > 14 tokens; non-trivial = Version >= 6 strings containing a backslash, "
                       "quote or hash.  gates: one specification/directive line per gate x Version 0..10 x {pedantic, permissive} through gd_cbopen + callback; "
                       "non-trivial = lines the Standards reject.  names: _GD_ValidateField on all names up to length 3 over 15 significant bytes, "
                       "length 4-5 over {a . # SP / \\}, reserved words, length limits 16/50, random names; every call type x nsl {0,2} x strict x Version 0..10; "
                       "non-trivial = (name, Version) pairs the Standards refuse.")
    chk.cov["exhaustive"] = True
    found_any = any(f for _, _, _, f in chk.violations)
    for p in problems:
        chk.violation("harness", p, {"kind": "harness", "problem": p}, found=False)
    if trans_problems and not found_any:
        chk.violation("translator", "translator cannot read the parser's version gates: " + "; ".join(trans_problems[:3]),
                      {"kind": "translator", "problems": trans_problems, "theorem": "gates_agree_partial / gates_translation_complete (table no longer regenerable)"}, found=False)
    if not proved and not found_any:
        chk.violation("proof", "Properties_C08 does not check: " + getattr(chk, "proof_log", "")[-1500:],
                      {"kind": "proof", "theorem": "Properties_C08", "log": getattr(chk, "proof_log", "")[-4000:]}, found=False)
    return chk.finish()


if __name__ == "__main__":
    sys.exit(main())
