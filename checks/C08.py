#!/usr/bin/env python3
"""C08 -- format files are tokenised and interpreted as the Standards specify.

proof:  Properties_C08.v -- tok_impl = tok_spec for all byte strings (state
        machine of _GD_Tokenise vs the lexer transcribed from dirfile-format(5)),
        the buffer bounds of the tokeniser (cited by C05), and the version-gate
        table REGENERATED from src/parse.c + src/name.c = the HISTORY table.
tie:    translator tr_gates.py; correspondence of the extracted tokeniser
        model with gd_strtok and _GD_Tokenise on ALL short strings over the
        syntactically significant alphabet (+ generated longer lines), and of
        the gate tables with gd_cbopen + parser callback on generated
        specification lines (18 field types, 11 directives, 10 syntax gates x
        Versions 0..10 x {pedantic, permissive}).
search: every disagreement is judged against tok_spec / the HISTORY table."""
import sys, os, json, subprocess, itertools, time, shutil
from concurrent.futures import ThreadPoolExecutor
sys.path.insert(0, os.path.join(os.path.dirname(os.path.abspath(__file__)), "..", "bin"))
import vlib

V = vlib.VERIF
A19 = "6172303738787546672009225c233b3c3e2e2f"   # a r 0 7 8 x u F g SP TAB " \ # ; < > . /
A12 = "6130373878754620225c2367"                 # a 0 7 8 x u F SP " \ # g
A9 = "613137787520225c23"                        # a 1 7 x u SP " \ #
AWS = "6120090a0b0c0d225c23"                     # a SP TAB LF VT FF CR " \ #   (the whole whitespace set)
BLOCK = 4096

GNAMES = ["T_BIT", "T_CARRAY", "T_CONST", "T_DIVIDE", "T_INDIR", "T_LINCOM", "T_LINTERP", "T_MPLEX", "T_MULTIPLY",
          "T_PHASE", "T_POLYNOM", "T_RAW", "T_RECIP", "T_SBIT", "T_SINDIR", "T_SARRAY", "T_STRING", "T_WINDOW",
          "D_ALIAS", "D_ENCODING", "D_ENDIAN", "D_FRAMEOFFSET", "D_HIDDEN", "D_INCLUDE", "D_META", "D_NAMESPACE",
          "D_PROTECT", "D_REFERENCE", "D_VERSION",
          "S_ESCAPES", "S_QUOTES", "S_META_SLASH", "S_SLASH_OPTIONAL", "S_SLASH_REQUIRED", "S_ENDIAN_ARM",
          "S_INT_PREFIX", "S_FRAMEOFFSET_PREFIX", "S_NEW_TYPES", "S_COMPLEX_TYPES", "S_NO_TYPE_CHARS", "S_NO_FILEFRAM",
          "R_FRAMEOFFSET", "R_ENCODING", "R_ENDIAN", "R_INCLUDE", "R_META", "R_VERSION", "R_PROTECT", "R_REFERENCE",
          "R_UNTIL"]

# keys of the three defects found by this check and repaired in /repo (commits
# e8e73fb, 903107b, be0b187); their witnesses are replayed as regression cases
K_PENDING = "tokenise/numeric-escape-pending-at-end-of-string"
K_SINDIR = "parse/SINDIR-gate-version-2"
K_NAMES = "validate/hash-or-space-in-field-name-before-version-6"


def load_staged_findings(chk):
    """known_findings.d/C08.json is the staging area of this property; the
    coordinator merges it into known_findings.json.  Until then read it here."""
    p = os.path.join(V, "known_findings.d", "C08.json")
    if os.path.exists(p):
        have = {f["key"] for f in chk.known}
        for f in json.load(open(p)).get("findings", []):
            if f.get("property") == "C08" and f.get("status", "open") == "open" and f["key"] not in have:
                chk.known.append(f)


def run(cmd, inp=None, timeout=3000):
    p = subprocess.run(cmd, input=inp, stdout=subprocess.PIPE, stderr=subprocess.PIPE, timeout=timeout)
    return p.returncode, p.stdout.decode("latin-1"), p.stderr.decode("latin-1")


# ------------------------------------------------------------------ tokeniser

def shards(alpha_hex, length, nshard):
    n = (len(alpha_hex) // 2) ** length
    if n <= BLOCK * 4:
        return [(0, n)]
    per = ((n // nshard) // BLOCK + 1) * BLOCK
    return [(lo, min(n, lo + per)) for lo in range(0, n, per)]


def judge_line(impl_line, spec):
    """Is what the implementation did on one string what tok_spec demands?
    impl_line: '<hex> <ver> S <toks> E<e> | L <toks> E<e> P<pos>'; spec: 'OK <toks>' | 'ERR n'."""
    f = impl_line.split()
    s_toks, s_err, l_toks, l_err = f[3], f[4], f[7], f[8]
    tl = lambda t: [] if t == "_" else t.split(",")
    if spec.startswith("OK"):
        want = tl(spec.split()[1])
        ok_s = (s_err == "E0" and tl(s_toks) == want)
        ok_l = (l_err == "E0" and tl(l_toks) == want[:14])
        return ok_s and ok_l
    e = "E" + spec.split()[1]
    ok_s = (s_err == e)
    # an error beyond the 14th token is never looked at (text silent; see notes)
    ok_l = (l_err == e) or (l_err == "E0" and len(tl(l_toks)) == 14)
    return ok_s and ok_l


def tokeniser_part(chk, exe, drv, problems):
    thorough = chk.thorough
    plan = [(A19, L) for L in range(0, 6 if not thorough else 7)]
    plan += [(A12, 6), (A9, 7)] if not thorough else [(A12, 7), (A9, 8)]
    plan += [(AWS, L) for L in range(1, 6 if not thorough else 7)]
    jobs = []
    for alpha, L in plan:
        for lo, hi in shards(alpha, L, 32):
            jobs.append((alpha, L, lo, hi))
    # generated longer lines (stdin mode)
    rng = chk.rng
    pieces = [b"a", b"ab", b"RAW", b"x", b"u", b"0", b"7", b"8", b"F", b"g", b" ", b"  ", b"\t", b"\r", b"\f", b"\v", b"\n",
              b'"', b'""', b"\\", b"#", b";", b"<1>", b".", b"/", b"\\\\", b'\\"', b"\\#", b"\\ ", b"\\a", b"\\b", b"\\e",
              b"\\f", b"\\n", b"\\r", b"\\t", b"\\v", b"\\q", b"\\0", b"\\00", b"\\000", b"\\1", b"\\12", b"\\37", b"\\40",
              b"\\377", b"\\400", b"\\777", b"\\08", b"\\x", b"\\x0", b"\\x00", b"\\x1", b"\\x41", b"\\xg", b"\\x4g",
              b"\\xFF", b"\\xff", b"\\u", b"\\u0", b"\\u41", b"\\u7f", b"\\u80", b"\\u7ff", b"\\u800", b"\\uD800",
              b"\\uffff", b"\\u10000", b"\\u10FFFF", b"\\u110000", b"\\u1234567", b"\\u12345678", b"\\u0000000",
              b"\\u00000041", b"\\ug", b"\\\n", b"\xe9", b"\xff", b"\x80", b"\x01", b"\x7f"]
    nrand = 60000 if not thorough else 600000
    lines = []
    for i in range(nrand):
        k = rng.randint(1, 12) if i % 5 else rng.randint(12, 40)
        s = b"".join(rng.choice(pieces) for _ in range(k))
        if i % 7 == 0:
            s += b"\n"
        s = s.replace(b"\x00", b"")
        lines.append(s.hex() if s else "-")
    rand_inp = ("\n".join(lines) + "\n").encode()

    def do(job):
        if job == "rand":
            a = run([exe, "stdin", "hash"], rand_inp)
            b = run([drv, "stdin", "hash"], rand_inp)
        else:
            alpha, L, lo, hi = job
            args = ["enum", alpha, str(L), str(lo), str(hi), "hash"]
            a = run([exe] + args)
            b = run([drv] + args)
        return job, a, b

    t0 = time.time()
    with ThreadPoolExecutor(max_workers=vlib.NPROC) as ex:
        results = list(ex.map(do, jobs + ["rand"]))
    stats = {"strings": 0, "nontrivial": 0, "spec_errors": 0, "fix_differs": 0, "fixed_vs_spec": 0, "current_vs_spec": 0}
    pending_examples, bad_examples = [], []
    match_cur = match_fix = True
    bad_blocks = []
    for job, (rc1, o1, e1), (rc2, o2, e2) in results:
        il = [l for l in o1.splitlines() if l]
        ml = [l for l in o2.splitlines() if l and not l.startswith("STATS")]
        st = [l for l in o2.splitlines() if l.startswith("STATS")]
        if rc1 != 0 or rc2 != 0 or len(il) != len(ml) or not st:
            problems.append("harness/driver failed on %s: rc=%d/%d lines=%d/%d %s %s" % (job, rc1, rc2, len(il), len(ml), e1[-200:], e2[-200:]))
            continue
        for kv in st[0].split()[1:]:
            k, _, v = kv.partition("=")
            if k in stats:
                stats[k] += int(v)
            elif k == "pending" and v != "[]":
                pending_examples += v.strip("[]").split(";")
            elif k == "bad" and v != "[]":
                bad_examples += v.strip("[]").split(";")
        for a, b in zip(il, ml):
            fa, fb = a.split(), b.split()
            cur = (fa[1:3] == fb[1:3])
            fix = (fa[1:3] == fb[3:5])
            match_cur &= cur
            match_fix &= fix
            if not fix:
                bad_blocks.append((job, int(fa[0])))
    chk.cov["evaluations"] += stats["strings"]
    chk.cov["distinct_nontrivial"] += stats["nontrivial"]
    chk.cov["tokeniser"] = dict(stats, wall_s=round(time.time() - t0, 1),
                                exhaustive=["alphabet %s length %d" % (bytes.fromhex(a).decode("latin-1").encode("unicode_escape").decode(), L) for a, L in plan],
                                generated_lines=nrand, impl_matches_model=match_fix)
    if stats["fixed_vs_spec"]:
        problems.append("extracted tok_impl(fx=true) differs from tok_spec on %d strings, e.g. %s (contradicts theorem tokenise_agrees)" % (stats["fixed_vs_spec"], bad_examples[:3]))
    # blocks where the implementation matches neither model: look at every string
    for job, first in bad_blocks[:6]:
        if job == "rand":
            sub = ("\n".join(lines[first:first + BLOCK]) + "\n").encode()
            a = run([exe, "stdin", "full"], sub)
            b = run([drv, "stdin", "full"], sub)
        else:
            alpha, L, lo, hi = job
            args = ["enum", alpha, str(L), str(first), str(min(hi, first + BLOCK)), "full"]
            a = run([exe] + args)
            b = run([drv] + args)
        il = a[1].splitlines()
        ml = [l for l in b[1].splitlines() if not l.startswith("STATS")]
        n_rep = 0
        for x, y in zip(il, ml):
            m0, m1, spec = y.split("\t")
            if x == m1:
                continue
            n_rep += 1
            if n_rep > 3:
                break
            inhex, ver = x.split()[0], x.split()[1]
            rep = {"kind": "tokeniser", "input_hex": inhex, "standards_version": ver, "impl": x, "model_current": m0,
                   "model_repaired": m1, "spec": spec,
                   "how": "printf '%s\\n' | <harness/C08/tok> stdin full   (gd_strtok sequence | _GD_Tokenise with MAX_IN_COLS)" % inhex}
            if not judge_line(x, spec):
                chk.violation("tokenise/%s" % inhex[:40], "tokenising the string %s (hex) at Standards Version %s gives [%s]; dirfile-format(5) demands [%s]" % (
                    inhex, ver, x.split(" ", 2)[2], spec), rep, found=True)
            else:
                chk.violation("model/tokenise", "correspondence broken: on string %s (hex) gd_strtok/_GD_Tokenise give [%s], the model of _GD_Tokenise [%s] (both satisfy the specification [%s])" % (
                    inhex, x.split(" ", 2)[2], m1.split(" ", 2)[2], spec),
                    dict(rep, correspondence="C08 Token.v vs _GD_Tokenise"), found=False)
    # regression: the witnesses of the repaired defect e8e73fb
    wit = [b"s STRING a\\u41", b"a \\12", b"\\x4", b"x\\u"]
    a = run([exe, "stdin", "full"], ("\n".join(w.hex() for w in wit) + "\n").encode())
    b = run([drv, "stdin", "full"], ("\n".join(w.hex() for w in wit) + "\n").encode())
    il = a[1].splitlines()
    ml = [l for l in b[1].splitlines() if not l.startswith("STATS")]
    n_bad = 0
    for x, y in zip(il, ml):
        m0, m1, spec = y.split("\t")
        if x.split()[1] != "10":
            continue
        chk.sample({"string_hex": x.split()[0], "version": x.split()[1], "impl": x.split(" ", 2)[2], "spec": spec})
        if not judge_line(x, spec):
            n_bad += 1
            w = bytes.fromhex(x.split()[0])
            chk.violation(K_PENDING, "a numeric escape ended by the end of the string is reported as GD_E_FORMAT_UNTERM: %r -> [%s], dirfile-format(5) demands [%s]" % (
                w, x.split(" ", 2)[2], spec),
                {"kind": "tokeniser", "input_hex": x.split()[0], "impl": x, "spec": spec,
                 "how": "gd_strtok(D, %r) / gd_add_spec(D, %r, 0) on any dirfile" % (w.decode("latin-1"), w.decode("latin-1"))}, found=True)
    chk.cov["tokeniser"]["pending_escape_witnesses_failing"] = n_bad
    return match_fix


# ------------------------------------------------------------------ gates

def gate_tables(drv, problems):
    rc, out, err = run([drv, "gates"])
    code, spec = {}, {}
    for l in out.splitlines():
        f = l.split()
        if f and f[0] == "GATE":
            code[GNAMES[int(f[1])]] = int(f[2])
            spec[GNAMES[int(f[1])]] = int(f[3])
    if rc != 0 or len(code) != len(GNAMES):
        problems.append("driver gates failed: rc=%d %s" % (rc, err[-300:]))
    return code, spec


FIELD_LINES = {
    "BIT": "x BIT a 1", "SBIT": "x SBIT a 1", "LINCOM": "x LINCOM 1 a 2 3", "LINTERP": "x LINTERP a /nonexistent/table",
    "MULTIPLY": "x MULTIPLY a b", "DIVIDE": "x DIVIDE a b", "PHASE": "x PHASE a 1", "POLYNOM": "x POLYNOM a 1 2",
    "RECIP": "x RECIP a 1", "CONST": "x CONST UINT8 1", "CARRAY": "x CARRAY UINT8 1 2", "STRING": "x STRING abc",
    "SARRAY": "x SARRAY abc def", "MPLEX": "x MPLEX a b 1 2", "WINDOW": "x WINDOW a b EQ 1", "INDIR": "x INDIR a b",
    "SINDIR": "x SINDIR a b", "RAW": None}
DIR_LINES = {
    "ALIAS": "ALIAS z a", "ENCODING": "ENCODING none", "ENDIAN": "ENDIAN little", "FRAMEOFFSET": "FRAMEOFFSET 3",
    "HIDDEN": "HIDDEN a", "INCLUDE": "INCLUDE frag", "META": "META a m CONST UINT8 1", "NAMESPACE": "NAMESPACE ns",
    "PROTECT": "PROTECT none", "REFERENCE": "REFERENCE b", "VERSION": "VERSION 10"}
BAD_LINE, RES_NAME, BAD_TYPE, BAD_NAME = 8, 9, 11, 12


def gate_cases():
    """(name, v, mode, format text, verdict function(gates, ped) -> expected dict)"""
    cases = []
    for v in range(11):
        cases += gate_cases_for(v)
    return cases


def gate_cases_for(v):
    cases = []
    if True:
        ty = "c" if v < 5 else "UINT8"
        pre = "/VERSION %d\na RAW %s 1\nb RAW %s 1\n" % (v, ty, ty)
        sl = "/" if v >= 5 else ""

        def ge(g, gates, ped, name):      # additive gate: GD_PVERS_GE
            return (not ped) or v >= gates[name]

        def lt_restrict(gates, ped, name):  # restriction that starts at a Version
            return ped and v >= gates[name]

        def directive_seen(gates, ped, name, slash):
            if slash:
                if not ((not ped) or v >= gates["S_SLASH_OPTIONAL"]):
                    return False
            elif lt_restrict(gates, ped, "S_SLASH_REQUIRED"):
                return False
            return (not ped) or v >= gates["D_" + name]

        for nm, line in FIELD_LINES.items():
            line = line or "x RAW %s 1" % ty

            def verdict(gates, ped, nm=nm, line=line):
                if not ((not ped) or v >= gates["T_" + nm]):
                    return {"sub": BAD_LINE}
                if "UINT8" in line and ped and v < gates["S_NEW_TYPES"]:
                    return {"sub": BAD_TYPE}
                return {"sub": 0}
            cases.append(("T_" + nm, v, pre + line + "\n", verdict))
        for nm, line in DIR_LINES.items():
            def verdict(gates, ped, nm=nm):
                if not directive_seen(gates, ped, nm, bool(sl)):
                    return {"sub": BAD_LINE}
                r = {"sub": 0}
                if nm == "FRAMEOFFSET":
                    r["O"] = 3
                return r
            cases.append(("D_" + nm, v, pre + sl + line + "\n", verdict))
        # syntax gates
        cases.append(("S_NEW_TYPES", v, pre + "x RAW UINT8 1\n",
                      lambda gates, ped: {"sub": BAD_TYPE if ped and v < gates["S_NEW_TYPES"] else 0}))
        cases.append(("S_NO_TYPE_CHARS", v, pre + "x RAW c 1\n",
                      lambda gates, ped: {"sub": BAD_TYPE if ped and v >= gates["S_NO_TYPE_CHARS"] else 0}))
        cases.append(("S_COMPLEX_TYPES", v, pre + "x RAW COMPLEX64 1\n",
                      lambda gates, ped: {"sub": BAD_TYPE if ped and (v < gates["S_NEW_TYPES"] or v < gates["S_COMPLEX_TYPES"]) else 0}))
        cases.append(("S_NO_FILEFRAM", v, pre + "FILEFRAM RAW %s 1\n" % ty,
                      lambda gates, ped: {"sub": RES_NAME if ped and v < gates["S_NO_FILEFRAM"] else 0}))
        cases.append(("S_SLASH_REQUIRED", v, pre + "FRAMEOFFSET 3\n",
                      lambda gates, ped: {"sub": 0, "O": 3} if directive_seen(gates, ped, "FRAMEOFFSET", False) else {"sub": BAD_LINE}))
        cases.append(("S_SLASH_OPTIONAL", v, pre + "/FRAMEOFFSET 3\n",
                      lambda gates, ped: {"sub": 0, "O": 3} if directive_seen(gates, ped, "FRAMEOFFSET", True) else {"sub": BAD_LINE}))
        cases.append(("S_META_SLASH", v, pre + "a/m BIT a 1\n",
                      lambda gates, ped: {"sub": 0 if ((not ped) or v >= gates["S_META_SLASH"]) else BAD_NAME}))
        cases.append(("S_INT_PREFIX", v, pre + "x RAW %s 010\n" % ty,
                      lambda gates, ped: {"sub": 0, "P": 8 if ((not ped) or v >= gates["S_INT_PREFIX"]) else 10}))
        if v >= 1:
            cases.append(("S_FRAMEOFFSET_PREFIX", v, pre + sl + "FRAMEOFFSET 010\n",
                          lambda gates, ped: ({"sub": 0, "O": 8 if ((not ped) or v >= gates["S_FRAMEOFFSET_PREFIX"]) else 10}
                                              if directive_seen(gates, ped, "FRAMEOFFSET", bool(sl)) else {"sub": BAD_LINE})))
        if v >= 5:
            cases.append(("S_ENDIAN_ARM", v, pre + "/ENDIAN little arm\n",
                          lambda gates, ped: ({"sub": 0, "N": 1 if ((not ped) or v >= gates["S_ENDIAN_ARM"]) else 0}
                                              if directive_seen(gates, ped, "ENDIAN", True) else {"sub": BAD_LINE})))
    return cases


def parse_spec_out(l):
    f = l.split()
    r = {"E": int(f[0][1:]), "S": int(f[1][1:]), "L": int(f[2][1:]), "C": int(f[3][1:]), "cb": [x for x in f[4:] if "@" in x]}
    for x in f[4:]:
        if "@" not in x and x[0] in "FONPT":
            r[x[0]] = None if x[1:] == "-" else int(x[1:])
    return r


def observed_matches(o, exp):
    if exp["sub"]:
        return o["C"] == 1 and o["cb"] == ["%d@4" % exp["sub"]] and o["E"] == 0
    if o["C"] != 0 or o["E"] != 0:
        return False
    return all(o.get(k) == exp[k] for k in exp if k != "sub")


def gates_part(chk, spec_exe, drv, problems):
    code, spec = gate_tables(drv, problems)
    if len(code) != len(GNAMES):
        return
    cases = gate_cases()
    inp, meta = [], []
    for name, v, text, verdict in cases:
        for mode in "PQ":
            inp.append("%sI %s" % (mode, text.encode().hex()))
            meta.append((name, v, mode, text, verdict))
    rc, out, err = run([spec_exe], ("\n".join(inp) + "\n").encode())
    ol = out.splitlines()
    if rc != 0 or len(ol) != len(inp):
        problems.append("spec harness failed rc=%d lines=%d/%d %s" % (rc, len(ol), len(inp), err[-300:]))
        return
    n_rej = 0
    seen_bad = set()
    for (name, v, mode, text, verdict), l in zip(meta, ol):
        ped = (mode == "P")
        o = parse_spec_out(l)
        e_code, e_spec = verdict(code, ped), verdict(spec, ped)
        n_rej += 1 if e_spec["sub"] else 0
        ok_spec, ok_code = observed_matches(o, e_spec), observed_matches(o, e_code)
        rep = {"kind": "spec-line", "gate": name, "standards_version": v, "mode": "pedantic" if ped else "permissive",
               "format_file": text, "observed": l, "expected_by_standards": e_spec, "expected_by_translated_gates": e_code,
               "how": "printf '%sI %s\\n' | <harness/C08/spec>   (gd_cbopen with a callback returning GD_SYNTAX_IGNORE)" % (mode, text.encode().hex())}
        if not ok_spec:
            if name in seen_bad:
                continue
            seen_bad.add(name)
            key = K_SINDIR if name == "T_SINDIR" else "gate/%s/v%d/%s" % (name, v, mode)
            chk.violation(key, "Standards Version %d, %s: the line %r is %s by the library (callbacks %s); the Standards (HISTORY: %s from Version %d) demand %s" % (
                v, "pedantic" if ped else "permissive", text.splitlines()[3], "accepted" if o["C"] == 0 else "rejected", o["cb"],
                name, spec[name], ("suberror %d" % e_spec["sub"]) if e_spec["sub"] else "acceptance " + str({k: e_spec[k] for k in e_spec if k != "sub"})),
                rep, found=True)
        elif not ok_code:
            chk.violation("model/gate/%s" % name, "correspondence broken: gate %s translated as Version %d but Version %d %s behaves as [%s]" % (
                name, code[name], v, mode, l), dict(rep, correspondence="Gen/Gates.v vs parser"), found=False)
    chk.cov["evaluations"] += len(inp)
    chk.cov["distinct_nontrivial"] += n_rej
    chk.cov["gates"] = {"cases": len(inp), "rejected_by_standards": n_rej, "code_gates": code,
                        "differences_translated_vs_standards": {k: [code[k], spec[k]] for k in code if code[k] != spec[k]}}
    chk.sample({"gate_case": meta[200][0], "version": meta[200][1], "mode": meta[200][2], "observed": ol[200]})

    # callback protocol (validated, not modelled in Coq): IGNORE / CONTINUE / ABORT / RESCAN
    frag = "a RAW UINT8 1\nq FOO a\nb RAW UINT8 1\nzz\nc RAW UINT8 1\n"
    fix = "r RAW UINT8 1\n"
    want = {"I": lambda o: o["E"] == 0 and o["cb"] == ["8@2", "3@4"] and o["F"] == 4,
            "C": lambda o: o["E"] == -1 and o["S"] == 8 and o["L"] == 2 and o["cb"] == ["8@2", "3@4"],
            "A": lambda o: o["E"] == -1 and o["S"] == 8 and o["L"] == 2 and o["cb"] == ["8@2"],
            "R": lambda o: o["E"] == 0 and o["cb"] == ["8@2", "3@4", "16@4"] and o["F"] == 5}
    inp2 = ["P%s %s %s" % (a, frag.encode().hex(), fix.encode().hex()) for a in "ICAR"]
    rc, out, err = run([spec_exe], ("\n".join(inp2) + "\n").encode())
    ol2 = out.splitlines()
    for a, l in zip("ICAR", ol2):
        o = parse_spec_out(l)
        if not want[a](o):
            chk.violation("callback/%s" % a, "parser callback answer %s: observed [%s], gd_cbopen(3) demands otherwise" % (
                {"I": "GD_SYNTAX_IGNORE", "C": "GD_SYNTAX_CONTINUE", "A": "GD_SYNTAX_ABORT", "R": "GD_SYNTAX_RESCAN"}[a], l),
                {"kind": "callback", "format_file": frag, "answer": a, "observed": l}, found=True)
    chk.cov["evaluations"] += 4
    chk.cov["callback_protocol"] = dict(zip("ICAR", ol2))


# ------------------------------------------------------------------ field names

def names_part(chk, vf_exe, drv, problems):
    rng = chk.rng
    A = [b"a", b"I", b".", b"/", b"#", b" ", b"\\", b"&", b"<", b"|", b";", b">", b"\x01", b"\x1f", b"\xe9"]
    B = [b"a", b".", b"#", b" ", b"/", b"\\"]
    names = [b""]
    for L in (1, 2, 3):
        names += [b"".join(x) for x in itertools.product(A, repeat=L)]
    for L in (4, 5) if not chk.thorough else (4, 5, 6, 7):
        names += [b"".join(x) for x in itertools.product(B, repeat=L)]
    words = [b"FRAMEOFFSET", b"ENCODING", b"ENDIAN", b"INCLUDE", b"META", b"VERSION", b"PROTECT", b"REFERENCE", b"ALIAS",
             b"HIDDEN", b"NAMESPACE", b"INDEX", b"FILEFRAM", b"FRAMEOFFSE", b"FRAMEOFFSETS", b"meta", b"/META"]
    names += words
    for n in (15, 16, 17, 49, 50, 51, 52, 100):
        names += [b"a" * n, b"a" * (n - 1) + b".", b"#" + b"a" * (n - 1)]
    for _ in range(3000 if not chk.thorough else 30000):
        k = rng.randint(1, 20)
        names.append(bytes(rng.choice([97, 98, 46, 35, 32, 47, 92, 38, 60, 62, 59, 124, 1, 31, 127, 128, 255, 48]) for _ in range(k)))
    inp = ("\n".join(n.hex() if n else "-" for n in names) + "\n").encode()
    rc1, o1, e1 = run([vf_exe, "names"], inp)
    rc2, o2, e2 = run([drv, "vf"], inp)
    il, ml = o1.splitlines(), o2.splitlines()
    if rc1 != 0 or rc2 != 0 or len(il) != len(names) or len(ml) != len(names):
        problems.append("names harness/driver failed rc=%d/%d lines=%d/%d/%d %s %s" % (rc1, rc2, len(names), len(il), len(ml), e1[-200:], e2[-200:]))
        return
    n_spec_rej = 0
    match_fix = True
    reported = set()
    for nm, a, b in zip(names, il, ml):
        impl = a.split(" ", 1)[1]
        m0, m1, spec = b.split(" ", 1)[1].split("\t")
        match_fix &= (impl == m1)
        got = impl[11:22]           # type NAME, nsl 0, strict, Version 0..10
        n_spec_rej += spec.count("1")
        if got != spec:
            v = [i for i in range(11) if got[i] != spec[i]][0]
            in_region = (v <= 5 and b" " in nm) or (v <= 4 and b"#" in nm)
            key = K_NAMES if in_region else "validate/%s/v%d" % (nm.hex()[:30], v)
            if key in reported:
                continue
            reported.add(key)
            chk.violation(key, "_GD_ValidateField(%r, 0, %d, strict, GD_VF_NAME) returns %s; dirfile-format(5) 'Field Names' says the name is %s at Standards Version %d" % (
                nm, v, got[v], "invalid" if spec[v] == "1" else "valid", v),
                {"kind": "field-name", "name_hex": nm.hex(), "standards_version": v, "impl_by_version": got, "spec_by_version": spec,
                 "how": "printf '%s\\n' | <harness/C08/vf> names  (digits 12..22); public API: <harness/C08/vf> api" % nm.hex()}, found=True)
        elif impl != m1 and "model/names" not in reported:
            reported.add("model/names")
            chk.violation("model/names", "correspondence broken: _GD_ValidateField on %r gives %s, the model %s" % (nm, impl, m1),
                          {"kind": "model-vs-impl", "correspondence": "C08 Names.v vs _GD_ValidateField", "name_hex": nm.hex(), "impl": impl, "model": m1}, found=False)
    # the public-API witness of the known defect
    rc, out, err = run([vf_exe, "api"])
    f = out.split()
    api_bad = len(f) == 5 and (f[1] == "0" or f[2] == "0")
    if api_bad:
        chk.violation(K_NAMES, "at Standards Version 4 (pedantic) gd_add_bit accepts the field names 'a#b' and 'c d' (results %s %s); the format file then written cannot be opened again (gd_open error %s)" % (f[1], f[2], f[4]),
                      {"kind": "field-name-api", "observed": out.strip(), "how": "<harness/C08/vf> api"}, found=True)
    chk.cov["evaluations"] += len(names) * 176
    chk.cov["distinct_nontrivial"] += n_spec_rej
    chk.cov["names"] = {"names": len(names), "calls": len(names) * 176, "rejected_name_version_pairs": n_spec_rej,
                        "impl_matches_model": match_fix,
                        "api_witness": out.strip()}
    chk.sample({"name": "a#b", "impl_by_version(NAME,strict)": il[names.index(b"a#b")].split(" ", 1)[1][11:22] if b"a#b" in names else None})


def main():
    chk = vlib.Check("C08")
    load_staged_findings(chk)
    problems = []
    rc, tout = vlib.sh("python3 %s/translate/tr_gates.py" % V)
    trans_problems = [l for l in tout.splitlines() if l.startswith("PROBLEM")]
    if rc != 0:
        trans_problems.append("tr_gates.py exit %d: %s" % (rc, tout[-300:]))
    proved = chk.prove("Properties_C08", extra_targets=["Gen/Gates.vo"])
    chk.cov["trusted_base"] += [
        "Coq 8.16.1 kernel, vm_compute (no native_compute); no axioms (Print Assumptions: closed under the global context)",
        "hand-written models coq/C08/Token.v of _GD_Tokenise and coq/C08/Names.v of _GD_ValidateField (tied by exhaustive correspondence below, not by translation)",
        "hand transcription coq/C08/TokSpec.v of dirfile-format(5) 'Tokens' and coq/C08/Standards.v of its HISTORY section",
        "translator translate/tr_gates.py (regular expressions over src/parse.c, src/name.c, src/internal.h; validated against gd_cbopen on every gate x Version x mode)",
        "extraction: ExtrOcamlBasic only; OCaml 4.13 driver ocaml/C08/driver.ml; C harnesses harness/C08/tok.c, spec.c (C locale)",
    ]
    chk.assumptions += [
        "C strings are NUL-free byte lists; D->error is 0 on entry to _GD_Tokenise (true for all four callers)",
        "trailing text after the 14th token (MAX_IN_COLS) is not tokenised by the library; the Standards do not mention a token limit, the comparison follows the code there",
        "the callback protocol and the type-name / literal-base / reserved-name consequences of the gates are validated on the implementation, not derived in Coq",
    ]
    try:
        impl = vlib.build_impl()
        exe = vlib.build_harness(impl, os.path.join(V, "harness/C08/tok.c"))
        spec_exe = vlib.build_harness(impl, os.path.join(V, "harness/C08/spec.c"))
        vf_exe = vlib.build_harness(impl, os.path.join(V, "harness/C08/vf.c"))
        # the build cache is shared and pruned by other checks running at the same
        # time: work from private copies of the three executables
        sd = vlib.scratch("verif-c08-")
        exe, spec_exe, vf_exe = [shutil.copy(x, os.path.join(sd, os.path.basename(x) + "-%d" % i))
                                 for i, x in enumerate((exe, spec_exe, vf_exe))]
        ok, log = vlib.coq_make(["C08/Token.vo", "C08/TokSpec.vo", "C08/Standards.vo", "Gen/Gates.vo", "C08/GatesDefs.vo", "C08/Names.vo"])
        drv = vlib.build_ocaml_driver("C08", "C08/Extract.v", "ocaml/C08/driver.ml") if ok else None
    except vlib.BuildError as e:
        chk.violation("build", "build failed: " + str(e)[:2000], {"kind": "build", "log": str(e)}, found=False)
        return chk.finish()
    if drv is None:
        # the generated table may be unusable: say why
        chk.violation("model-build", "Coq model / generated gate table does not compile (%s): %s" % ("; ".join(trans_problems[:3]), log[-1200:]),
                      {"kind": "model-build", "translator": trans_problems, "log": log[-4000:]}, found=False)
        return chk.finish()
    tokeniser_part(chk, exe, drv, problems)
    gates_part(chk, spec_exe, drv, problems)
    names_part(chk, vf_exe, drv, problems)
    chk.cov["rule"] = ("tokeniser: every string of the listed lengths over the listed alphabets (exhaustive enumeration, both dialects: Version 5 and Version 10) "
                       "through gd_strtok (token sequence + error) and one _GD_Tokenise call with MAX_IN_COLS (tokens, suberror, *pos), plus generated lines built from "
                       "escape/quote/whitespace/comment pieces incl. bytes >= 0x80, embedded LF and > 14 tokens; non-trivial = Version >= 6 strings containing a backslash, "
                       "quote or hash.  gates: one specification/directive line per gate x Version 0..10 x {pedantic, permissive} through gd_cbopen + callback; "
                       "non-trivial = lines the Standards reject.  names: _GD_ValidateField on all names up to length 3 over 15 significant bytes, "
                       "length 4-5 over {a . # SP / \\}, reserved words, length limits 16/50, random names; every call type x nsl {0,2} x strict x Version 0..10; "
                       "non-trivial = (name, Version) pairs the Standards refuse.")
    chk.cov["exhaustive"] = True
    found_any = any(f for _, _, _, f in chk.violations)
    for p in problems:
        chk.violation("harness", p, {"kind": "harness", "problem": p}, found=False)
    if trans_problems and not found_any:
        chk.violation("translator", "translator cannot read the parser's version gates: " + "; ".join(trans_problems[:3]),
                      {"kind": "translator", "problems": trans_problems, "theorem": "gates_agree_partial / gates_translation_complete (table no longer regenerable)"}, found=False)
    if not proved and not found_any:
        chk.violation("proof", "Properties_C08 does not check: " + getattr(chk, "proof_log", "")[-1500:],
                      {"kind": "proof", "theorem": "Properties_C08", "log": getattr(chk, "proof_log", "")[-4000:]}, found=False)
    return chk.finish()


if __name__ == "__main__":
    sys.exit(main())
