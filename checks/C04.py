#!/usr/bin/env python3
"""C04 -- RAW data files on disk follow the Standards and the external codecs' formats.

proof:   Properties_C04.v (byte orders incl. ARM, _GD_FixEndianness = enc new o dec old,
         raw/sie/text layouts and their readers, encoding table vs dirfile-encoding(5),
         discovery by extension)
tie:     translator tr_ef.py (encoding table) + correspondence of the extracted layout
         model with the freshly built library in both directions, with python's
         struct/gzip/bz2/lzma as the oracle outside the library
search:  every file is judged against the python oracle (the property text)."""
import sys, os, json, random
sys.path.insert(0, os.path.join(os.path.dirname(os.path.abspath(__file__)), "..", "bin"))
sys.path.insert(0, os.path.join(os.path.dirname(os.path.abspath(__file__)), "..", "harness", "C04"))
import vlib, gdlib
from gdlib import NAMES, CSIZE, NCOMP, TSIZE, ISFLOAT, EXT, ENCS

PID = "C04"
KEY_TEXTPAD = "regression/putdata/text/complex/write-past-end-pads-with-0-instead-of-0;0"


def gen_comps(rng, t, n, kind, for_text=False):
    """n samples of type t as a flat list of component patterns"""
    w = CSIZE[t]; bits = 8 * w; mask = (1 << bits) - 1
    out = []
    special = [0, 1, mask, mask >> 1, (mask >> 1) + 1, 0x0102030405060708 & mask, 0x80 & mask, 0xff & mask]
    if ISFLOAT[t]:
        if w == 4:
            special = [0, 0x3f800000, 0xbf800000, 0x00000001, 0x7f7fffff, 0x3eaaaaab, 0x4b800001, 0x80000000, 0x01020304]
            if not for_text:
                special += [0x7fc00000, 0xffc00001, 0x7f800000, 0xff800000]
        else:
            special = [0, 0x3ff0000000000000, 0xbff0000000000001, 1, 0x7fefffffffffffff, 0x3fd5555555555555,
                       0x4340000000000001, 0x8000000000000000, 0x0102030405060708]
            if not for_text:
                special += [0x7ff8000000000000, 0xfff8000000000001, 0x7ff0000000000000]
    def rand_pattern():
        # floating text data must be finite (NaN payloads and infinities do not survive a decimal text file)
        if ISFLOAT[t] and for_text:
            if w == 4:
                return (rng.getrandbits(1) << 31) | (rng.randint(1, 254) << 23) | rng.getrandbits(23)
            return (rng.getrandbits(1) << 63) | (rng.randint(1, 2046) << 52) | rng.getrandbits(52)
        return rng.getrandbits(bits)
    run = None
    for i in range(n * NCOMP[t]):
        if kind == "runs":
            # equal neighbours (SIE run structure); a complex sample repeats as a pair
            if run is None or (i % NCOMP[t] == 0 and rng.random() < 0.35):
                run = [rng.choice(special + [rand_pattern()]) for _ in range(NCOMP[t])]
                if rng.random() < 0.3:
                    run = [0] * NCOMP[t]
            out.append(run[i % NCOMP[t]])
        elif kind == "special":
            out.append(special[i % len(special)])
        else:
            z = rng.getrandbits(bits)
            if ISFLOAT[t]:
                # keep exponents moderate so that text formatting is ordinary; avoid NaN/Inf for text
                if w == 4:
                    z = (rng.getrandbits(1) << 31) | (rng.randint(1, 254) << 23) | rng.getrandbits(23)
                else:
                    z = (rng.getrandbits(1) << 63) | (rng.randint(1, 2046) << 52) | rng.getrandbits(52)
            out.append(z)
    return out


def spec_file(t, sex, enc, comps):
    """what the Standards say the decoded payload must be (None for sie: judged by expansion)"""
    if enc == "text":
        nc = NCOMP[t]
        return "".join(gdlib.text_line(t, comps[i:i + nc]) for i in range(0, len(comps), nc)).encode()
    if enc == "sie":
        return None
    return gdlib.enc_samples(t, sex, comps)


def py_payload(rng, t, sex, enc, comps):
    """the decoded payload of a data file holding comps, produced without the library"""
    nc = NCOMP[t]
    if enc == "text":
        if ISFLOAT[t]:
            fmt = "%.9g" if CSIZE[t] == 4 else "%.17g"
            return "".join(";".join(fmt % gdlib.float_value(t, z) for z in comps[i:i + nc]) + "\n" for i in range(0, len(comps), nc)).encode()
        return "".join("%d\n" % gdlib.int_value(t, z) for z in comps).encode()
    if enc == "sie":
        n = len(comps) // nc
        split = set(i for i in range(n) if rng.random() < 0.2)
        return gdlib.sie_bytes(t, sex, gdlib.sie_records(t, sex, comps, split))
    return gdlib.enc_samples(t, sex, comps)


def decode_payload(t, sex, enc, payload):
    """-> (comps, None) or (None, why): a decoded payload read by hand as type t in byte order sex"""
    import struct
    nc = NCOMP[t]
    if enc == "sie":
        if len(payload) % (8 + TSIZE[t]):
            return None, "length %d is not a multiple of the record size %d" % (len(payload), 8 + TSIZE[t])
        recs, exp, inc = gdlib.sie_decode(t, sex, payload)
        if not inc:
            return None, "record ends not increasing: %s" % [e for e, _ in recs][:12]
        return exp, None
    if enc == "text":
        out = []
        try:
            for line in payload.decode().split("\n")[:-1]:
                parts = line.split(";")
                if len(parts) != nc:
                    return None, "line %r has %d parts" % (line, len(parts))
                for x in parts:
                    if ISFLOAT[t]:
                        out.append(struct.unpack("<I", struct.pack("<f", float(x)))[0] if CSIZE[t] == 4 else struct.unpack("<Q", struct.pack("<d", float(x)))[0])
                    else:
                        out.append(int(x) & ((1 << 8 * CSIZE[t]) - 1))
        except Exception as ex:
            return None, "unparsable text %r" % (ex,)
        if payload and not payload.endswith(b"\n"):
            return None, "last line unterminated"
        return out, None
    if len(payload) % TSIZE[t]:
        return None, "length %d is not a multiple of the sample size %d" % (len(payload), TSIZE[t])
    return gdlib.dec_samples(t, sex, payload), None


def main():
    chk = vlib.Check(PID)
    rng = chk.rng
    # 1. translator
    rc, tout = vlib.sh("python3 %s/translate/tr_ef.py" % vlib.VERIF)
    trans_problems = [l for l in tout.splitlines() if l.startswith("PROBLEM")]
    # 2. proofs
    proved = chk.prove("Properties_C04", extra_targets=["Gen/EncTable.vo"])
    chk.cov["trusted_base"] += [
        "Coq 8.16.1 kernel, vm_compute (no native_compute)",
        "translator translate/tr_ef.py (reads the _GD_ef[] initialiser of src/encoding.c with the USE_* set of src/gd_config.h minus USE_MODULES, "
        "as bin/build_impl.sh builds it); cross-checked at run time: gd_encoding() of a discovered file and the file extension the library "
        "writes must agree with the generated table",
        "man-page transcription man_table in coq/C04/EncModel.v (by hand from man/dirfile-encoding.5)",
        "byte-level model of _GD_FixEndianness/_GD_CheckByteSex in coq/C04/Bytes.v (validated against the compiled function on every flag pair)",
        "python3 struct/gzip/bz2/lzma as the oracle outside the library; zlib/libbz2/liblzma stream formats are the codec libraries' responsibility",
        "extraction: ExtrOcamlBasic only; OCaml driver ocaml/C04/driver.ml; harness harness/C04/gdrun.c; x86-64 little-endian host instance of the host-parametric model",
    ]
    chk.assumptions += ["text encoding of floating-point data is compared with python's correctly rounded %.7g/%.16g (finite values only); "
                        "decimal<->binary correctness of libc is C07's subject",
                        "gzip size method relies on the ISIZE trailer (length < 2^32 bytes), as dirfile-encoding(5) documents"]
    try:
        impl = vlib.build_impl("", gdlib.HOOKS)
        exe = vlib.build_harness(impl, os.path.join(vlib.VERIF, "harness/C04/gdrun.c"))
        ok, log = vlib.coq_make(["C04/Bytes.vo"])
        drv = vlib.build_ocaml_driver("C04", "C04/Extract.v", "ocaml/C04/driver.ml") if ok else None
    except vlib.BuildError as e:
        chk.violation("build", "build failed: " + str(e)[:2000], {"kind": "build", "log": str(e)}, found=False)
        return chk.finish()
    if drv is None:
        chk.violation("model-build", "Coq model does not compile: " + log[-1500:], {"kind": "model-build", "log": log[-4000:]}, found=False)
        return chk.finish()
    root = vlib.scratch("C04-")
    found_any = False
    nontriv = set()
    narr = 2 if not chk.thorough else 8

    # ------------------------------------------------------------------ A: library writes
    cases = []          # dict per case
    script = []
    cid = 0
    for t in range(12):
        for sex in gdlib.sexes_for(t):
            for enc in ENCS:
                for off in (0, 2):
                    for gap in (0, 1):
                        for a in range(narr):
                            if not chk.thorough and gap and a:
                                continue
                            spf = rng.choice([1, 1, 3])
                            kind = "runs" if (enc == "sie" or a % 2) else rng.choice(["special", "random"])
                            n = rng.choice([1, 2, 7, 13, 40, 70]) if a else rng.choice([9, 33])
                            comps = gen_comps(rng, t, n, kind, for_text=(enc == "text"))
                            d = os.path.join(root, "w%d" % cid); cid += 1
                            os.mkdir(d)
                            with open(os.path.join(d, "format"), "w") as fh:
                                fh.write("/ENCODING %s\n%s\n/FRAMEOFFSET %d\na RAW %s %d\n" % (enc, gdlib.sex_directive(sex), off, NAMES[t], spf))
                            script.append("open %s rw" % d)
                            script.append("put a %d %d 0 %d %s" % (t, off + gap, n, gdlib.hexs(comps)))
                            allc = [0] * (gap * spf * NCOMP[t]) + comps
                            # a second write through the same handle: starts on a run boundary or anywhere, its first
                            # value often equal to the sample before it (text: appends only, widths may differ)
                            nc_ = NCOMP[t]; ntot = len(allc) // nc_
                            if enc == "text":
                                p2 = ntot
                            else:
                                bounds = [i for i in range(1, ntot) if allc[i * nc_:(i + 1) * nc_] != allc[(i - 1) * nc_:i * nc_]]
                                p2 = rng.choice(bounds) if bounds and rng.random() < 0.6 else rng.randint(0, ntot)
                            n2 = rng.choice([1, 2, 5])
                            second = gen_comps(rng, t, n2, "runs" if enc == "sie" else "random", for_text=(enc == "text"))
                            if p2 >= 1 and rng.random() < 0.6:
                                second[:nc_] = allc[(p2 - 1) * nc_:p2 * nc_]
                            script.append("put a %d %d %d %d %s" % (t, off, p2, n2, gdlib.hexs(second)))
                            allc = allc[:p2 * nc_] + second + allc[(p2 + n2) * nc_:]
                            script.append("close")
                            cases.append({"dir": d, "t": t, "sex": sex, "enc": enc, "off": off, "gap": gap, "spf": spf,
                                          "n": n, "n2": n2, "comps": allc})
    rc, out = vlib.sh([exe], inp=("\n".join(script) + "\n").encode(), timeout=1500)
    res = out.strip().split("\n")
    if rc != 0 or len(res) != len(script):
        chk.violation("harness", "gdrun failed on the write cases rc=%d lines=%d/%d: %s" % (rc, len(res), len(script), out[-400:]),
                      {"kind": "harness"}, found=False)
        return chk.finish()
    # model side
    mlines = []
    for c in cases:
        if c["enc"] == "text":
            mlines.append("text %d %s" % (c["t"], gdlib.hexs(c["comps"])) if not ISFLOAT[c["t"]] else "?")
        elif c["enc"] == "sie":
            mlines.append("sie %d %s %s" % (c["t"], c["sex"], gdlib.hexs(c["comps"])))
        else:
            mlines.append("raw %d %s %s" % (c["t"], c["sex"], gdlib.hexs(c["comps"])))
    rc2, mout = vlib.sh([drv], inp=("\n".join(mlines) + "\n").encode(), timeout=3000)
    M = mout.strip().split("\n")
    if rc2 != 0 or len(M) != len(cases):
        chk.violation("driver", "model driver failed rc=%d lines=%d/%d" % (rc2, len(M), len(cases)), {"kind": "driver", "out": mout[-500:]}, found=False)
        return chk.finish()
    spec_bad, model_bad = {}, {}
    for k, c in enumerate(cases):
        t, sex, enc = c["t"], c["sex"], c["enc"]
        r_open, r_put, r_put2, r_close = res[4 * k:4 * k + 4]
        key = "write/%s/%s/%s" % (enc, NAMES[t], sex)
        chk.cov["evaluations"] += 1
        if r_open != "open 0" or r_put != "put %d 0" % c["n"] or r_put2 != "put %d 0" % c["n2"] or r_close != "close 0":
            spec_bad.setdefault(key, []).append((c, "calls failed: %s | %s | %s | %s" % (r_open, r_put, r_put2, r_close)))
            continue
        raw = gdlib.read_field_file(c["dir"], "a", enc)
        if raw is None:
            spec_bad.setdefault(key, []).append((c, "no data file a%s (directory holds %s)" % (EXT[enc], sorted(os.listdir(c["dir"])))))
            continue
        try:
            payload = gdlib.container_decode(enc, raw)
        except Exception as ex:
            spec_bad.setdefault(key, []).append((c, "stock decoder rejects the stream: %r" % (ex,)))
            continue
        if enc == "sie":
            recs, exp, inc = gdlib.sie_decode(t, sex, payload)
            if len(payload) % (8 + TSIZE[t]) or not inc or exp != c["comps"]:
                spec_bad.setdefault(key, []).append((c, "SIE file decodes to %d comps (increasing=%s), expected %d; payload %s" % (
                    len(exp), inc, len(c["comps"]), payload.hex()[:200])))
                continue
        else:
            want = spec_file(t, sex, enc, c["comps"])
            if payload != want:
                ngap = c["gap"] * c["spf"]
                if enc == "text" and t >= 10 and ngap and payload == b"0\n" * ngap + want[4 * ngap:]:
                    # the recorded defect, exactly: pad lines of a complex text field are "0" instead of "0;0"
                    key = KEY_TEXTPAD
                spec_bad.setdefault(key, []).append((c, "file payload %s, Standards layout %s" % (payload.hex()[:160], want.hex()[:160])))
                continue
        if M[k] != "?" and enc != "sie" and M[k] != payload.hex():
            model_bad.setdefault(key, []).append((c, "file payload %s, model layout %s" % (payload.hex()[:160], M[k][:160])))
        if payload and (enc != "none" or sex != "l" or c["off"] or c["gap"]):
            nontriv.add((t, sex, enc, payload))
        if k % 211 == 5:
            chk.sample({"direction": "library writes", "type": NAMES[t], "endian": sex, "encoding": enc, "frameoffset": c["off"],
                        "first_frame": c["off"] + c["gap"], "spf": c["spf"], "n": c["n"], "payload_hex": payload.hex()[:64]})
    nwrite = len(cases)

    # ------------------------------------------------------------------ B: python writes, library reads (no /ENCODING)
    rcases, script = [], []
    for t in range(12):
        for sex in gdlib.sexes_for(t):
            for enc, ext in [("none", ""), ("gzip", ".gz"), ("bzip2", ".bz2"), ("lzma", ".xz"), ("lzma", ".lzma"), ("text", ".txt"), ("sie", ".sie")]:
                for off in (0, 3):
                    for a in range(narr):
                        spf = rng.choice([1, 2])
                        n = spf * (rng.choice([1, 3, 8, 20, 45]) if a else 17)
                        kind = "runs" if (enc == "sie" or a % 2) else rng.choice(["special", "random"])
                        comps = gen_comps(rng, t, n, kind, for_text=(enc == "text"))
                        if enc == "text":
                            nc = NCOMP[t]
                            if ISFLOAT[t]:
                                fmt = "%.9g" if CSIZE[t] == 4 else "%.17g"
                                payload = "".join(";".join(fmt % gdlib.float_value(t, z) for z in comps[i:i + nc]) + "\n"
                                                  for i in range(0, len(comps), nc)).encode()
                            else:
                                payload = "".join("%d\n" % gdlib.int_value(t, z) for z in comps).encode()
                        elif enc == "sie":
                            split = set(i for i in range(n) if rng.random() < 0.2)
                            payload = gdlib.sie_bytes(t, sex, gdlib.sie_records(t, sex, comps, split))
                        else:
                            payload = gdlib.enc_samples(t, sex, comps)
                        d = os.path.join(root, "r%d" % len(rcases))
                        os.mkdir(d)
                        with open(os.path.join(d, "format"), "w") as fh:
                            fh.write("%s\n/FRAMEOFFSET %d\na RAW %s %d\n" % (gdlib.sex_directive(sex), off, NAMES[t], spf))
                        with open(os.path.join(d, "a" + ext), "wb") as fh:
                            fh.write(gdlib.container_encode(enc, payload, ext))
                        k1 = rng.randint(0, max(0, n - 1)); k2 = rng.randint(1, max(1, n - k1))
                        # a read that starts before the frame offset (front padding) and runs into the stored data
                        pre = rng.randint(1, off * spf) if off else 0
                        k3 = rng.randint(1, max(1, min(n, 9)))
                        script += ["open %s ro" % d, "get a %d %d 0 %d" % (t, off, n + 3), "nframes", "enc 0",
                                   "get a %d %d 0 %d" % (t, off, min(n, 5)), "get a %d %d %d %d" % (t, off, k1, k2),
                                   "get a %d 0 %d %d" % (t, off * spf - pre, pre + k3), "close"]
                        rcases.append({"dir": d, "t": t, "sex": sex, "enc": enc, "ext": ext, "off": off, "spf": spf, "n": n, "k1": k1, "k2": k2, "pre": pre, "k3": k3,
                                       "comps": comps, "payload": payload})
    rc, out = vlib.sh([exe], inp=("\n".join(script) + "\n").encode(), timeout=1500)
    res = out.strip().split("\n")
    if rc != 0 or len(res) != len(script):
        chk.violation("harness", "gdrun failed on the read cases rc=%d lines=%d/%d: %s" % (rc, len(res), len(script), out[-400:]),
                      {"kind": "harness"}, found=False)
        return chk.finish()
    mlines = []
    for c in rcases:
        if c["enc"] == "text":
            mlines.append("dtext %d %s" % (c["t"], c["payload"].hex()) if not ISFLOAT[c["t"]] else "?")
        elif c["enc"] == "sie":
            mlines.append("dsie %d %s %s" % (c["t"], c["sex"], c["payload"].hex()))
        else:
            mlines.append("draw %d %s %s" % (c["t"], c["sex"], c["payload"].hex()))
    rc2, mout = vlib.sh([drv], inp=("\n".join(mlines) + "\n").encode(), timeout=3000)
    M = mout.rstrip("\n").split("\n")
    if rc2 != 0 or len(M) != len(rcases):
        chk.violation("driver", "model driver failed on read cases rc=%d lines=%d/%d" % (rc2, len(M), len(rcases)), {"kind": "driver"}, found=False)
        return chk.finish()
    for k, c in enumerate(rcases):
        t, sex, enc = c["t"], c["sex"], c["enc"]
        r_open, r_get, r_nf, r_enc, r_get2, r_get3, r_get4, r_close = res[8 * k:8 * k + 8]
        key = "read/%s%s/%s/%s" % (enc, c["ext"] if c["ext"] == ".lzma" else "", NAMES[t], sex)
        chk.cov["evaluations"] += 1
        g = gdlib.parse_get(r_get)
        want_nf = "nframes %d 0" % (c["off"] + c["n"] // c["spf"])
        if r_open != "open 0" or g is None or g[1] != 0 or g[0] != c["n"] or g[2] != c["comps"] or r_nf != want_nf or r_enc != "enc %s 0" % enc:
            spec_bad.setdefault(key, []).append((c, "library reads %s | %s | %s, the file holds %d samples %s.. of encoding %s, expected %s" % (
                r_get[:160], r_nf, r_enc, c["n"], gdlib.hexs(c["comps"][:6]), enc, want_nf)))
            continue
        nc_ = NCOMP[t]
        g2, g3 = gdlib.parse_get(r_get2), gdlib.parse_get(r_get3)
        w2 = c["comps"][:min(c["n"], 5) * nc_]
        w3 = c["comps"][c["k1"] * nc_:(c["k1"] + c["k2"]) * nc_]
        if g2 is None or g2[1] != 0 or g2[2] != w2 or g3 is None or g3[1] != 0 or g3[2] != w3:
            spec_bad.setdefault(key + "/re-read", []).append((c, "after reading the whole field, reading its beginning again gives %s (expected %s) and samples %d..%d give %s (expected %s)" % (
                r_get2[:120], gdlib.hexs(w2)[:80], c["k1"], c["k1"] + c["k2"], r_get3[:120], gdlib.hexs(w3)[:80])))
            continue
        g4 = gdlib.parse_get(r_get4)
        npad = c["pre"] * nc_
        w4 = c["comps"][:min(c["k3"], c["n"]) * nc_]

        def is_pad(z):
            if not ISFLOAT[t]:
                return z == 0
            w_ = CSIZE[t]
            ebits, mbits = (8, 23) if w_ == 4 else (11, 52)
            return ((z >> mbits) & ((1 << ebits) - 1)) == (1 << ebits) - 1 and (z & ((1 << mbits) - 1)) != 0
        if g4 is None or g4[1] != 0 or len(g4[2]) != npad + len(w4) or not all(is_pad(z) for z in g4[2][:npad]) or g4[2][npad:] != w4:
            spec_bad.setdefault(key + "/straddling-the-frame-offset", []).append((c, "a read starting %d samples before the frame offset gives %s; expected %d padding samples (zero / NaN) followed by %s" % (
                c["pre"], r_get4[:200], c["pre"], gdlib.hexs(w4)[:100])))
            continue
        if M[k] != "?":
            m = M[k].split()
            if enc == "sie":
                m = m[1:]
            if [int(x, 16) for x in m] != g[2]:
                model_bad.setdefault(key, []).append((c, "library reads %s, model decodes %s" % (r_get[:160], M[k][:160])))
        nontriv.add((t, sex, enc + c["ext"], c["payload"]))
        if k % 307 == 11:
            chk.sample({"direction": "python writes, library discovers and reads", "type": NAMES[t], "endian": sex, "file": "a" + c["ext"],
                        "frameoffset": c["off"], "n": c["n"], "read": r_get[:80], "enc": r_enc})

    # ------------------------------------------------------------------ E: the library REWRITES a data file (python wrote it):
    # gd_alter_raw / gd_alter_entry / gd_alter_spec with recoding (samples per frame up and down, type change),
    # gd_alter_endianness (every ordered pair of byte orders of the type, so also ARM-flag-only changes),
    # gd_alter_encoding, gd_alter_frameoffset, each with the data-moving flag.  After close, the NEW data file is decoded
    # by hand against the NEW declaration (type, byte order, encoding) -- the library's reader takes no part.
    import struct as _st
    ecases = []

    def small_float_comps(t, n):
        f = (lambda v: _st.unpack("<I", _st.pack("<f", v))[0]) if CSIZE[t] == 4 else (lambda v: _st.unpack("<Q", _st.pack("<d", v))[0])
        return [f(float(rng.randint(-50, 1000)) / rng.choice([1, 2, 4])) for _ in range(n * NCOMP[t])]

    def e_case(kind, t, sex, enc, off, spf, comps, op, t2, sex2, enc2, want, note):
        d = os.path.join(root, "e%d" % len(ecases)); os.mkdir(d)
        with open(os.path.join(d, "format"), "w") as fh:
            fh.write("/ENCODING %s\n%s\n/FRAMEOFFSET %d\na RAW %s %d\n" % (enc, gdlib.sex_directive(sex), off, NAMES[t], spf))
        with open(os.path.join(d, "a" + EXT[enc]), "wb") as fh:
            fh.write(gdlib.container_encode(enc, py_payload(rng, t, sex, enc, comps)))
        ecases.append({"kind": kind, "dir": d, "t": t, "sex": sex, "enc": enc, "off": off, "spf": spf, "comps": comps, "op": op,
                       "t2": t2, "sex2": sex2, "enc2": enc2, "want": want, "note": note,
                       "script": ["open %s rw" % d, op, "close"]})

    def e_values(t, n, text):
        if text and ISFLOAT[t]:
            return small_float_comps(t, n)
        return gen_comps(rng, t, n, rng.choice(["runs", "random", "special"]), for_text=text)

    multi = [3, 4, 5, 7, 8, 9, 10, 11]
    callers = ["alter_raw a %d %d 1", "alter_entry a %d %d 1"]
    for enc in ENCS:
        text = enc == "text"
        # samples per frame, up and down; whole frames and a trailing partial frame
        for (o, nn) in ((1, 2), (1, 3), (2, 3), (2, 1), (3, 2), (4, 1), (2, 5)):
            for rep in range(2 if not chk.thorough else 6):
                # (one frame fits the 64-byte copy buffer of hook H1; a frame larger than the buffer is C13's finding)
                t = rng.choice([x for x in multi if TSIZE[x] * max(o, nn) <= 64]); sx = gdlib.sexes_for(t)
                sex = rng.choice([x for x in sx if x != "l"]) if rep == 0 else rng.choice(sx)
                nf = rng.choice([3, 9, 20, 33]); part = rng.randint(0, o - 1)
                comps = e_values(t, nf * o + part, text)
                nc = NCOMP[t]
                smp = [comps[i * nc:(i + 1) * nc] for i in range(nf * o + part)]
                wsm = [smp[q * o + j * o // nn] for q in range(nf) for j in range(nn)] + [smp[nf * o + j * o // nn] for j in range(part * nn // o)]
                which = rng.randrange(3)
                op = callers[which] % (-1, nn) if which < 2 else "alter_spec 1 a RAW %s %d" % (NAMES[t], nn)
                e_case("spf", t, sex, enc, rng.choice([0, 2]), o, comps, op, t, sex, enc, [x for v in wsm for x in v], "%d->%d" % (o, nn))
        # type change: unsigned integers (value mod 2^bits), and the exact widenings FLOAT32->FLOAT64, COMPLEX64->COMPLEX128
        for (t, t2) in ((3, 7), (7, 3), (5, 1), (1, 5), (3, 5), (8, 9), (10, 11)):
            for sex in gdlib.sexes_for(t2) if not ISFLOAT[t] else ["l", "b"]:
                if sex not in gdlib.sexes_for(t2):
                    continue
                n = rng.choice([5, 17, 40])
                comps = e_values(t, n, text) if not ISFLOAT[t] else small_float_comps(t, n)
                if ISFLOAT[t]:
                    want = [_st.unpack("<Q", _st.pack("<d", _st.unpack("<f", _st.pack("<I", z))[0]))[0] for z in comps]
                else:
                    want = [z & ((1 << 8 * CSIZE[t2]) - 1) for z in comps]
                which = rng.randrange(3)
                op = callers[which] % (t2, 0) if which < 2 else "alter_spec 1 a RAW %s 2" % NAMES[t2]
                e_case("type", t, sex, enc, 0, 2, comps, op, t2, sex, enc, want, "%s->%s" % (NAMES[t], NAMES[t2]))
        # byte order: every ordered pair (FLOAT64/COMPLEX128: the ARM flag alone, too)
        for t in [9, 11] + rng.sample([3, 4, 7, 8, 10], 2):
            sx = gdlib.sexes_for(t)
            for s1 in sx:
                for s2 in sx:
                    if s1 == s2:
                        continue
                    comps = e_values(t, rng.choice([4, 11, 30]), text)
                    e_case("endianness", t, s1, enc, rng.choice([0, 1]), 1, comps,
                           "alter_endianness %s %d 0 1" % ("big" if "b" in s2 else "little", 1 if "a" in s2 else 0), t, s2, enc, comps, "%s->%s" % (s1, s2))
        # encoding
        for enc2 in ENCS:
            if enc2 == enc:
                continue
            t = rng.choice(multi); sex = rng.choice(gdlib.sexes_for(t))
            comps = e_values(t, rng.choice([3, 16, 35]), "text" in (enc, enc2))
            e_case("encoding", t, sex, enc, rng.choice([0, 1]), rng.choice([1, 2]), comps, "alter_encoding %s 0 1" % enc2, t, sex, enc2, comps, "%s->%s" % (enc, enc2))
        # frame offset
        for (o1, o2) in ((0, 2), (3, 1), (1, 0)):
            t = rng.choice(multi); sex = rng.choice(gdlib.sexes_for(t)); spf = rng.choice([1, 2])
            comps = e_values(t, spf * rng.choice([5, 12]), text)
            nc = NCOMP[t]
            want = [0] * ((o1 - o2) * spf * nc) + comps if o2 < o1 else comps[(o2 - o1) * spf * nc:]
            e_case("frameoffset", t, sex, enc, o1, spf, comps, "alter_frameoffset %d 0 1" % o2, t, sex, enc, want, "%d->%d" % (o1, o2))
    from concurrent.futures import ThreadPoolExecutor
    with ThreadPoolExecutor(max_workers=vlib.NPROC) as ex_:
        eouts = list(ex_.map(lambda c: vlib.sh([exe], inp=("\n".join(c["script"]) + "\n").encode(), timeout=300), ecases))
    for c, (rc_, out_) in zip(ecases, eouts):
        chk.cov["evaluations"] += 1
        t, t2, sex2, enc2 = c["t"], c["t2"], c["sex2"], c["enc2"]
        key = "rewrite/%s/%s" % (c["kind"], c["enc"])
        r = out_.rstrip("\n").split("\n")
        ctx = "%s %s %s spf %d, %s (%s)" % (NAMES[t], c["sex"], c["enc"], c["spf"], c["op"], c["note"])
        if rc_ != 0 or len(r) != 3:
            spec_bad.setdefault(key, []).append((c, "%s: gdrun died rc=%d: %s" % (ctx, rc_, out_[-200:])))
            continue
        if r[0] != "open 0" or r[1].split()[1:] != ["0", "0"] or r[2] != "close 0":
            spec_bad.setdefault(key, []).append((c, "%s: calls failed: %s" % (ctx, " | ".join(r))))
            continue
        raw = gdlib.read_field_file(c["dir"], "a", enc2)
        stray = sorted(f for f in os.listdir(c["dir"]) if f not in ("format", "a" + EXT[enc2]))
        if raw is None or stray:
            spec_bad.setdefault(key, []).append((c, "%s: directory holds %s afterwards, expected format and a%s only" % (ctx, sorted(os.listdir(c["dir"])), EXT[enc2])))
            continue
        try:
            payload = gdlib.container_decode(enc2, raw)
        except Exception as ex:
            spec_bad.setdefault(key, []).append((c, "%s: stock decoder rejects the rewritten stream: %r" % (ctx, ex)))
            continue
        got, why = decode_payload(t2, sex2, enc2, payload)
        if got is None:
            spec_bad.setdefault(key, []).append((c, "%s: rewritten a%s is malformed: %s" % (ctx, EXT[enc2], why)))
        elif got != c["want"]:
            spec_bad.setdefault(key, []).append((c, "%s: rewritten a%s read by hand as %s %s holds %s, expected %s (payload %s)" % (
                ctx, EXT[enc2], NAMES[t2], sex2, gdlib.hexs(got)[:160], gdlib.hexs(c["want"])[:160], payload.hex()[:120])))
        else:
            nontriv.add((c["kind"], t, c["sex"], c["enc"], c["op"], payload))
            if len(chk.cov["samples"]) < 8 and chk.cov["evaluations"] % 53 == 7:
                chk.sample({"direction": "library rewrites", "type": NAMES[t], "endian": c["sex"], "encoding": c["enc"], "op": c["op"], "payload_hex": payload.hex()[:64]})

    # ------------------------------------------------------------------ F: the DECLARATION changes without moving the data
    # (gd_alter_encoding / gd_alter_endianness / gd_alter_frameoffset with move = 0) on a handle that has or has not
    # touched the field before (read and left open, read and gd_raw_close'd, gd_eof only, untouched), then the library
    # WRITES: the samples must arrive in the file named for the NEW encoding, in the NEW format / byte order / position,
    # and the file of the old encoding must be left as it was.  Files are decoded by name, by hand.
    fcases = []

    def f_case(kind, t, sex, enc, off, comps, op, t2, sex2, enc2, put, check, note):
        d = os.path.join(root, "f%d" % len(fcases)); os.mkdir(d)
        with open(os.path.join(d, "format"), "w") as fh:
            fh.write("/ENCODING %s\n%s\n/FRAMEOFFSET %d\na RAW %s 1\n" % (enc, gdlib.sex_directive(sex), off, NAMES[t]))
        oldbytes = gdlib.container_encode(enc, py_payload(rng, t, sex, enc, comps))
        with open(os.path.join(d, "a" + EXT[enc]), "wb") as fh:
            fh.write(oldbytes)
        n = len(comps) // NCOMP[t]
        touch = rng.choice([["get a %d %d 0 %d" % (t, off, n)], ["get a %d %d 0 %d" % (t, off, n), "rawclose a"], ["eof a"],
                            ["get a %d %d 0 %d" % (t, off, min(n, 2)), "flush a"], []])
        fcases.append({"kind": kind, "dir": d, "t": t, "sex": sex, "enc": enc, "off": off, "comps": comps, "op": op, "t2": t2, "sex2": sex2,
                       "enc2": enc2, "check": check, "note": note, "old": oldbytes, "touch": " ; ".join(touch) or "untouched",
                       "script": ["open %s rw" % d] + touch + [op, put, "close"]})

    for enc in ENCS:
        for enc2 in ENCS:
            if enc2 == enc:
                continue
            t = rng.choice(multi + [1]); sex = rng.choice(gdlib.sexes_for(t)); off = rng.choice([0, 2])
            comps = e_values(t, rng.choice([4, 12]), enc == "text")
            k = rng.choice([1, 3, 9]); p = rng.choice([0, 0, 2])
            new = e_values(t, k, enc2 == "text")
            f_case("encoding", t, sex, enc, off, comps, "alter_encoding %s 0 0" % enc2, t, sex, enc2,
                   "put a %d %d %d %d %s" % (t, off, p, k, gdlib.hexs(new)), ("new-file", [0] * (p * NCOMP[t]) + new), "%s->%s" % (enc, enc2))
        if enc in ("none", "gzip", "bzip2", "lzma"):
            for t in (3, 9, rng.choice([4, 7, 8, 10, 11])):
                sx = gdlib.sexes_for(t); s1 = rng.choice(sx); s2 = rng.choice([x for x in sx if x != s1])
                n = rng.choice([5, 14]); comps = e_values(t, n, False)
                k = rng.choice([1, 3]); p = rng.randint(0, n - k); new = e_values(t, k, False)
                want = bytearray(gdlib.enc_samples(t, s1, comps)); want[p * TSIZE[t]:(p + k) * TSIZE[t]] = gdlib.enc_samples(t, s2, new)
                f_case("endianness", t, s1, enc, 0, comps, "alter_endianness %s %d 0 0" % ("big" if "b" in s2 else "little", 1 if "a" in s2 else 0), t, s2, enc,
                       "put a %d 0 %d %d %s" % (t, p, k, gdlib.hexs(new)), ("payload", bytes(want)), "%s->%s" % (s1, s2))
        for (o1, o2) in ((0, 2), (3, 1)):
            t = rng.choice(multi); sex = rng.choice(gdlib.sexes_for(t))
            n = rng.choice([5, 14]); comps = e_values(t, n, enc == "text")
            k = rng.choice([1, 3]); p = rng.randint(0, n - k) if enc != "text" else n
            new = e_values(t, k, enc == "text")
            nc = NCOMP[t]
            f_case("frameoffset", t, sex, enc, o1, comps, "alter_frameoffset %d 0 0" % o2, t, sex, enc,
                   "put a %d %d %d %d %s" % (t, o2, p, k, gdlib.hexs(new)), ("samples", comps[:p * nc] + new + comps[(p + k) * nc:]), "%d->%d" % (o1, o2))
    with ThreadPoolExecutor(max_workers=vlib.NPROC) as ex_:
        fouts = list(ex_.map(lambda c: vlib.sh([exe], inp=("\n".join(c["script"]) + "\n").encode(), timeout=300), fcases))
    for c, (rc_, out_) in zip(fcases, fouts):
        chk.cov["evaluations"] += 1
        t2, sex2, enc2 = c["t2"], c["sex2"], c["enc2"]
        key = "redeclare/%s/%s" % (c["kind"], c["enc"])
        r = out_.rstrip("\n").split("\n")
        ctx = "%s %s %s, %s ; %s (%s) ; %s" % (NAMES[c["t"]], c["sex"], c["enc"], c["touch"], c["op"], c["note"], c["script"][-2][:60])
        if rc_ != 0 or len(r) != len(c["script"]):
            spec_bad.setdefault(key, []).append((c, "%s: gdrun died rc=%d: %s" % (ctx, rc_, out_[-200:])))
            continue
        if r[0] != "open 0" or r[-3].split()[1:] != ["0", "0"] or not r[-2].endswith(" 0") or r[-1] != "close 0":
            spec_bad.setdefault(key, []).append((c, "%s: calls failed: %s" % (ctx, " | ".join(x[:40] for x in r))))
            continue
        raw = gdlib.read_field_file(c["dir"], "a", enc2)
        names = sorted(os.listdir(c["dir"]))
        try:
            payload = gdlib.container_decode(enc2, raw) if raw is not None else None
        except Exception as ex:
            payload = None
        got, why = (None, "no file a%s (directory: %s)" % (EXT[enc2], names)) if payload is None else decode_payload(t2, sex2, enc2, payload) if c["check"][0] != "payload" else (payload, None)
        bad = None
        if got is None:
            bad = "the file of the new declaration is missing or malformed: %s" % why
        elif c["check"][0] == "payload":
            if payload != c["check"][1]:
                bad = "a%s holds %s, expected the old bytes with the written samples in the new byte order: %s" % (EXT[enc2], payload.hex()[:160], c["check"][1].hex()[:160])
        elif got != c["check"][1]:
            bad = "a%s read by hand as %s %s holds %s, expected %s" % (EXT[enc2], NAMES[t2], sex2, gdlib.hexs(got)[:160], gdlib.hexs(c["check"][1])[:160])
        if not bad and c["kind"] == "encoding":
            oldnow = open(os.path.join(c["dir"], "a" + EXT[c["enc"]]), "rb").read() if os.path.exists(os.path.join(c["dir"], "a" + EXT[c["enc"]])) else None
            if oldnow != c["old"]:
                bad = "the file of the old encoding a%s was %s (move = 0 must leave it alone)" % (EXT[c["enc"]], "removed" if oldnow is None else "changed: now %s" % oldnow.hex()[:80])
        if bad:
            spec_bad.setdefault(key, []).append((c, "%s: %s; directory: %s" % (ctx, bad, names)))
        else:
            nontriv.add(("redeclare", c["kind"], c["t"], c["sex"], c["enc"], c["op"], c["touch"], raw))

    # ------------------------------------------------------------------ C: _GD_FixEndianness vs model, all flag pairs
    flagsets = ["0", "l", "b", "lb", "a", "la", "ba", "lba"]
    script, mlines = [], []
    for t in range(12):
        for o in flagsets:
            for nw in flagsets:
                ns = rng.choice([1, 2, 5])
                buf = bytes(rng.getrandbits(8) for _ in range(ns * TSIZE[t]))
                script.append("fixend %d %d %d %s" % (t, gdlib.sex_flags(o), gdlib.sex_flags(nw), buf.hex()))
                mlines.append("fix %d %s %s %s" % (t, o, nw, buf.hex()))
    rc, out = vlib.sh([exe], inp=("\n".join(script) + "\n").encode(), timeout=600)
    rc2, mout = vlib.sh([drv], inp=("\n".join(mlines) + "\n").encode(), timeout=600)
    I = [l.split()[1] if len(l.split()) > 1 else "" for l in out.strip().split("\n")]
    Mx = mout.strip().split("\n")
    nfix = len(script)
    chk.cov["evaluations"] += nfix
    if len(I) != nfix or len(Mx) != nfix:
        chk.violation("harness", "fixend run failed", {"kind": "harness", "out": out[-300:] + mout[-300:]}, found=False)
    else:
        for s_, i, m in zip(script, I, Mx):
            if i != m:
                tk = s_.split()
                # specification: old->new recoding of the python oracle (flags with exactly one endian bit)
                model_bad.setdefault("fixend/%s" % NAMES[int(tk[1])], []).append(({"cmd": s_}, "library %s, model %s" % (i, m)))
            elif i != s_.split()[4]:
                nontriv.add(("fix", s_))

    # ------------------------------------------------------------------ D (thorough): real buffer sizes, streams > 1 MB
    if chk.thorough:
        try:
            impl2 = vlib.build_impl()
            exe2 = vlib.build_harness(impl2, os.path.join(vlib.VERIF, "harness/C04/gdrun.c"))
            for enc in ("gzip", "bzip2", "lzma", "none"):
                for t, sex in ((3, "b"), (9, "ba"), (4, "l")):
                    n = 1300000 // TSIZE[t] + rng.randint(1, 999)
                    comps = [(i * 2654435761 + 12345) & ((1 << (8 * CSIZE[t])) - 1) for i in range(n * NCOMP[t])]
                    payload = gdlib.enc_samples(t, sex, comps)
                    d = os.path.join(root, "big-%s-%d" % (enc, t)); os.mkdir(d)
                    open(os.path.join(d, "format"), "w").write("%s\na RAW %s 1\n" % (gdlib.sex_directive(sex), NAMES[t]))
                    open(os.path.join(d, "a" + EXT[enc]), "wb").write(gdlib.container_encode(enc, payload))
                    rc, out = vlib.sh([exe2], inp=("open %s ro\nget a %d %d 0 100\nnframes\nclose\n" % (d, t, n - 100)).encode(), timeout=600)
                    r = out.strip().split("\n")
                    g = gdlib.parse_get(r[1]) if len(r) > 1 else None
                    chk.cov["evaluations"] += 1
                    if g is None or g[2] != comps[-100 * NCOMP[t]:] or r[2] != "nframes %d 0" % n:
                        spec_bad.setdefault("read-big/%s/%s" % (enc, NAMES[t]), []).append(({"dir": d, "t": t, "sex": sex, "enc": enc, "n": n},
                                                                                          "tail of a %d-sample stream read as %s / %s" % (n, r[1][:120] if len(r) > 1 else out[-200:], r[2] if len(r) > 2 else "")))
        except vlib.BuildError as e:
            chk.violation("build", "un-hooked build failed: " + str(e)[:1000], {"kind": "build"}, found=False)

    # ------------------------------------------------------------------ verdicts
    for key, l in sorted(spec_bad.items()):
        c, why = l[0]
        found_any = True
        rep = {k: (v if not isinstance(v, bytes) else v.hex()) for k, v in c.items() if k != "dir"}
        chk.violation(key, "%s: %s (%d such cases)" % (key, why, len(l)),
                      {"kind": "impl-vs-spec", "case": rep, "why": why, "count": len(l),
                       "how": "format file + harness/C04/gdrun.c script as in checks/C04.py, oracle = python struct/gzip/bz2/lzma"})
    for key, l in sorted(model_bad.items()):
        if key in spec_bad:
            continue
        c, why = l[0]
        rep = {k: (v if not isinstance(v, bytes) else v.hex()) for k, v in c.items() if k != "dir"}
        chk.violation("model/" + key, "correspondence broken (%s): %s (%d cases)" % (key, why, len(l)),
                      {"kind": "model-vs-impl", "correspondence": "C04 layout model vs library", "case": rep, "why": why}, found=False)
    chk.cov["distinct_nontrivial"] = len(nontriv)
    chk.cov["rule"] = ("library writes (gd_putdata64, close) %d dirfiles: 12 types x byte orders (little, big; +arm for FLOAT64/COMPLEX128) x "
                       "{none,gzip,bzip2,lzma,text,sie} x frame offset {0,2} x start at/after the offset x arrays (boundary patterns, random, "
                       "runs of equal samples; lengths 1..70 with 64-byte library buffers via hook H1); python decodes each file and the "
                       "payload is compared with the Standards layout (python struct) and with the Coq model's bytes.  python writes %d "
                       "dirfiles without /ENCODING (extensions '', .gz, .bz2, .xz, .lzma, .txt, .sie; non-canonical SIE runs) and the library "
                       "discovers, sizes and reads them; compared with the samples and with the model's decoder.  _GD_FixEndianness vs the "
                       "model on %d (type, old flags, new flags) triples over all 8x8 flag words.  non-trivial = distinct (type, order, "
                       "encoding, payload) other than native unencoded from frame 0") % (nwrite, len(rcases), nfix)
    chk.cov["input_distribution"] = {"write_cases": nwrite, "read_cases": len(rcases), "fixend_cases": nfix, "rewrite_cases": len(ecases), "redeclare_cases": len(fcases),
                                     "by_encoding_write": {e: sum(1 for c in cases if c["enc"] == e) for e in ENCS}}
    if trans_problems and not found_any:
        chk.violation("translator", "translator cannot read src/encoding.c: " + "; ".join(trans_problems[:3]),
                      {"kind": "translator", "problems": trans_problems, "theorem": "enc_table_agrees_with_man_page (table no longer regenerable)"}, found=False)
    if not proved and not found_any:
        chk.violation("proof", "Properties_C04 does not check: " + getattr(chk, "proof_log", "")[-1200:],
                      {"kind": "proof", "theorem": "Properties_C04", "log": getattr(chk, "proof_log", "")[-4000:]}, found=False)
    return chk.finish()


if __name__ == "__main__":
    sys.exit(main())
