#!/usr/bin/env python3
"""C15 -- the field name table stays consistent under every sequence of
metadata edits.

proof:   Properties_C15.v (order/bisection, invariant preservation, refuted
         cases of the full invariant with vm_compute witnesses)
tie:     correspondence of the extracted model (ocaml/C15/driver) with the
         freshly built library (harness/C15/nametab.c, ASan+UBSan build) on
         generated operation sequences; the model configuration (which
         repairs are present) is detected from witness sequences
search:  every step of the implementation's output is judged against the
         property text (spec_check below), independently of the model."""
import sys, os, json, re, itertools, concurrent.futures as cf
sys.path.insert(0, os.path.join(os.path.dirname(os.path.abspath(__file__)), "..", "bin"))
import vlib

ENV = {"ASAN_OPTIONS": "detect_leaks=0:abort_on_error=0", "UBSAN_OPTIONS": "print_stacktrace=1"}
MSEL = list(range(23))
FLAGS = []   # no repair is pending: everything proposed up to C15-20 is in the finally frozen tree

# ---------------------------------------------------------------- witnesses
# one per repair flag; the implementation's output on the witness must equal
# the model's with the flag off (defect present) or on (repaired)
WITNESS = {}
# regression witnesses for the defects repaired in /repo (fix: commits d815d97 .. 71a6c5d, fb2ee00):
# run like every other sequence; they must now agree with the model and satisfy the property text
FIXED_WITNESS = {
    "delref": ["A 0 - r 0 0 0 - - 0", "D r 0"],
    "hide": ["A 0 - a 15 0 0 - - 1", "A 0 - b 15 0 0 - - 2", "Q - 22 0", "H a 1", "Q - 22 0"],
    "affix": ["A 0 - x 15 1 0 - - 1", "Q - 22 0", "X 1 p ~", "Q - 22 0"],
    "delmeta": ["A 0 - p 15 0 0 - - 1", "A 1 p a 15 0 0 - - 2", "A 1 p b 15 0 0 - - 3", "A 1 p c 15 0 0 - - 4", "D p 1"],
    "rencache": ["A 0 - p 15 0 0 - - 1", "A 1 p aa 15 0 0 - - 2", "Q p 22 0", "R p/aa bb 0", "Q p 22 0", "R p qqq 0", "Q qqq 22 0"],
    "renref": ["A 0 - r 0 0 0 - - 0", "R r s 0"],
    "spec": ["A 0 - p 15 0 0 - - 1", "Q - 22 0", "A 1 - q 15 0 0 - - 2", "Q - 22 0"],
    "parent": ["A 0 - p 15 0 0 - - 1", "A 0 p c 15 0 0 - - 2", "D p/c 0"],
    "malias": ["A 0 - p 15 0 0 - - 1", "A 0 - x 15 0 0 - - 2", "L p al x 0", "Q p 22 0", "D p 0"],
    "alias-loop": ["L - b c 0", "L - c b 0", "L - a b 0", "R a zz 0"],
    "xcache": ["A 0 - p 15 0 0 - - 1", "L - al p/m 0", "Q - 22 0", "A 1 p m 15 0 0 - - 2", "Q - 22 0", "D p/m 0", "Q - 22 0"],
    "xcache-parent": ["A 0 - p 15 0 0 - - 1", "L p al x 0", "Q p 22 0", "A 0 - x 15 0 0 - - 2", "Q p 22 0", "R x y 4", "Q p 22 0"],
    "bfrag": ["A 0 - p 15 0 0 - - 1", "A 0 - x 15 0 0 - - 2", "L - p/al x 1", "X 1 q ~"],
    "madd-fragment-index": ["A 0 - r2 17 1 0 - - 71", "A 0 r2 xx 2 2 1 INDEX - 23", "A 0 - c 15 0 0 - - 1", "A 0 r2 yy 3 2 0 r2 c,- 0"],
    "alias-chain-target-first": ["A 0 - x 17 0 0 - - 1", "L - c1 x 0", "L - c2 c1 0", "L - c3 c2 0", "L - c4 c3 1", "Q - 17 0", "Q - 21 0", "R x y 0", "Q - 17 0"],
    "alias-chain-target-last": ["L - c4 c3 0", "L - c3 c2 0", "L - c2 c1 0", "L - c1 x 0", "A 0 - x 17 0 0 - - 1", "Q - 17 0", "D c2 8", "Q - 17 0"],
    "alias-chain-meta": ["A 0 - p 15 0 0 - - 1", "A 1 p m 15 0 0 - - 2", "L p a1 p/m 0", "L p a2 p/a1 0", "L - a3 p/a2 0", "L p a4 a3 0", "Q p 15 0", "Q - 15 0"],
    "include-cache": ["A 0 - a 15 0 0 - - 1", "Q - 22 0", "I inc1 0", "Q - 22 0", "J inc2 1 P_ _S", "Q - 22 0"],
    "uninclude": ["A 0 - a 15 1 0 - - 1", "A 0 - r 0 1 0 - - 0", "I inc1 0", "J inc2 1 P_ _S", "Q - 22 0", "U 1", "Q - 22 0", "A 0 - z 15 1 0 - - 1", "U 1", "Q - 22 0"],
    "namespace-null": ["I inc1 1", "N 1 ns", "N 2 n.s", "Q - 22 0"],
    "alias-intermediate": ["A 0 - x 15 0 0 - - 1", "L - b x 0", "L - a b 0", "D b 8"],
    "alias-intermediate-readd": ["A 0 - x 15 0 0 - - 1", "L - b x 0", "L - a b 0", "D b 8", "A 0 - b 17 0 0 - - 0"],
    "dotparent": ["A 0 - ab 15 0 0 - - 1", "A 0 .ab x 5 0 0 ab - 0", "L .ab y ab 0", "Q ab 22 0", "D .ab/x 0"],
    "affix-resort": ["A 0 - pz 15 0 0 - - 1", "A 0 - a 15 1 0 - - 2", "A 0 - b 15 1 0 - - 3", "X 1 p ~", "Q - 22 0", "X 1 q ~", "Q - 22 0", "X 1 a ~", "Q - 22 0"],
    "alias-stale": ["A 0 - x 15 0 0 - - 1", "L - al x 0", "D x 8", "A 0 - x 15 0 0 - - 1"],
    "alias-chain-order": ["L - b x 0", "L - a b 0", "A 0 - x 15 0 0 - - 1"],
    "deref-force-alias": ["A 0 - x 15 0 0 - - 1", "L - al x 0", "A 0 - z 3 0 0 x x,- 0", "D x 12", "Q - 21 0"],
    "rename-onto-dangling-alias": ["A 0 - a 15 0 0 - - 1", "L - q nothere 0", "R a q 0", "L - r a 0", "R a r 0"],
    "unhide": ["A 0 - a 15 0 1 - - 1", "A 0 - b 15 0 0 - - 2", "Q - 22 0", "H a 0", "Q - 22 0"],
    "hide-meta": ["A 0 - p 15 0 0 - - 1", "A 1 p a 15 0 0 - - 2", "A 0 p b 15 0 0 - - 3", "Q p 22 0", "H p/a 1", "Q p 22 0", "H p/a 0", "Q p 22 0"],
    "delete-meta-cache": ["A 0 - p 15 0 0 - - 1", "A 1 p a 15 0 0 - - 2", "A 0 p b 15 0 0 - - 3", "Q p 22 0", "D p/a 0", "Q p 22 0"],
    "add-cache": ["A 0 - p 15 0 0 - - 1", "Q - 22 0", "Q p 22 0", "A 0 - q 17 0 0 - - 0", "Q - 22 0", "A 0 p c 15 0 0 - - 3", "Q p 22 0", "L p al q 0", "Q p 22 0", "L - zz p 1", "Q - 22 0"],
    "lookup-alias-subfield": ["A 0 - a 15 0 0 - - 1", "A 1 a xx 15 0 0 - - 2", "A 0 - aa 15 0 0 - - 3", "A 1 aa x 15 0 0 - - 4", "L - bbbbbbb a 0", "A 0 - z 3 0 0 bbbbbbb/xx -,- 0", "D a/xx 0"],
}
# open defects: the model reproduces them faithfully (model == implementation) and the
# specification check flags them
EXTRA_WITNESS = {
    "affix-alias": ["A 0 - x 15 1 0 - - 1", "L - al x 0", "X 1 p ~"],
    "affix-reference": ["A 0 - r 0 1 0 - - 0", "X 1 p ~"],
    "namespace-alias": ["I inc1 0", "N 2 ns", "Q - 22 0"],
}


def run_proc(cmd, data, timeout=120):
    return vlib.sh(cmd, inp=data.encode(), timeout=timeout, env=ENV)


def parse_steps(out):
    """Split harness/driver output of ONE sequence into steps:
    [(result_line, [dump lines], invbits or None)]"""
    steps = []
    cur = None
    for ln in out.splitlines():
        if ln.startswith("> "):
            cur = [ln, [], None]
            steps.append(cur)
        elif ln == "=":
            continue
        elif cur is not None:
            if ln.startswith("i "):
                cur[2] = dict(kv.split("=") for kv in ln[2:].split())
            elif ln.split(" ", 1)[0] in ("ref", "e", "sorted", "n", "k", "vs", "vc", "va", "x", "w", "frefs", "al"):
                cur[1].append(ln)
    return steps


# ------------------------------------------------------------ specification
def parse_dump(lines):
    d = {"ents": [], "n": {}, "k": {}, "sorted": None, "ref": None, "fref": None}
    for ln in lines:
        t = ln.split()
        if not t:
            continue
        if t[0] == "ref":
            d["ref"] = t[1]; d["fref"] = (t[3], t[4])
        elif t[0] == "e":
            e = {"name": t[1]}
            for kv in t[2:]:
                k, _, v = kv.partition("=")
                e[k] = v
            d["ents"].append(e)
        elif t[0] == "sorted":
            d["sorted"] = t[1]
        elif t[0] == "n":
            if len(t) > 2 and t[2] == "!dangling-subfield":
                d.setdefault("dangling", []).append(t[1])
            else:
                d["n"][t[1]] = t[2:]
        elif t[0] == "k":
            d["k"][t[1]] = t[2:]
        elif t[0] in ("vs", "vc", "va"):
            d.setdefault("v", []).append(t)
        elif t[0] == "x":
            d.setdefault("x", []).append(t)
        elif t[0] == "w":
            d.setdefault("w", []).append(t)
        elif t[0] == "al":
            d.setdefault("al", []).append(t)
    return d


def spec_check(op, res, dump_lines):
    """The property's own statement, evaluated on the implementation's output.
    Returns a list of (kind, message)."""
    bad = []
    d = parse_dump(dump_lines)
    by = {}
    for e in d["ents"]:
        if e["name"] in by:
            bad.append(("unique", "name %s occurs twice in D->entry" % e["name"]))
        by[e["name"]] = e
    if d["sorted"] != "1":
        bad.append(("sorted", "D->entry is not strictly sorted by (length, bytes)"))
    # reference field
    if d["ref"] == "!":
        bad.append(("ref", "D->reference_field points to a freed entry"))
    elif d["ref"] not in (None, "-"):
        if by.get(d["ref"], {}).get("ty") != "0":
            bad.append(("ref", "reference field %s is not an existing RAW field" % d["ref"]))
    for i, fr in enumerate(d["fref"] or ()):
        if fr != "-" and by.get(fr, {}).get("ty") != "0":
            bad.append(("fref", "fragment %d /REFERENCE names %s which is not an existing RAW field" % (i, fr)))
    # metafields
    for e in d["ents"]:
        nm = e["name"]
        if "/" in nm:
            pre = nm.split("/")[0]
            if e.get("meta") != "1":
                bad.append(("meta", "%s is named as a metafield but is not one (n_meta != -1)" % nm))
            elif e.get("par") != pre:
                bad.append(("meta", "metafield %s has parent pointer %s" % (nm, e.get("par"))))
            elif nm not in by.get(pre, {}).get("kids", "").split(","):
                bad.append(("meta", "metafield %s is not in the subfield list of %s" % (nm, pre)))
            if pre not in by:
                bad.append(("meta", "metafield %s exists but its parent does not" % nm))
        elif e.get("meta") == "1":
            bad.append(("meta", "%s is flagged as a metafield" % nm))
        if "kids" in e and e["kids"] != "-":
            for k in e["kids"].split(","):
                if k == "!" or k not in by or not k.startswith(nm + "/"):
                    bad.append(("kids", "subfield list of %s contains %s" % (nm, "a freed entry" if k == "!" else k)))
    for par in d.get("dangling", []):
        bad.append(("kids", "subfield list of %s holds a freed entry (gd_nentries / gd_entry_list on it would touch freed memory)" % par))
    for t in d.get("w", []):
        if t[1] == "total-bad":
            continue
        if t[2] == "!dangling-subfield":
            bad.append(("kids", "subfield list of %s holds a freed entry" % t[1]))
        else:
            bad.append(("list", "parent %s: gd_entry_list / gd_nentries disagree: %s" % (t[1], " ".join(t[2:]))))
    # aliases
    def chase(t, n=0):
        if n > len(by) + 1 or t not in by:
            return "-"
        x = by[t]
        return chase(x["tgt"], n + 1) if x["ty"] == "21" else t
    for e in d["ents"]:
        if e["ty"] == "21":
            want = chase(e["tgt"])
            if e["dist"] == "!":
                bad.append(("alias", "alias %s points to a freed entry" % e["name"]))
            elif e["dist"] != want:
                bad.append(("alias", "alias %s -> %s resolves to %s, following the names gives %s" % (e["name"], e["tgt"], e["dist"], want)))
        elif "ins" in e and e["ins"] != "-" and False:
            pass
    # gd_aliases / gd_naliases of a field: the field itself and every alias whose chain of names ends in it
    want_al = {}
    for e in d["ents"]:
        if e["ty"] == "21":
            r = chase(e["tgt"])
            if r != "-":
                want_al.setdefault(r, []).append(e["name"])
    got_al = {}
    for t in d.get("al", []):
        got_al[t[1]] = (t[2], t[4:])
    for f in sorted(set(want_al) | set(got_al)):
        w_ = [f] + want_al.get(f, [])
        g_ = got_al.get(f, (str(1), [f]))
        if g_[1] != w_ or g_[0] != str(len(w_)):
            bad.append(("aliases", "gd_aliases(%s) = %s (gd_naliases %s), the aliases whose names lead to it are %s" % (f, " ".join(g_[1]), g_[0], " ".join(w_))))
    for e in d["ents"]:
        if e["ty"] != "21" and "ins" in e and e["ins"] != "-":
            for ic in e["ins"].split(","):
                if ic.endswith(":!"):
                    bad.append(("input", "cached input %s of %s points to a freed entry" % (ic, e["name"])))
    # list result of this step
    t = op.split()
    if t[0] == "Q" and res.startswith("> l"):
        names = res.split()[2:]
        par = t[1]
        if "!" in names:
            bad.append(("list", "gd_entry_list returned a pointer into freed memory"))
        if len(set(names)) != len(names):
            bad.append(("list", "gd_entry_list returned a name twice: %s" % " ".join(names)))
        for nme in names:
            full = nme if par == "-" else None
            if nme != "!" and par == "-" and full not in by:
                bad.append(("list", "listed name %s cannot be looked up" % nme))
        # nentries agreement (parent may be an alias: use the model-independent row when present)
        row = d["n"].get(par)
        if row is not None and int(t[2]) in MSEL and (par == "-" or par in by):
            cnt = int(row[MSEL.index(int(t[2])) * 4 + int(t[3])])
            if cnt != len(names):
                bad.append(("list", "gd_entry_list has %d names, gd_nentries says %d" % (len(names), cnt)))
    # value lists line up with the name lists
    for t in d.get("v", []):
        if any(w.startswith("!count=") or w.startswith("NULL") for w in t[2:]):
            bad.append(("values", "%s of %s: %s" % ({"vs": "gd_strings", "vc": "gd_carrays", "va": "gd_sarrays"}[t[0]], t[1], " ".join(t[2:]))))
    # gd_match_entries per fragment: with HIDDEN|NOALIAS and no type filter it is exactly the
    # non-alias entries of that fragment
    for t in d.get("x", []):
        if any(w.startswith("!count=") or w.startswith("NULL") for w in t[5:]):
            bad.append(("match", "gd_match_entries: " + " ".join(t)))
        elif t[2] == "22" and t[3] == "3":
            want = [e["name"] for e in d["ents"] if e["ty"] != "21" and (t[1] == "2" or e["fr"] == t[1])]
            if t[5:] != want:
                bad.append(("match", "gd_match_entries(fragment %s) lists %s, the table has %s" % (
                    t[1] if t[1] != "2" else "ALL", " ".join(t[5:]), " ".join(want))))
    for par, vals in d["k"].items():
        row = d["n"].get(par)
        if row is not None and (vals and vals[0].startswith("NULL")):
            bad.append(("values", "gd_constants failed"))
        elif row is not None and len(vals) != int(row[MSEL.index(15) * 4]):
            bad.append(("values", "gd_constants has %d values for %s names" % (len(vals), row[MSEL.index(15) * 4])))
    return bad


def use_check(op, res, prev_lines, dump_lines):
    """"Deleting or renaming a field updates or refuses every use of it (inputs, scalar
    parameters, aliases) according to the flags given": judged on two consecutive table dumps."""
    bad = []
    t = op.split()
    if res != "> r 0" or prev_lines is None or t[0] not in ("D", "R"):
        return bad
    prev = parse_dump(prev_lines); cur = parse_dump(dump_lines)
    pby = {e["name"]: e for e in prev["ents"]}
    cnames = set(e["name"] for e in cur["ents"])

    def chase(c, n=0):
        x = pby.get(c)
        if x is None or n > len(pby):
            return None
        if x["ty"] == "21":
            return x["dist"] if x["dist"] not in ("-", "!") else None
        return c
    if t[0] == "D" and not (int(t[2]) & 8):
        deleted = set(pby) - cnames
        if not deleted:
            return bad
        deref = int(t[2]) & 4
        for e in cur["ents"]:
            pe = pby.get(e["name"], e)
            if e["ty"] == "21":
                if pe.get("dist") in deleted:
                    bad.append(("use", "gd_delete without GD_DEL_FORCE removed %s although alias %s resolved to it" % (pe["dist"], e["name"])))
                continue
            if pe.get("ins", "-") != "-":
                for ic in pe["ins"].split(","):
                    code, _, cache = ic.rpartition(":")
                    tgt = cache if cache not in ("-", "!") else chase(code)
                    if tgt in deleted:
                        bad.append(("use", "gd_delete without GD_DEL_FORCE removed %s although %s uses it as input %s" % (tgt, e["name"], code)))
            if pe.get("scs", "-") != "-" and not deref:
                for c in pe["scs"].split(","):
                    if c in deleted and pby[c]["ty"] in ("15", "16"):
                        bad.append(("use", "gd_delete without GD_DEL_DEREF/FORCE removed %s although %s uses it as a scalar parameter" % (c, e["name"])))
    if t[0] == "R" and (int(t[3]) & 2) and "/" not in t[1] and t[1] not in cnames and t[1] in pby and pby[t[1]]["ty"] != "21":
        old = t[1]
        for e in cur["ents"]:
            codes = []
            if e["ty"] == "21":
                if not (int(t[3]) & 4):
                    codes = [e["tgt"]]
            else:
                if e.get("ins", "-") != "-":
                    codes += [ic.rpartition(":")[0] for ic in e["ins"].split(",")]
                if e.get("scs", "-") != "-":
                    codes += [c for c in e["scs"].split(",") if c != "-"]
            for c in codes:
                if c == old or c.startswith(old + "/"):
                    bad.append(("use", "gd_rename(%s -> %s, GD_REN_UPDB) left the code %s in %s" % (old, t[2], c, e["name"])))
    return bad


def op_label(op):
    t = op.split()
    if t[0] == "A":
        return "A.spec" if t[1] == "1" else ("A.madd" if t[2] != "-" else ("A.barth" if "/" in t[3] else "A.add"))
    if t[0] == "L":
        return "L.madd" if t[1] != "-" else "L.add"
    if t[0] == "D":
        f = int(t[2])
        return "D.deref-force" if (f & 12) == 12 else "D"
    return t[0]


# ---------------------------------------------------------------- generator
TOP = ["a", "b", "aa", "ab", "ba", "aaa", "aab", "abcdefg1", "abcdefg2", "abcdefh1", "p", "q", "pp", "r1", "r2",
       "zz", "INDEX", "a_", "p0"]
SUB = ["x", "y", "xx", "a", "aa", "z9"]
TYPES = [0, 1, 2, 3, 4, 5, 7, 8, 9, 10, 11, 12, 13, 14, 15, 15, 15, 16, 16, 17, 17, 18]


NIN = {1: 3, 2: 1, 3: 1, 4: 2, 5: 1, 7: 1, 8: 1, 9: 2, 10: 1, 11: 2, 12: 2, 13: 2, 14: 2}
NSC = {0: 1, 1: 6, 3: 2, 5: 1, 7: 3, 8: 2, 10: 1, 11: 1, 12: 2}


def use_matrix():
    """"Deleting or renaming a field updates or refuses every use of it": one short sequence for every entry type
    and every input / scalar slot it has, with the used field at the top level and as a metafield; the used field is
    renamed with GD_REN_UPDB (the code must follow), its parent is renamed, and a plain delete must be refused."""
    out = []
    for ty in sorted(set(NIN) | set(NSC)):
        slots = [("in", i) for i in range(NIN.get(ty, 0))] + [("sc", i) for i in range(NSC.get(ty, 0))]
        for kind, idx in slots:
            for target in ("c", "p/c"):
                ins = ["r"] * NIN.get(ty, 0)
                scs = ["-"] * NSC.get(ty, 0)
                if kind == "in":
                    ins[idx] = target
                else:
                    scs[idx] = target
                seq = ["A 0 - r 0 0 0 - - 0", "A 0 - c 15 0 0 - - 3", "A 0 - p 15 0 0 - - 4", "A 1 p c 15 0 0 - - 5",
                       "A 0 - u %d 0 0 %s %s 1" % (ty, ",".join(ins) if ins else "-", ",".join(scs) if scs else "-")]
                if target == "c":
                    seq += ["R c cz 2", "D cz 0", "D cz 4"]
                else:
                    seq += ["R p/c cz 2", "R p pz 2", "D pz/cz 0", "D pz 1"]
                out.append(seq)
    return out


def tree_tail(rng, head):
    """Library-only closing part: include trees of depth >= 3, parents and subfields at every level, subfields moved
    (gd_move) into fragments other than their parent's, then un-includes / deletes / renames / moves at every level,
    with a full gd_entry_list-versus-gd_nentries sweep (W) after every step."""
    t = []
    par = [-1, 0]                 # parent fragment of every fragment, as the library numbers them
    files = [3, 4, 5, 6, 7, 8, 9]
    rng.shuffle(files)
    fields = {}                   # parent field -> fragment it was created in
    metas = []

    def depth(f):
        d = 0
        while par[f] > 0 or (par[f] == 0 and f != 0):
            f = par[f]; d += 1
            if f == 0:
                break
        return d

    # 1. a chain / tree of includes: prefer deep parents
    for k in files[:rng.randint(3, 6)]:
        cand = list(range(len(par)))
        p = max(rng.sample(cand, min(2, len(cand))), key=depth) if rng.random() < 0.7 else rng.choice(cand)
        t.append("I inc%d %d" % (k, p))
        par.append(p)
        if k == 9:      # the alias-chain fragment: no parents, only aliases to move / delete
            metas += ["z_a1", "z_a3", "z_b2", "z_c1", "z_t"]
            continue
        fields["k%d_c" % k] = len(par) - 1
        metas += ["k%d_c/m" % k, "k%d_c/n" % k, "k%d_c/o" % k, "k%d_al" % k]
    # 2. parents with subfields created through the API at several levels (root included)
    for j in range(rng.randint(1, 3)):
        f = rng.choice([0, 0, rng.randrange(len(par))])
        nm = "tp%d" % j
        t.append("A 0 - %s 15 %d 0 - - %d" % (nm, f, j + 1))
        fields[nm] = f
        for sub in rng.sample(["ta", "tb", "tc", "td"], rng.randint(1, 3)):
            t.append("A 1 %s %s 15 0 0 - - %d" % (nm, sub, rng.randint(1, 9)))
            metas.append(nm + "/" + sub)
        if rng.random() < 0.5:
            t.append("L %s tl %s 0" % (nm, rng.choice(list(fields))))
            metas.append(nm + "/tl")
    t.append("W")
    # 3. subfields (and some parents) moved to other fragments, at every depth
    for _ in range(rng.randint(2, 6)):
        c = rng.choice(metas) if rng.random() < 0.8 else rng.choice(list(fields))
        t.append("V %s %d" % (c, rng.randrange(len(par))))
        t.append("W")

    def uninclude(f):
        # renumbering as in gd_uninclude: the subtree goes, from the highest index down; the last fragment fills a hole
        sub = set([f]); grew = True
        while grew:
            grew = False
            for i, p in enumerate(par):
                if p in sub and i not in sub:
                    sub.add(i); grew = True
        for idx in sorted(sub, reverse=True):
            last = len(par) - 1
            if idx != last:
                par[idx] = par[last]
                for i in range(len(par)):
                    if par[i] == last:
                        par[i] = idx
            par.pop()

    # 4. take things away at every level
    for _ in range(rng.randint(2, 7)):
        r = rng.random()
        if r < 0.45 and len(par) > 1:
            f = rng.randrange(1, len(par))
            t.append("U %d" % f)
            uninclude(f)
        elif r < 0.6 and fields:
            t.append("D %s %d" % (rng.choice(list(fields)), rng.choice([1, 1, 9, 0])))
        elif r < 0.7 and metas:
            t.append("D %s %d" % (rng.choice(metas), rng.choice([0, 8])))
        elif r < 0.82 and fields:
            t.append("R %s %s %d" % (rng.choice(list(fields)), rng.choice(["zq", "zr", "zs"]), rng.choice([0, 2])))
        elif metas:
            t.append("V %s %d" % (rng.choice(metas + list(fields)), rng.randrange(max(1, len(par)))))
        t.append("W")
        if rng.random() < 0.5 and fields:
            t.append("Q %s %d %d" % (rng.choice(list(fields)), rng.choice([22, 15, 20, 21]), rng.choice([0, 1, 3])))
    return t


def gen_sequence(rng, n, alias_loops, madd_any_frag=False):
    live = ["INDEX"]
    parents = []
    ops = []
    aliases = {}

    everalias = set()
    used = []      # codes that appear as inputs, scalar parameters or alias targets

    def lk(c):
        # _GD_FindField drops a leading '.': every lookup must behave the same with it
        return "." + c if rng.random() < 0.06 and c not in ("-", "~") and not c.startswith(".") else c

    def victim():
        # deleting / renaming something that is in use is where refusal and update logic lives
        if used and rng.random() < 0.4:
            c = rng.choice(used)
            return c if c != "INDEX" else code()
        return code()

    def code():
        r = rng.random()
        if r < 0.75 and live:
            c = rng.choice(live)
            if "/" in c and c.split("/")[0] in everalias:
                return c.split("/")[0]
            return c
        if r < 0.9:
            return rng.choice(TOP)
        return rng.choice([x for x in TOP if x not in everalias] or ["zz"]) + "/" + rng.choice(SUB)

    def would_loop(nm, tgt):
        # keep alias graphs acyclic unless asked (a cycle not through the alias being resolved crashes the library)
        seen = set([nm]); t = tgt
        while t in aliases:
            if t in seen:
                return True
            seen.add(t); t = aliases[t]
        return t in seen

    def bracket(k0):
        # query the container an operation touches with the same selector/flags before and after it,
        # so that a missing cache invalidation is observed
        if len(ops) == k0 or rng.random() > 0.4:
            return
        t = ops[-1].split()
        cont = "-"
        cand = [x for x in t[1:4] if "/" in x]
        if t[0] in ("A", "L") and t[2 if t[0] == "A" else 1] != "-":
            cont = t[2 if t[0] == "A" else 1]
        elif cand and rng.random() < 0.7:
            cont = cand[0].split("/")[0]
        q = "Q %s %d %d" % (cont, rng.choice([22, 22, 15, 20, 21]), rng.choice([0, 0, 1]))
        ops.insert(len(ops) - 1, q)
        ops.append(q)

    def alias_chain():
        # a chain of 3..6 aliases ending in an existing, a new or a missing field, created in any order
        k = rng.randint(3, 6)
        names = rng.sample([x for x in TOP if x not in live] + ["c%d" % j for j in range(1, 8)], k)
        end = rng.choice([c for c in live if c != "INDEX"] or ["zz"]) if rng.random() < 0.6 else rng.choice(TOP)
        links = []
        tops = [x for x in live if "/" not in x and x != "INDEX" and x not in aliases]
        for j, nm in enumerate(names):
            tgt = end if j == 0 else links[j - 1][2]
            if tops and rng.random() < 0.25:
                par = rng.choice(tops)
                links.append((par, nm, par + "/" + nm))
            else:
                links.append(("-", nm, nm))
            links[-1] = links[-1] + (tgt,)
        order = list(range(k))
        r = rng.random()
        if r < 0.35:
            pass                      # target first
        elif r < 0.6:
            order.reverse()           # target last
        else:
            rng.shuffle(order)
        for j in order:
            par, nm, full, tgt = links[j]
            ops.append("L %s %s %s %d" % (par, nm, tgt, rng.choice([0, 1])))
            everalias.add(full); aliases[full] = tgt; used.append(tgt)
            if full not in live:
                live.append(full)
        ops.append("Q - %d %d" % (rng.choice([22, 21, 15, 17, 20]), rng.choice([0, 1, 2])))

    for _ in range(n):
        if rng.random() < 0.02:
            alias_chain()
        bracket_from = len(ops)
        r = rng.random()
        if r >= 0.78:
            bracket_from = -1
        if r < 0.30:
            ty = rng.choice(TYPES)
            spec = 0; parent = "-"; nm = rng.choice(TOP)
            r2 = rng.random()
            tops = [x for x in live if "/" not in x and x != "INDEX"]
            if r2 < 0.35 and tops:
                parent = rng.choice(tops); nm = rng.choice(SUB)
                if ty == 0 and rng.random() < 0.8:
                    ty = 15
                if rng.random() < 0.7:
                    spec = 1; ty = 15
            elif r2 < 0.45 and tops:
                nm = rng.choice(tops) + "/" + rng.choice(SUB)
                if ty == 0:
                    ty = 15
            elif r2 < 0.55:
                spec = 1; ty = 15
            frag = rng.choice([0, 0, 1, 1, 2]) if rng.random() < 0.1 else rng.choice([0, 1])
            if parent != "-" and frag > 1 and not madd_any_frag:
                frag = 1    # see DIRECT["crash/madd-fragment-index"]: out-of-range index + parent reads past D->fragment[]
            hid = 1 if rng.random() < 0.15 and not spec else 0
            nin = {1: rng.choice([1, 2, 3]), 2: 1, 3: 1, 4: 2, 5: 1, 7: 1, 8: 1, 9: 2, 10: 1, 11: 2, 12: 2, 13: 2, 14: 2}.get(ty, 0)
            ins = [code() for _ in range(nin)]
            nsc = {0: 1, 1: 6, 3: 2, 5: 1, 7: 3, 8: 2, 10: 1, 11: 1, 12: 2}.get(ty, 0)
            scs = []
            for i in range(nsc):
                okpos = True
                if ty == 1:
                    okpos = (i % 3) < nin
                scs.append(code() if okpos and rng.random() < 0.3 else "-")
            if spec:
                ins = []; scs = []; hid = 0
            if parent != "-" and not spec and ty < 15 and rng.random() < 0.08:
                parent = "." + parent
            used.extend(ins + [c for c in scs if c != "-"])
            ops.append("A %d %s %s %d %d %d %s %s %d" % (spec, parent, nm, ty, frag, hid,
                                                        ",".join(ins) if ins else "-", ",".join(scs) if scs else "-",
                                                        rng.randint(1, 99)))
            full = nm if parent == "-" else parent.lstrip(".") + "/" + nm
            if full not in live:
                live.append(full)
            uses = ins + [c for c in scs if c != "-"]
            if uses and rng.random() < 0.45:
                # try to take one of the fields this entry uses away from under it
                u = rng.choice(uses)
                if u == "INDEX":
                    pass    # gd_delete("INDEX") is outside the model (the library lets the implicit field be deleted)
                elif rng.random() < 0.6:
                    ops.append("D %s %d" % (u, rng.choice([0, 1, 4, 5])))
                else:
                    ops.append("R %s %s %d" % (u, rng.choice(TOP + SUB), rng.choice([2, 2, 2, 0, 6, 10])))
        elif r < 0.40:
            parent = "-"; nm = rng.choice(TOP); tgt = code()
            tops = [x for x in live if "/" not in x and x != "INDEX"]
            if rng.random() < 0.25 and tops:
                parent = rng.choice(tops); nm = rng.choice(SUB)
            full = nm if parent == "-" else parent + "/" + nm
            if not alias_loops and would_loop(full, tgt):
                continue
            everalias.add(full)
            used.append(tgt)
            if full not in live:
                aliases[full] = tgt
                live.append(full)
            ops.append("L %s %s %s %d" % (parent, nm, tgt, rng.choice([0, 1])))
        elif r < 0.52:
            nm = victim()
            if nm == "INDEX":
                continue
            fl = rng.choice([0, 0, 1, 1, 8, 9, 4, 5, 2, 3, 13])
            ops.append("D %s %d" % (lk(nm), fl))
        elif r < 0.64:
            nm = victim()
            new = rng.choice(TOP + SUB)
            if rng.random() < 0.05:
                new = rng.choice(["a/b", "~", "x<y"])
            fl = rng.choice([0, 0, 2, 2, 4, 6, 8, 10])
            ops.append("R %s %s %d" % (lk(nm), new, fl))
            # keep the alias map roughly right: targets follow unless DANGLE
            if nm in aliases:
                aliases.pop(nm, None)
            if nm in everalias:
                everalias.add(new)
        elif r < 0.69:
            ops.append("V %s %d" % (lk(code()), rng.choice([0, 1, 1, 2])))
        elif r < 0.78:
            ops.append("H %s %d" % (lk(code()), rng.choice([0, 1, 1])))
        else:
            par = "-"
            if rng.random() < 0.4:
                par = code()
            sel = rng.choice([22, 22, 22, 15, 19, 20, 21, 0, 1, 17, 16, 18, 14, 13, 12, 9])
            ops.append("Q %s %d %d" % (lk(par), sel, rng.choice([0, 0, 0, 1, 2, 3])))
        if bracket_from >= 0:
            bracket(bracket_from)
    return ops


def main():
    chk = vlib.Check("C15")
    rng = chk.rng
    proved = chk.prove("Properties_C15")
    chk.cov["trusted_base"] += [
        "Coq 8.16.1 kernel, vm_compute",
        "model coq/C15/NameTable.v transcribed by hand from add.c/del.c/name.c/move.c/entry.c/fragment.c/field_list.c/parse.c/common.c; tied to the code only by the correspondence below",
        "extraction: ExtrOcamlBasic only; OCaml driver ocaml/C15/driver.ml (parsing/printing)",
        "harness harness/C15/nametab.c reads DIRFILE internals through internal.h; pointer liveness is decided by comparison with D->entry[] (ASan build: freed blocks are quarantined, so no address reuse)",
    ]
    chk.assumptions += [
        "field names drawn from [A-Za-z0-9_] plus '/', '<' and the empty string; no '.', so namespaces and representation suffixes are out of scope",
        "two fragments (format, sub) without affixes; gd_alter_affixes only as the last mutation of a sequence; gd_include/gd_uninclude/gd_fragment_namespace/gd_alter_* not modelled",
        "GD_REN_DATA/GD_DEL_DATA (data files) not exercised; entry types RAW LINCOM BIT MULTIPLY PHASE CONST CARRAY STRING INDEX alias",
    ]
    try:
        impl = vlib.build_impl("asan")
        exe = vlib.build_harness(impl, os.path.join(vlib.VERIF, "harness/C15/nametab.c"))
        ok, log = vlib.coq_make(["C15/NameTable.vo"])
        drv = vlib.build_ocaml_driver("C15", "C15/Extract.v", "ocaml/C15/driver.ml") if ok else None
    except vlib.BuildError as e:
        chk.violation("build", "build failed: " + str(e)[:2000], {"kind": "build", "log": str(e)}, found=False)
        return chk.finish()
    if drv is None:
        chk.violation("model-build", "Coq model does not compile: " + log[-1500:], {"kind": "model-build"}, found=False)
        return chk.finish()
    tmp = vlib.scratch("C15-")
    # run a private copy of the driver: another C15 check (run_seed.sh in another session) may rebuild
    # ocaml/C15/driver while this one is running
    import shutil, time
    for attempt in range(6):
        try:
            with vlib.Lock(os.path.join(vlib.VERIF, "ocaml", "C15", ".lock")):
                shutil.copy2(drv, os.path.join(tmp, "driver"))
            trc, _ = vlib.sh([os.path.join(tmp, "driver"), ""], inp=b"")
            if trc == 0:
                drv = os.path.join(tmp, "driver")
                break
        except OSError:
            pass
        time.sleep(1.0)
    counter = itertools.count(1)

    def run_impl(ops, unsafe=False):
        d = os.path.join(tmp, "d%d" % next(counter))   # next() on itertools.count is atomic: one directory per run
        rc, out = run_proc([exe, d] + (["unsafe"] if unsafe else []), "\n".join(ops) + "\n")
        return rc, out

    def run_model(ops, bits):
        rc, out = run_proc([drv, bits], "\n".join(ops) + "\n")
        return rc, out

    def strip_i(steps):
        return [(s[0], s[1]) for s in steps]

    # ---- 1. detect the configuration from the witnesses
    bits = []
    cfgnote = {}
    for k in FLAGS:
        w = WITNESS[k]
        rc, out = run_impl(w)
        isteps = strip_i(parse_steps(out))
        verdict = None
        for b in "10":    # the repaired model first: a sequence that is merely cut short would "agree" with anything
            cb = "".join(bits) + b + "1" * (len(FLAGS) - len(bits) - 1)
            # other flags do not matter for a witness; use all-others-on and all-others-off
            agree = False
            for others in ("0", "1"):
                cb = "".join(others if i != len(bits) else b for i in range(len(FLAGS)))
                mrc, mout = run_model(w, cb)
                msteps = parse_steps(mout)
                ncr = [i for i, s in enumerate(msteps) if s[0].startswith("> crash") or (s[2] and s[2].get("alive") == "0")]
                unm = [i for i, s in enumerate(msteps) if s[0].startswith("> unmodelled")]
                if unm:
                    # the unrepaired behaviour is outside the model: agree on what comes before
                    if b == "0" and strip_i(msteps[:unm[0]]) == isteps[:unm[0]]:
                        agree = True
                elif ncr:
                    # model predicts a crash at step ncr[0]: implementation must die there
                    if rc != 0 and len(isteps) <= ncr[0] + 1 and strip_i(msteps[:ncr[0]]) == isteps[:ncr[0]]:
                        agree = True
                elif rc == 0 and strip_i(msteps) == isteps:
                    agree = True
            if agree:
                verdict = b
                break
        if verdict is None:
            chk.violation("config/" + k, "witness for '%s' behaves neither like the pinned nor like the repaired model: %s" % (k, out[-600:]),
                          {"kind": "model-vs-impl", "witness": w, "impl_output": out[-3000:]}, found=False)
            verdict = "0"
        bits.append(verdict)
        cfgnote[k] = "repaired" if verdict == "1" else "open (as listed)"
    bits = "".join(bits)
    chk.notes.append("detected configuration: " + json.dumps(cfgnote))
    chk.cov["config_bits"] = bits

    # 81b3046 made the type switch of _GD_Add use the new entry's fragment; _GD_CopyScalars still checks scalar codes
    # against D->fragment[entry->fragment_index] (DIRECT["crash/madd-fragment-index"]), so keep the index in range
    madd_frag_safe = True    # 90c321d

    # ---- 2. generated sequences
    nseq = 160 if not chk.thorough else 2500
    seqs = []
    for i in range(nseq):
        n = rng.choice([10, 20, 30, 40, 60, 100, 200]) if i % 5 else rng.randint(10, 200)
        ops = gen_sequence(rng, n, alias_loops=(i % 17 == 0), madd_any_frag=madd_frag_safe)
        if i % 4 == 0:
            # a series of affix changes (replacements of equal length change the order but not the lengths)
            for _ in range(rng.randint(1, 6)):
                ops.append("X 1 %s %s" % (rng.choice(["p", "q", "a", "b", "z", "pre_", "~", "~"]), rng.choice(["~", "~", "~", "s", "t", "_x"])))
                ops += ["Q - 22 0", "Q - %d %d" % (rng.choice([22, 15, 19, 20]), rng.choice([0, 1])), "Q %s 22 0" % rng.choice(TOP)]
        elif i % 4 == 1:
            # operations the model does not cover (gd_include, gd_include_affix, gd_uninclude, gd_alter_spec,
            # gd_fragment_namespace): run on the library only and judged against the property text
            ops += ["Q - 22 0", "Q - 15 0"]
            for _ in range(rng.randint(1, 5)):
                r = rng.random()
                if r < 0.3:
                    ops.append("I %s %d" % (rng.choice(["inc1", "inc2"]), rng.choice([0, 1])))
                elif r < 0.45:
                    ops.append("J %s %d %s %s" % (rng.choice(["inc1", "inc2"]), rng.choice([0, 1]), rng.choice(["P_", "~"]), rng.choice(["_S", "~"])))
                elif r < 0.75:
                    ops.append("U %d" % rng.choice([1, 1, 2, 3]))
                elif r < 0.9:
                    ops.append("S - %s %d" % (rng.choice(TOP), rng.randint(1, 9)))
                else:
                    ops.append("N %d %s" % (rng.choice([1, 2]), rng.choice(["ns", "n.s", "~"])))
                ops += ["Q - 22 0", "Q - %d %d" % (rng.choice([15, 20, 21, 19]), rng.choice([0, 1]))]
        elif i % 4 == 2:
            ops += tree_tail(rng, ops)
        seqs.append(ops)
    seqs += use_matrix()
    for k, w in list(WITNESS.items()) + list(EXTRA_WITNESS.items()) + list(FIXED_WITNESS.items()):
        if k not in os.environ.get("C15_SKIP_WITNESS", "").split(","):
            seqs.append(list(w))

    def one(ops):
        mrc, mout = run_model(ops, bits)
        msteps = parse_steps(mout)
        cut = len(ops)
        why = None
        for i, s in enumerate(msteps):
            if s[0].startswith("> unmodelled"):
                cut = i; why = "unmodelled"; break
            if s[0].startswith("> crash"):
                cut = i; why = s[0][2:]; break
            if s[2] and s[2].get("alive") == "0":
                cut = i; why = "dangling-alias"; break
        irc, iout = run_impl(ops[:cut])
        isteps = strip_i(parse_steps(iout))
        tail = None
        if why == "unmodelled" and ops[cut][0] in "UIJSN":
            bits_ok = cut == 0 or (msteps[cut - 1][2] and all(v == "1" for v in msteps[cut - 1][2].values()))
            if bits_ok:
                trc, tout = run_impl(ops)
                tail = (trc, strip_i(parse_steps(tout)), tout[-1500:])
        crash = None
        if why and why != "unmodelled":
            crc, cout = run_impl(ops[:cut + 1], unsafe=(why == "dangling-alias"))
            crash = (crc, cout[-1500:])
        return ops, msteps, cut, why, irc, isteps, iout, crash, tail

    results = []
    with cf.ThreadPoolExecutor(max_workers=vlib.NPROC) as ex:
        for r in ex.map(one, seqs):
            results.append(r)

    total_steps = 0
    nontriv = set()
    kinds = {}
    viol = {}      # key -> (desc, replay)
    modelbad = []
    for ops, msteps, cut, why, irc, isteps, iout, crash, tail in results:
        first_bad = {}
        corrupt = False
        desync = False
        prev_dl = None
        flip = {}
        prev = None
        for i in range(cut):
            total_steps += 1
            if i >= len(isteps):
                break
            ms = msteps[i]
            # which op made the model's invariant components fail first
            if ms[2] and not desync:
                for b, v in ms[2].items():
                    if v == "0" and (prev is None or prev.get(b) == "1") and b not in flip:
                        flip[b] = i
                prev = ms[2]
            res, dl = isteps[i]
            if res != "> r 0" or ops[i][0] == "Q":
                pass
            nontriv.add((ops[i].split()[0], res.split()[1] if len(res.split()) > 1 else "", res.split()[2] if res.startswith("> r") and len(res.split()) > 2 else "ok", len(dl)))
            kinds[ops[i][0]] = kinds.get(ops[i][0], 0) + 1
            sb = spec_check(ops[i], res, dl) + use_check(ops[i], res, prev_dl, dl)
            prev_dl = dl
            if desync:
                # without the model in step the culprit of a stale list / alias cannot be named; those
                # kinds have listed open defects, so leave them to the sequences that stay in step
                sb = [(k, m_) for k, m_ in sb if k not in ("list", "alias")]
            if corrupt:
                sb = []
            if any(k in ("unique", "sorted") for k, _ in sb):
                sb = [(k, m_) for k, m_ in sb if k in ("unique", "sorted")]
            for kind, msg in sb:
                if kind in ("unique", "sorted"):
                    corrupt = True   # duplicate names: everything later in this sequence is a consequence
                if kind in first_bad:
                    continue
                first_bad[kind] = i
                # culprit: the step where the state-based check first failed; for lists the op that
                # made the model's cache stale
                ci = i
                if kind == "list":
                    ci = min([flip[b] for b in ("ccons", "clive") if b in flip] or [i])
                key = "%s/%s" % (kind, op_label(ops[ci]))
                if key not in viol:
                    viol[key] = ("after %s (step %d of a %d-step sequence): %s" % (ops[ci], ci, len(ops), msg),
                                 {"kind": "impl-vs-spec", "ops": ops[:i + 1], "culprit_step": ci, "observed_step": i,
                                  "impl_result": res, "impl_dump": dl, "message": msg,
                                  "how": "feed ops to harness/C15/nametab <scratchdir> (ASan build)"})
            if not desync and (ms[0], ms[1]) != (res, dl):
                # the model no longer describes the code: keep judging the rest of the implementation's
                # run against the property text (a consequence may only show some steps later)
                modelbad.append((ops[:i + 1], i, (ms[0], ms[1]), (res, dl), bool(spec_check(ops[i], res, dl))))
                desync = True
        else:
            if irc != 0 or len(isteps) < cut:
                modelbad.append((ops[:cut], len(isteps), ("(model continues)", []), ("harness died rc=%d: %s" % (irc, iout[-800:]), []), True))
        if tail is not None:
            # the part of the sequence that is outside the model: property text only
            trc, tsteps, ttail = tail
            tprev = tsteps[cut - 1][1] if 0 < cut <= len(tsteps) else None
            tfirst = {}
            lastmut = cut
            for i in range(cut, len(tsteps)):
                total_steps += 1
                res, dl = tsteps[i]
                kinds[ops[i][0]] = kinds.get(ops[i][0], 0) + 1
                if ops[i][0] not in "QW":
                    lastmut = i
                for kind, msg in spec_check(ops[i], res, dl):
                    if kind in tfirst:
                        continue
                    tfirst[kind] = i
                    # every check is evaluated after every step, so a symptom first shows right after its culprit
                    lab = op_label(ops[lastmut])
                    key = "%s/%s" % (kind, lab)
                    if key not in viol:
                        viol[key] = ("after %s (step %d of a %d-step sequence): %s" % (ops[lastmut], lastmut, len(ops), msg),
                                     {"kind": "impl-vs-spec", "ops": ops[:i + 1], "culprit_step": lastmut, "observed_step": i,
                                      "impl_result": res, "impl_dump": dl, "message": msg,
                                      "how": "feed ops to harness/C15/nametab <scratchdir> (ASan build)"})
                if any(k in ("unique", "sorted") for k in tfirst):
                    break
                tprev = dl
            if trc != 0 and len(tsteps) < len(ops):
                j = len(tsteps)
                key = "crash/tail/%s" % ("U" if any(o[0] == "U" for o in ops[cut:j + 1]) else op_label(ops[j]))
                if key not in viol:
                    viol[key] = ("%s makes the library crash: %s" % (ops[j], " ".join(re.findall(r"(?:ERROR: AddressSanitizer: [^\n]*|SEGV[^\n]*|runtime error[^\n]*)", ttail)[:2]) or "process died"),
                                 {"kind": "impl-vs-spec", "ops": ops[:j + 1], "impl_tail": ttail,
                                  "how": "feed ops to harness/C15/nametab <scratchdir> (ASan build)"})
        if why and why != "unmodelled" and crash is not None:
            crc, cout = crash
            key = "crash/%s/%s" % (why.replace(" ", ""), op_label(ops[cut]))
            if crc != 0:
                if key not in viol:
                    viol[key] = ("%s makes the library crash (%s): %s" % (ops[cut], why, " ".join(re.findall(r"(?:ERROR: AddressSanitizer: [^\n]*|SEGV[^\n]*|runtime error[^\n]*)", cout)[:2]) or "process died"),
                                 {"kind": "impl-vs-spec", "ops": ops[:cut + 1], "impl_tail": cout, "how": "feed ops to harness/C15/nametab <scratchdir> unsafe (ASan build)"})
            else:
                modelbad.append((ops[:cut + 1], cut, ("> " + why, []), ("no crash", []), False))

    # behaviour outside the model, judged against the property text directly
    DIRECT = {
        # gd_alter_spec (mod.c, outside the model) drops the hidden flag of the field and keeps the cached lists
        # gd_add_spec with the subfield given as "parent/name": only the top-level lists are invalidated
        "list/A.spec-barth": ["A 0 - par 15 0 0 - - 1", "A 1 par c1 15 0 0 - - 2", "Q par 15 0", "A 1 - par/c2 15 0 0 - - 3", "Q par 15 0"],
        "list/S": ["A 0 - r2 15 0 1 - - 5", "A 0 - b 15 0 0 - - 1", "Q - 22 0", "S - r2 6", "Q - 22 0"],
    }
    for dkey, dops in DIRECT.items():
        drc, dout = run_impl(dops)
        dsteps = strip_i(parse_steps(dout))
        if drc != 0 or len(dsteps) != len(dops):
            viol[dkey] = ("%s: the library died or the harness failed: %s" % (dops[-1], dout[-300:]),
                          {"kind": "impl-vs-spec", "ops": dops, "impl_tail": dout[-1500:]})
            continue
        for i, (res, dl) in enumerate(dsteps):
            sb = spec_check(dops[i], res, dl)
            if sb:
                viol[dkey] = ("after %s: %s" % (dops[i], "; ".join(m_ for _, m_ in sb[:3])),
                              {"kind": "impl-vs-spec", "ops": dops[:i + 1], "impl_result": res, "impl_dump": dl,
                               "how": "feed ops to harness/C15/nametab <scratchdir> (ASan build)"})
                break
    # lookup through an alias of the parent (alias/subfield), judged against the property text directly
    lw = ["A 0 - a 15 0 0 - - 1", "A 1 a xx 15 0 0 - - 2", "A 0 - aa 15 0 0 - - 3", "A 1 aa x 15 0 0 - - 4", "L - bbbbbbb a 0", "F bbbbbbb/xx"]
    lrc, lout = run_impl(lw)
    got = [l for l in lout.splitlines() if l.startswith("> f ")]
    if lrc != 0 or not got:
        viol["lookup-harness"] = ("lookup witness did not run: " + lout[-300:], {"kind": "harness", "ops": lw})
    elif got[0] != "> f a/xx":
        viol["lookup/alias-subfield"] = ("with entries a, a/xx, aa, aa/x and alias bbbbbbb -> a, the code bbbbbbb/xx resolves to %s instead of a/xx" % got[0][4:],
                                         {"kind": "impl-vs-spec", "ops": lw, "impl": got[0],
                                          "how": "feed ops to harness/C15/nametab <scratchdir>"})
    chk.cov["evaluations"] = total_steps
    chk.cov["distinct_nontrivial"] = len(nontriv)
    chk.cov["sequences"] = len(seqs)
    chk.cov["ops_by_kind"] = kinds
    chk.cov["rule"] = ("%d generated sequences of 10-200 operations (add/madd/add_spec/madd_spec/Barth-style names, aliases incl. aliases of aliases and dangling, "
                       "delete with META/DEREF/FORCE, rename with UPDB/DANGLE/FORCE, move, hide/unhide, entry lists for 10 selectors x 4 flag sets x parent, "
                       "alter_affixes last) over adversarial names (same length differing late, prefixes, INDEX, metafield codes); every step compared with the model "
                       "(result, whole table through internal.h, all 52 counts per container, constants) and judged against the property text; "
                       "non-trivial = distinct (op kind, result, table size)") % len(seqs)
    for r in results[:4]:
        chk.sample({"ops": r[0][:6], "n_ops": len(r[0]), "cut": r[2], "why": r[3]})

    if os.environ.get("C15_DEBUG"):
        for key, (desc, replay) in sorted(viol.items()):
            print("DEBUG", key, "|", desc[:200])
            if os.path.isdir("/var/tmp/C15-x"):
                json.dump(replay, open("/var/tmp/C15-x/viol_%s.json" % re.sub(r"[^A-Za-z0-9_.-]", "_", key), "w"), indent=1)
        for opsx, i, m, im, specbad in modelbad[:8]:
            print("DEBUG-MODEL", i, opsx[-1], "|", str(im)[:300], "|", str(m)[:300], specbad)
            open("/var/tmp/C15-x/mb%d.txt" % modelbad.index((opsx, i, m, im, specbad)), "w").write("\n".join(opsx) + "\n")
    for key, (desc, replay) in sorted(viol.items()):
        chk.violation(key, desc, replay, found=True)
    # a disagreement with the model is never covered by a listed finding: the model reproduces
    # every listed defect, so new behaviour is new
    seen_mb = set()
    for opsx, i, m, im, specbad in modelbad:
        lab = op_label(opsx[min(i, len(opsx) - 1)])
        if lab in seen_mb or len(seen_mb) >= 6:
            continue
        seen_mb.add(lab)
        chk.violation("mismatch/%s" % lab,
                      "step %d (%s): implementation %s; model of the code %s%s" % (
                          i, opsx[min(i, len(opsx) - 1)], str(im)[:500], str(m)[:500],
                          "; the implementation's output also violates the property text" if specbad else ""),
                      {"kind": "impl-vs-spec" if specbad else "model-vs-impl", "correspondence": "C15 name-table model vs library",
                       "ops": opsx, "impl": im, "model": m,
                       "how": "feed ops to harness/C15/nametab <scratchdir> (ASan build) and to ocaml/C15/driver <config bits>"},
                      found=bool(specbad))
    if not proved and not [v for v in chk.violations if v[3]]:
        chk.violation("proof", "Properties_C15 does not check: " + getattr(chk, "proof_log", "")[-1200:],
                      {"kind": "proof", "log": getattr(chk, "proof_log", "")[-4000:]}, found=False)
    return chk.finish()


if __name__ == "__main__":
    sys.exit(main())
