#!/usr/bin/env python3
"""C20 -- the C++ binding and the command-line tools show exactly what the C library holds.

proof:   Properties_C20.v over coq/Gen/CxxTable.v, regenerated on every run by
         translate/tr_cxx.py from bindings/cxx/*.cpp, bindings/cxx/getdata/*.h
         and src/getdata.h.in; documented mapping in coq/C20/WrapperDoc.v
tie:     harness/C20/cxxdiff.cpp (every wrapper method vs the C function on twin
         copies of generated dirfiles, results, error codes, side effects on
         disk); dirfile2ascii / checkdirfile built from util/*.c against
         harness/C20/utilref.c (cell-by-cell reads, independent of the tools'
         buffer arithmetic)."""
import sys, os, struct, json, shutil, hashlib, re, itertools
sys.path.insert(0, os.path.join(os.path.dirname(os.path.abspath(__file__)), "..", "bin"))
import vlib

KEYS = {
    "sbit": "cxx/SBitEntry-constructor-creates-BIT",
    "numbits": "cxx/BitEntry::SetNumBits(const char*)-stores-unparsed-code",
    "elem": "cxx/string-scalar-setters/carray-element-code-not-read-back",
    "rename": "cxx/Entry::Rename-object-name-not-updated",
    "fragfail": "cxx/Fragment::SetPrefix-SetSuffix/failed-call-leaves-freed-affixes",
}


def classify(op):
    if "SBitEntry" in op and op.startswith("Add"):
        return KEYS["sbit"]
    if "BitEntry::SetNumBits(str)" in op and "SBit" not in op:
        # the return code differs because of the element-code read-back; the stored scalar because of the duplicate assignment
        return KEYS["numbits"] if (op.endswith(" library") or op.endswith(" object")) else KEYS["elem"]
    if "scalar-element" in op:
        return KEYS["elem"]
    if op.startswith("Fragment cached pointer dangles") and "failed" in op:
        return KEYS["fragfail"]
    if op.startswith("Fragment cached pointer dangles"):
        return "cxx/Fragment-cached-pointer-dangles"
    if op.startswith("Fragment accessors after"):
        return "cxx/Fragment-accessor-stale"
    if op.startswith("Entry::Rename") or op.startswith("Entry::Move"):
        return KEYS["rename"]
    return None


def make_dirfile(d, rng, variant):
    shutil.rmtree(d, ignore_errors=True)
    os.makedirs(d)
    n = rng.randint(4, 12)
    spf2 = rng.choice([2, 3, 4])
    fmt = ["/VERSION 10", "/ENDIAN little", "/ENCODING none",
           "data RAW UINT8 1", "fast RAW INT16 %d" % spf2, "flt RAW FLOAT64 1", "cplx RAW COMPLEX64 1", "f2 RAW UINT16 %d" % spf2,
           "lin LINCOM data 2 3 fast 0.5 -1", "clin LINCOM data 1;2 3;4", "lut LINTERP data table.lut",
           "bit BIT data 1 3", "sbit SBIT fast 2 4", "mul MULTIPLY data flt", "div DIVIDE flt data",
           "rec RECIP flt 3.5", "ph PHASE data 2", "poly POLYNOM data 1 0.5 0.25",
           "win WINDOW data fast GT 3", "mpx MPLEX data fast 1 3", "cst CONST INT16 4", "cf CONST FLOAT64 2.5",
           "car CARRAY INT32 1 2 3 4 5 6", "str STRING \"hello world\"", "sar SARRAY a \"b c\" d",
           "ind INDIR data car", "sind SINDIR data sar", "bitc BIT data cst car<2>",
           "nofile RAW UINT16 1", "lutbad LINTERP data missing.lut",     # gd_spf succeeds, gd_getdata fails (no data file / no table)
           "/ALIAS al data", "/ALIAS al2 al", "/HIDDEN bit", "data/meta CONST UINT8 7", "data/ms STRING ms",
           "data/mc CARRAY UINT8 1 2", "/ALIAS data/mal data/meta", "/REFERENCE data", "/INCLUDE sub.format A_ _Z"]
    sub = ["/ENCODING none", "/FRAMEOFFSET 1", "x RAW UINT16 1", "y LINCOM x 2 0", "xc CONST UINT8 1"]
    rng.shuffle(fmt[8:28])
    if variant == 1:      # dangling inputs
        fmt += ["dang LINCOM nosuch 1 0", "dang2 MULTIPLY data nosuch2", "/ALIAS dal nosuch3", "dang3 BIT data nosuchconst 1",
                "data/mdang PHASE nosuch4 1", "/ALIAS data/madang nosuch5"]
        # {top-level, metafield} x {hidden, visible} x {invalid field, dangling alias, alias of an invalid field,
        # alias of a valid field, valid field}: a random subset of all the combinations
        k = 0
        for parent in (None, "data", "flt"):
            for hidden in (False, True):
                for kind in ("invalid", "dangling-alias", "alias-of-invalid", "alias-of-valid", "valid"):
                    if rng.random() < 0.45:
                        continue
                    k += 1
                    nm = "%sc%d" % ("h" if hidden else "v", k)
                    code = nm if parent is None else parent + "/" + nm
                    if kind == "invalid":
                        fmt.append("%s %s nosuchf%d %s" % (code, rng.choice(["LINCOM", "PHASE", "RECIP"]), k, rng.choice(["1 0", "3"])) if False else
                                   "%s LINCOM nosuchf%d 1 0" % (code, k))
                    elif kind == "dangling-alias":
                        fmt.append("/ALIAS %s nosucht%d" % (code, k))
                    elif kind == "alias-of-invalid":
                        fmt.append("/ALIAS %s dang" % code)
                    elif kind == "alias-of-valid":
                        fmt.append("/ALIAS %s fast" % code)
                    else:
                        fmt.append("%s PHASE data %d" % (code, k))
                    if hidden:
                        fmt.append("/HIDDEN %s" % code)
    if variant == 2:      # syntax errors
        fmt.insert(6, "bad RAWX UINT8 1")
        fmt.append("lin2 LINCOM 7 data")
        fmt.append("data RAW UINT8 1")
        fmt.append("/NOSUCHDIRECTIVE 1")
    open(os.path.join(d, "format"), "w").write("\n".join(fmt) + "\n")
    open(os.path.join(d, "sub.format"), "w").write("\n".join(sub) + "\n")
    open(os.path.join(d, "table.lut"), "w").write("0 0\n10 100\n255 500\n")
    open(os.path.join(d, "data"), "wb").write(bytes(rng.randrange(256) for _ in range(n)))
    open(os.path.join(d, "fast"), "wb").write(b"".join(struct.pack("<h", rng.randint(-300, 300)) for _ in range(n * spf2 - rng.randint(0, 1))))
    open(os.path.join(d, "f2"), "wb").write(b"".join(struct.pack("<H", rng.randint(0, 60000)) for _ in range(max(0, n * spf2 - rng.randint(0, 2 * spf2)))))
    open(os.path.join(d, "flt"), "wb").write(b"".join(struct.pack("<d", rng.uniform(-5, 5)) for _ in range(n)))
    open(os.path.join(d, "cplx"), "wb").write(b"".join(struct.pack("<ff", rng.uniform(-5, 5), rng.uniform(-5, 5)) for _ in range(n)))
    open(os.path.join(d, "A_x_Z"), "wb").write(b"".join(struct.pack("<H", 10 * i) for i in range(n)))
    return n, spf2


def tree(d):
    out = {}
    for root, _, fs in os.walk(d):
        for f in fs:
            p = os.path.join(root, f)
            out[os.path.relpath(p, d)] = open(p, "rb").read()
    return out


KNOWN_NAMES = (b"n_bit", b"n_sbit", b"n_phase")


def tree_diff(a, b):
    """files that differ, after dropping text lines that mention the entries the known deviations touch"""
    bad = []
    for k in sorted(set(a) | set(b)):
        x, y = a.get(k), b.get(k)
        if x == y:
            continue
        if x is None or y is None:
            bad.append((k, "present on one side only")); continue
        # the header carries the time of writing: the two handles may be flushed in different seconds
        fx = [l for l in x.split(b"\n") if not any(n in l for n in KNOWN_NAMES) and not l.startswith(b"# Written on ")]
        fy = [l for l in y.split(b"\n") if not any(n in l for n in KNOWN_NAMES) and not l.startswith(b"# Written on ")]
        if x == b"" or y == b"":
            # a fragment that only one side had a reason to write (the known Rename/Move deviation moves n_phase2 into it
            # on the C side only): compare without the header the library writes
            boiler = lambda l: l == b"" or l.startswith(b"#") or l.split(b" ")[0] in (b"/VERSION", b"/ENDIAN", b"/PROTECT", b"/ENCODING")
            fx = [l for l in fx if not boiler(l)]
            fy = [l for l in fy if not boiler(l)]
        if fx != fy:
            bad.append((k, "content differs"))
    return bad


def model_expected(drv, dump, fs, prec, zero, delim, skip):
    """the text dirfile2ascii must print according to the extracted Coq model (coq/C20/Ascii2.v), given what gd_getdata
    returned (utilref dump).  Returns a list of lines whose cells are strings or None (= not determined: interpolation
    that reads unread memory, %a of a computed value, NaN sign)."""
    lines = dump.split("\n")
    ff, nf = [int(x) for x in lines[1].split()[1:3]]
    cols = []
    i = 2
    while i < len(lines) and lines[i].startswith("field "):
        _, _, spf, nread, want = lines[i].split()
        spf, nread, want = int(spf), int(nread), int(want)
        vals = [l.split("\t") for l in lines[i + 1:i + 1 + want]]
        cols.append((spf, nread, vals))
        i += 1 + want
    if len(cols) != len(fs):
        return None
    inp = "%d %d %d %d %s\n" % (nf, skip, 1 if zero != "-" else 0, len(cols), " ".join("%d %d" % (c[0], c[1]) for c in cols))
    rc, out = vlib.sh([drv], inp=inp.encode(), timeout=60)
    out = out.strip()
    res = []
    if out == "":
        return res
    for row in out.split(";"):
        kj, cells = row.split(":")
        k = int(kj.split(",")[0])
        line = []
        for ci, cell in enumerate(cells.split(" ")):
            spf, nread, vals = cols[ci]
            conv = fs[ci][0]
            if cell == "F":
                line.append(zero)
            elif cell[0] == "D":
                idx = int(cell[1:])
                line.append(vals[idx][0] if 0 <= idx < len(vals) else None)
            else:
                at, lo, hi, num, den = [int(x) for x in cell[1:].split(",")]
                lim = nread if zero != "-" else len(vals)     # with -z the buffer is not padded past n_read
                if not all(0 <= x < lim for x in (at, lo, hi)) or conv in "aA":
                    line.append(None); continue
                isf = conv in "eEfFgG"
                raw = lambda x: float.fromhex(vals[x][1]) if isf else float(int(vals[x][1]))
                prev = at - k * spf
                diff = (float(prev) + float(num) / float(den)) - float(prev)
                slope = (raw(hi) - raw(lo)) / (float(prev + 1) - float(prev))
                val = raw(at) + diff * slope
                if val != val or val in (float("inf"), float("-inf")):
                    line.append(None); continue
                p = "" if prec == "-" else prec
                try:
                    if isf:
                        line.append(("%" + p + conv) % val)
                    else:
                        if any(ch in p for ch in "+ #0") or (conv in "uxXo" and val < 0) or abs(val) >= 2.0 ** 63:
                            # python and C differ on flags of integer conversions; a negative or huge interpolated value
                            # converted to (u)int64_t is undefined in C: not compared
                            line.append(None)
                        else:
                            line.append(("%" + p + {"i": "d", "u": "d", "x": "x", "X": "X", "o": "o"}[conv]) % int(val))
                except (ValueError, OverflowError):
                    line.append(None)
        res.append(line)
    return res


def lines_match(got, want_cells, delim):
    """got: output lines of the tool; want_cells: list of lists of str|None"""
    if len(got) != len(want_cells):
        return False
    for g, w in zip(got, want_cells):
        pat = re.escape(delim).join(".*?" if t is None else re.escape(t) for t in w)
        if not re.fullmatch(pat, g, re.S):
            return False
    return True


def build_tools(impl):
    """cxxdiff + the two utilities + the reference, cached in the impl build dir under a hash of their sources"""
    cf = open(os.path.join(impl, "cflags")).read().strip()
    ld = open(os.path.join(impl, "ldflags")).read().strip()
    cxx = os.path.join(vlib.REPO, "bindings", "cxx")
    util = os.path.join(vlib.REPO, "util")
    h = vlib.tree_hash([cxx, util, os.path.join(vlib.VERIF, "harness", "C20")], extra=cf + os.path.basename(impl))
    # kept outside the impl-* directory: vlib prunes old impl-* builds while other checks run; the tools are linked statically
    d = os.path.join(vlib.CACHE, "c20-" + h)
    with vlib.Lock(os.path.join(vlib.CACHE, "lock-c20-" + h)):
        if not os.path.exists(os.path.join(d, "ok")):
            shutil.rmtree(d, ignore_errors=True)
            os.makedirs(d)
            cmds = ["g++ -std=gnu++11 %s -I%s -I%s/src %s/harness/C20/cxxdiff.cpp %s/*.cpp -o %s/cxxdiff %s/libgetdata.a %s" % (
                cf, cxx, impl, vlib.VERIF, cxx, d, impl, ld)]
            for u in ("dirfile2ascii", "checkdirfile"):
                cmds.append("gcc %s -I%s/src %s/%s.c -o %s/%s %s/libgetdata.a %s" % (cf, impl, util, u, d, u, impl, ld))
            cmds.append("gcc %s -I%s/src %s/harness/C20/utilref.c -o %s/utilref %s/libgetdata.a %s" % (cf, impl, vlib.VERIF, d, impl, ld))
            # the same differential driver under AddressSanitizer (library and binding both instrumented)
            # address only: undefined-behaviour reports inside the C library (e.g. the shift by a BIT field's bitnum taken
            # from a CONST that a PutConstant round made >= 64, getdata.c:1336) are the same on both twins and belong to C05/C10
            aimpl = vlib.build_impl("", "-fsanitize=address -fno-omit-frame-pointer")
            acf = open(os.path.join(aimpl, "cflags")).read().strip()
            ald = open(os.path.join(aimpl, "ldflags")).read().strip()
            cmds.append("g++ -std=gnu++11 %s -I%s -I%s/src %s/harness/C20/cxxdiff.cpp %s/*.cpp -o %s/cxxdiff_asan %s/libgetdata.a %s" % (
                acf, cxx, aimpl, vlib.VERIF, cxx, d, aimpl, ald))
            from concurrent.futures import ThreadPoolExecutor
            with ThreadPoolExecutor(4) as ex:
                res = list(ex.map(lambda c: vlib.sh(c, timeout=900), cmds))
            for (rc, o), c in zip(res, cmds):
                if rc != 0:
                    shutil.rmtree(d, ignore_errors=True)
                    raise vlib.BuildError("C20 tool does not build: %s\n%s" % (c[:200], o[-2500:]))
            open(os.path.join(d, "ok"), "w").write("ok")
    return d


def main():
    chk = vlib.Check("C20")
    rng = chk.rng
    # 1. translator
    rc, tout = vlib.sh("python3 %s/translate/tr_cxx.py" % vlib.VERIF)
    trans_problems = [l for l in tout.splitlines() if l.startswith("PROBLEM")] + ([] if rc == 0 else ["PROBLEM translator exit %d: %s" % (rc, tout[-300:])])
    chk.notes.append(tout.strip()[:400])
    # 2. proofs
    proved = chk.prove("Properties_C20", extra_targets=["Gen/CxxTable.vo"])
    chk.cov["trusted_base"] += [
        "Coq 8.16.1 kernel, vm_compute",
        "translator translate/tr_cxx.py (regex + brace matching over the very regular bindings/cxx sources; whatever does not fit a shape is kept as text and compared verbatim with the pinned text in WrapperDoc.v)",
        "coq/C20/WrapperDoc.v: documented mapping bootstrapped from the pinned source, audited by hand against doc/README.cxx, the headers and the C prototypes (2 rows corrected); parameter-name synonyms list",
        "harness/C20/cxxdiff.cpp (private members made visible with #define private public), harness/C20/utilref.c, g++/gcc -O1",
        "coq/C20/Ascii2.v is a hand transcription of the print loop of util/dirfile2ascii.c and of checkdirfile.c; it is not extracted -- the tools are tied by utilref.c (cell-by-cell reads) instead",
    ]
    chk.assumptions += ["interpolated columns of dirfile2ascii (field with fewer samples per frame than another, no --skip) are not compared: they do not show gd_getdata values",
                        "C++ operators (casts between the GetData enums and the C enums, member access) are uninterpreted in forwarding_correct"]
    found_any = False
    tools = None
    for attempt in range(3):
        try:
            impl = vlib.build_impl()
            tools = build_tools(impl)
            break
        except vlib.BuildError as e:
            # the shared build cache is pruned concurrently by other checks: retry when the impl directory vanished under us
            if attempt < 2 and not os.path.exists(os.path.join(impl, "src", "gd_config.h")):
                shutil.rmtree(impl, ignore_errors=True)
                continue
            chk.violation("build", "build failed: " + str(e)[:2000], {"kind": "build", "log": str(e)}, found=False)
            return chk.finish()
    try:
        okm, logm = vlib.coq_make(["C20/Ascii2.vo"])
        drv = vlib.build_ocaml_driver("C20", "C20/Extract.v", "ocaml/C20/driver.ml") if okm else None
    except vlib.BuildError as e:
        drv, logm = None, str(e)
    if drv is None:
        chk.violation("model-build", "coq/C20/Ascii2.v does not compile/extract: " + logm[-1500:], {"kind": "model-build", "log": logm[-4000:]}, found=False)
        return chk.finish()
    work = vlib.scratch("C20-")
    # 3. C++ wrappers vs C functions
    ndf = 6 if not chk.thorough else 40
    rounds = 60 if not chk.thorough else 250
    ncmp = 0
    diffs = {}
    runs = [(i, variant, extra, "cxxdiff") for i in range(ndf)
            for variant, extra in ((0, []), (1, []), (2, []), (2, ["%x" % 0x1, "cb"]), (1, ["%x" % 0x0]))]
    # AddressSanitizer runs: read-write and read-only twins (a setter that fails must not leave the object dangling)
    runs += [(i, variant, extra, "cxxdiff_asan") for i in range(2 if not chk.thorough else 8)
             for variant, extra in ((0, []), (1, ["%x" % 0x0]), (1, []))]
    for i, variant, extra, binary in runs:
        if True:
            a, b = os.path.join(work, "A"), os.path.join(work, "B")
            sub = vlib.random.Random(rng.getrandbits(32))
            make_dirfile(a, sub, variant)
            shutil.rmtree(b, ignore_errors=True)
            shutil.copytree(a, b)
            seed = rng.getrandbits(31)
            args = [os.path.join(tools, binary), a, b, str(seed), str(rounds if binary == "cxxdiff" else max(10, rounds // 4))] + (extra if extra else ["1"])
            rc, out = vlib.sh(args, timeout=300, env={"ASAN_OPTIONS": "detect_leaks=0:abort_on_error=0", "UBSAN_OPTIONS": "print_stacktrace=1"})
            lines = out.splitlines()
            done = [l for l in lines if l.startswith("DONE ")]
            if rc != 0 or not done:
                san = re.search(r"ERROR: AddressSanitizer: ([\w-]+)[^\n]*(?:\n[^\n]*){0,12}?\n\s+#\d+ [^\n]* in (GetData::[\w:~]+)", out)
                key = "cxx/harness-crash" if not san else "cxx/memory-error/%s-in-%s" % (san.group(1), san.group(2))
                chk.violation(key, "%s died (rc=%d) on variant %d seed %d args %s: %s" % (binary, rc, variant, seed, args[3:], (out[out.find("ERROR: AddressSanitizer"):][:700] if san else out[-400:])),
                              {"kind": "crash", "variant": variant, "seed": seed, "args": args[3:], "format": open(os.path.join(a, "format")).read() if os.path.exists(os.path.join(a, "format")) else ""})
                found_any = True
                continue
            ncmp += int(done[0].split()[1])
            for l in lines:
                if l.startswith("DIFF "):
                    op = l[5:].split(" | ")[0]
                    diffs.setdefault(classify(op) or ("cxx/" + op.split(" ")[0]), []).append((l[:600], variant, seed))
            td = tree_diff(tree(a), tree(b))
            if td:
                diffs.setdefault("cxx/side-effects-on-disk", []).append(("files differ after the same operations: %s" % td[:4], variant, seed))
    for key, l in sorted(diffs.items()):
        found_any |= bool(chk.violation(key, "C++ method and the C function it wraps disagree: %s (%d such comparisons)" % (l[0][0], len(l)),
                      {"kind": "impl-vs-spec", "first": l[0][0], "variant": l[0][1], "seed": l[0][2], "count": len(l),
                       "how": "checks/C20.py make_dirfile(variant) twice (A,B); harness/C20/cxxdiff A B <seed> <rounds>"}))
    # 4. dirfile2ascii
    cells = 0
    model_cells = 0
    model_bad = []
    a = os.path.join(work, "U")
    ascii_bad = []
    nua = 3 if not chk.thorough else 12
    for i in range(nua):
        sub = vlib.random.Random(rng.getrandbits(32))
        variant = i % 2
        n, spf2 = make_dirfile(a, sub, variant)
        fieldsets = [["fdata"], ["edata", "iflt", "ubit"], ["ifast", "uf2"], ["xdata", "ifast"], ["glin", "Eph", "omul", "Xcst"],
                     ["fnosuchfield"], ["idata", "flut", "gA_x_Z"], ["ff2"], ["adata", "Gpoly"],
                     ["idata", "ifast"], ["ibit", "xf2", "ifast"], ["udata", "if2", "emul"], ["isbit", "odata"],
                     ["Edata", "Xfast", "Fflt"], ["Gflt", "Aflt", "aflt"], ["eflt", "ffast", "gf2"], ["Xf2", "xdata", "odata", "udata"],
                     # a field whose read fails, first / in the middle / last on the command line: the tool must fail
                     ["fnofile", "fdata"], ["ilutbad", "ifast"], ["fdata", "xnofile", "fflt"], ["idata", "ulutbad", "ufast", "gflt"],
                     ["fdata", "flutbad"], ["enofile"]] + ([["fdang"]] if variant == 1 else [])
        ranges = [(0, 0), (1, 3), (2, 0), (n - 1, 1), (n, 2), (0, n + 3), (-1, 2), (3, 1)]
        for fs in fieldsets:
            for (ff, nf) in (ranges if chk.thorough else sub.sample(ranges, 4) + [(0, n + 3)]):
                for skip in (0, 1, 2, 5):
                    prec = sub.choice(["-", "-", ".3", "08.2", "+", "#"])
                    zero = sub.choice(["-", "-", "ZZ"])
                    delim = sub.choice([" ", ",", "\t|"])
                    form = sub.randrange(3)
                    if ff == -1 and nf == 0:
                        continue
                    cmd = [os.path.join(tools, "dirfile2ascii")]
                    if form == 0 or ff < 0:
                        cmd += ["-f", str(ff)] + (["-n", str(nf)] if nf else [])
                    elif form == 1 and nf:
                        cmd += ["-f", "%d:%d" % (ff, nf)]
                    elif nf:
                        cmd += ["-f", "%d-%d" % (ff, ff + nf)]
                    else:
                        cmd += ["--first-frame=%d" % ff]
                    if skip:
                        cmd += ["-s", str(skip)]
                    if prec != "-":
                        cmd += ["-p", prec]
                    if zero != "-":
                        cmd += ["-z", zero]
                    if delim != " ":
                        cmd += ["-d", delim]
                    if sub.random() < 0.15:
                        cmd.append("-b")        # boxcar is compiled out: must only warn
                    cmd.append(a)
                    for f in fs:
                        cmd += (["-" + f[0], f[1:]] if f[0] != "f" else [f[1:]])
                    ref = [os.path.join(tools, "utilref"), "ascii", a, str(ff), str(nf), str(skip), prec, zero, delim] + fs
                    p = vlib.subprocess.run(cmd, stdout=vlib.subprocess.PIPE, stderr=vlib.subprocess.PIPE, timeout=60)
                    rc1, o1 = p.returncode, p.stdout.decode("utf-8", "replace")
                    if rc1 != 0 and b"Interpolation required" in p.stderr:
                        continue    # documented refusal: one frame of a 1-sample-per-frame field next to a faster field
                    rc2, o2 = vlib.sh(ref, timeout=60)
                    r = o2.split("\n")
                    status = r[0].strip()
                    if status == "status 1":
                        cells += 1
                        if rc1 == 0:
                            ascii_bad.append(("library call fails but dirfile2ascii exits 0", cmd, o1[:200], o2[:200]))
                        continue
                    want = r[1:]
                    got = o1.split("\n")
                    # primary comparison: the extracted Coq model of the print loop decides which element of what
                    # gd_getdata returned goes where
                    rcd, od = vlib.sh([os.path.join(tools, "utilref"), "dump", a, str(ff), str(nf), prec] + fs, timeout=60)
                    if od.startswith("status 0") and "readerror" not in od:
                        exp = model_expected(drv, od.rstrip("\n"), fs, prec, zero, delim, skip)
                        if exp is not None:
                            gl = o1.split("\n")
                            if gl and gl[-1] == "":
                                gl = gl[:-1]
                            model_cells += sum(1 for l in exp for c in l if c is not None)
                            if rc1 != 0 or not lines_match(gl, exp, delim):
                                model_bad.append((cmd, o1[:300], "\n".join(delim.join("~" if c is None else c for c in l) for l in exp)[:300]))
                    ok = rc1 == 0 and len(got) == len(want)
                    if ok:
                        for g, w in zip(got, want):
                            # "~" = interpolated column (not compared); everything else must match literally
                            pat = re.escape(delim).join(".*?" if t == "~" else re.escape(t) for t in w.split(delim))
                            if not re.fullmatch(pat, g, re.S):
                                ok = False
                                break
                            cells += sum(1 for y in w.split(delim) if y != "~" and y != "")
                    if not ok:
                        ascii_bad.append(("output differs from cell-by-cell gd_getdata (exit %d)" % rc1, cmd, o1[:300], "\n".join(want)[:300]))
    if ascii_bad:
        found_any = True
        what, cmd, o1, o2 = ascii_bad[0]
        chk.violation("util/dirfile2ascii", "dirfile2ascii: %s: %s\n got: %r\nwant: %r (%d such runs)" % (what, " ".join(cmd[1:]), o1, o2, len(ascii_bad)),
                      {"kind": "impl-vs-spec", "cmd": cmd, "got": o1, "want": o2, "count": len(ascii_bad),
                       "format": open(os.path.join(a, "format")).read()})
    if model_bad and not ascii_bad:
        cmd, o1, o2 = model_bad[0]
        chk.violation("model/dirfile2ascii", "correspondence broken: dirfile2ascii %s prints %r, the model of its print loop (coq/C20/Ascii2.v) applied to the "
                      "gd_getdata output gives %r (%d such runs); the cell-by-cell library reference agrees with the tool" % (" ".join(cmd[1:]), o1, o2, len(model_bad)),
                      {"kind": "model-vs-impl", "cmd": cmd, "got": o1, "model": o2, "count": len(model_bad)}, found=False)
    # 5. checkdirfile
    nchk = 0
    for i in range(9 if not chk.thorough else 45):
        sub = vlib.random.Random(rng.getrandbits(32))
        variant = i % 3
        make_dirfile(a, sub, variant)
        if i % 9 == 8:
            os.unlink(os.path.join(a, "format"))
        rc1, o1 = vlib.sh([os.path.join(tools, "checkdirfile"), a], timeout=60)
        rc2, o2 = vlib.sh([os.path.join(tools, "utilref"), "check", a], timeout=60)
        ref = dict(l.split(" ", 1) for l in o2.strip().split("\n") if " " in l)
        nchk += 1
        n_syn = len(re.findall(r"^  syntax error:", o1, re.M))
        m = re.search(r"Found (\d+) problems? in (\d+)", o1)
        nprob = int(m.group(1)) if m else (0 if "No problems found" in o1 else None)
        bad = None
        # the extracted model of checkdirfile's reporting logic (coq/C20/Ascii2.v) decides what must be printed
        op = 2 if "fatal" in o2 else (1 if ref.get("open", "0") not in ("0",) else 0)
        ndang = int(ref.get("dangling", 0)); nprob_ref = int(ref.get("problems", 0)); nent = int(ref.get("entries", 0))
        rcm, om = vlib.sh([drv], inp=("C %d %s %d %d %d %d\n" % (op, ref.get("cb", "0"), nprob_ref - ndang, max(nent - ndang, nprob_ref - ndang), ndang,
                                                             1 if ref.get("nframes") == "err" else 0)).encode(), timeout=60)
        mm = re.match(r"exit (\d+) syntax (\d+) problems (\d+)", om.strip())
        if not mm:
            bad = "model driver failed: " + om[:100]
        elif op != 2 and (int(mm.group(1)) != rc1 or int(mm.group(2)) != n_syn or int(mm.group(3)) != (nprob if nprob is not None else -1)):
            bad = "model of checkdirfile says exit %s, %s syntax lines, %s problems; the tool: exit %d, %d, %s" % (mm.group(1), mm.group(2), mm.group(3), rc1, n_syn, nprob)
        elif op == 2 and int(mm.group(1)) != rc1:
            bad = "model of checkdirfile says exit %s on a fatal open error; the tool exits %d" % (mm.group(1), rc1)
        if bad:
            pass
        elif "fatal" in o2:
            if rc1 != 1 or "getdata error" not in o1:
                bad = "gd_open fails (error %s) but checkdirfile exits %d without reporting it" % (ref.get("open"), rc1)
        else:
            if n_syn != int(ref["cb"]):
                bad = "%d syntax-error lines printed, the parser reported %s" % (n_syn, ref["cb"])
            elif (int(ref["cb"]) > 0) != ("with syntax errors" in o1):
                bad = "syntax error summary missing/spurious"
            elif nprob != int(ref["problems"]):
                bad = "reports %s problems, gd_validate/alias check finds %s" % (nprob, ref["problems"])
            elif (ref["nframes"] == "err") != (rc1 == 1):
                bad = "exit status %d, gd_nframes %s" % (rc1, ref["nframes"])
            elif ref["nframes"] != "err" and ("Found %s frame" % ref["nframes"]) not in o1:
                bad = "frame count not reported as %s" % ref["nframes"]
        if bad:
            found_any = True
            chk.violation("util/checkdirfile", "checkdirfile: " + bad, {"kind": "impl-vs-spec", "stdout": o1[-1500:], "reference": o2,
                                                                         "format": open(os.path.join(a, "format")).read() if os.path.exists(os.path.join(a, "format")) else None})
            break
    # known-finding confirmation comes from the violations above (downgraded by key); nothing else to replay
    if trans_problems and not found_any:
        chk.violation("translator", "translator cannot read the binding: " + "; ".join(trans_problems[:3]),
                      {"kind": "translator", "problems": trans_problems}, found=False)
    if not proved and not found_any:
        chk.violation("proof", "Properties_C20 does not check (the binding no longer matches the documented mapping, or a wrapper changed): " +
                      getattr(chk, "proof_log", "")[-1500:],
                      {"kind": "proof", "theorem": "Properties_C20", "log": getattr(chk, "proof_log", "")[-4000:],
                       "hint": "coqc output shows which of forwarding_partial / api_wrapped / argument_names_agree / entry_copy_lossless / ctor_types_partial failed; "
                               "`Compute (uncovered cxx_table doc_table)` lists the methods"}, found=False)
    chk.cov["evaluations"] = ncmp + cells + nchk
    chk.cov["distinct_nontrivial"] = ncmp + cells + nchk
    chk.cov["cxx_comparisons"] = ncmp
    chk.cov["ascii_cells"] = cells
    chk.cov["ascii_cells_by_extracted_model"] = model_cells
    chk.cov["checkdirfile_runs"] = nchk
    chk.cov["rule"] = ("%d x 5 twin dirfiles (valid / dangling inputs and aliases / syntax errors, with and without a parser callback, read-only): every "
                       "Dirfile, Fragment and Entry method with its C counterpart -- getters of every entry and metaentry against gd_entry, list and "
                       "count functions per type, %d rounds of GetData/PutData/Seek/Tell/FrameNum/GetCarray/.. with generated arguments, Add of an entry "
                       "built by each C++ constructor against gd_add of the hand-built gd_entry_t, every setter against gd_alter_entry, fragment setters, "
                       "include/uninclude, rename/move/delete, flush/close; then the two directory trees are compared. dirfile2ascii: field sets of equal and "
                       "different rates x frame ranges (F, F:N, F-M, -1/N, past EOF) x skip 0/1/2/5 x precision/fill/delimiter/conversions, compared cell by "
                       "cell with single-sample gd_getdata reads; checkdirfile on valid/dangling/syntax-error/missing dirfiles against callback and "
                       "gd_validate counts. A comparison is one (method, arguments) pair or one printed cell") % (ndf, rounds)
    chk.sample({"cxx_comparisons": ncmp, "ascii_cells": cells, "checkdirfile_runs": nchk})
    return chk.finish()


if __name__ == "__main__":
    sys.exit(main())
