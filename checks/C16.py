#!/usr/bin/env python3
"""C16 -- reported extents agree with what can be read.

proof:   Properties_C16.v (count = min(n, max(0, gd_eof - s)) on the region where
         the read path is proved and no end-of-field was clamped; gd_bof is the
         first all-real sample for fields without PHASE; gd_nframes)
tie:     correspondence of the extracted get_eof/get_bof/nframes (flimits.c,
         nframes.c as they are) with gd_eof64/gd_bof64/gd_nframes64/gd_spf of
         the freshly built library, on the dirfiles generated for C01
search:  the property itself is evaluated on the implementation: every
         gd_getdata count against the implementation's own gd_eof; gd_bof
         against the first all-real sample; gd_nframes against the file size."""
import sys, os, json, time, shutil, struct, importlib
sys.path.insert(0, os.path.join(os.path.dirname(os.path.abspath(__file__)), "..", "bin"))
sys.path.insert(0, os.path.dirname(os.path.abspath(__file__)))
import vlib
G = importlib.import_module("C01")

PID = "C16"
KEY = {
    "alloczero": "extents/count-vs-eof/zero-length-buffer-internal-error",
    "mplexseek": "extents/count-vs-eof/mplex-lookback-reseek-range-error",
    "unaligned": "extents/count-vs-eof/multirate-unaligned-start",
    "mplexrate": "extents/count-vs-eof/mplex-multirate",
}
PRIO = ["alloczero", "mplexseek", "unaligned", "mplexrate"]
K_CLAMP = "extents/eof-bof-clamped-inside-nested-phase"
K_BOFPHASE = "extents/bof-of-fields-with-phase"
K_STALE = "extents/scalar-parameter-not-resolved-before-first-read"
K_IMAG = "extents/imaginary-part-of-real-field-ignores-eof"


def parse_E_impl(l):
    p = l.split()
    if len(p) != 4 or p[0] != "E":
        return None
    return {"eof": int(p[1]), "bof": int(p[2]), "spf": int(p[3])}


def parse_E_model(l):
    # E <impl_eof> <impl_bof> <spf>|<spec_eof> <spec_bof>|<first_real>|<noclamp> <nophase>
    if not l.startswith("E "):
        return None
    a, b, c, d = l[2:].split("|")
    a = a.split(); b = b.split(); d = d.split()
    return {"eof": None if a[0] == "none" else int(a[0]), "bof": int(a[1]), "spf": int(a[2]),
            "spec_eof": None if b[0] == "none" else int(b[0]), "spec_bof": int(b[1]),
            "first_real": int(c), "noclamp": d[0] == "true", "nophase": d[1] == "true"}


def witness_cases(rng):
    h = lambda vals: " ".join("%x" % G.dbits(v) for v in vals)
    W = []

    def mk(idx, fmt, raws, drv, qs, names):
        c = G.Case.__new__(G.Case)
        c.rng = rng; c.idx = idx; c.files = {"format": ("/ENCODING none\n/ENDIAN little\n" + fmt + "/REFERENCE a\n").encode()}
        for name, vals in raws.items():
            c.files[name] = b"".join(struct.pack("<d", v) for v in vals)
        c.drv = ["reset", "def INDEX index"] + drv
        c.qs = qs
        c.fields = [(nm, "witness", 1, 1, False, False) for nm in names]
        c.raws = [(0, "a", 1, 0, 0)]
        c.ref = c.raws[0]
        c.lb = -1
        return c
    a20 = list(range(1, 21))
    W.append(mk(900101, "a RAW FLOAT64 3\nb RAW FLOAT64 2\nm MULTIPLY a b\n", {"a": a20, "b": [1]},
                ["raw 0 9 3 0 20 " + h(a20), "raw 1 9 2 0 1 " + h([1]), "def a raw 0", "def b raw 1", "def m multiply a b"],
                [("m", 9, 1, 2)], ["m"]))
    W[-1].raws = [(0, "a", 3, 0, 20)]; W[-1].ref = W[-1].raws[0]
    a4 = [1, 2, 3, 4]
    W.append(mk(900102, "a RAW FLOAT64 1\np PHASE a 10\nq PHASE p -8\n", {"a": a4},
                ["raw 0 9 1 0 4 " + h(a4), "def a raw 0", "def p phase a 10", "def q phase p -8"],
                [("q", 9, 0, 10)], ["q"]))
    W[-1].raws = [(0, "a", 1, 0, 4)]; W[-1].ref = W[-1].raws[0]
    # open findings, replayed on every run
    a12 = list(range(1, 13)); b21 = list(range(1, 22))
    W.append(mk(900103, "/FRAMEOFFSET 2\na RAW FLOAT64 2\nb RAW FLOAT64 7\nf3 PHASE b -1\nm MULTIPLY a f3\n", {"a": a12, "b": b21},
                ["raw 0 9 2 2 12 " + h(a12), "raw 1 9 7 2 21 " + h(b21), "def a raw 0", "def b raw 1", "def f3 phase b -1", "def m multiply a f3"],
                [("m", 9, 3, 4)], ["m"]))
    W[-1].raws = [(0, "a", 2, 2, 12)]; W[-1].ref = W[-1].raws[0]
    i20 = [0, 1] * 10
    W.append(mk(900104, "a RAW FLOAT64 1\ni RAW FLOAT64 1\np PHASE i 6\nx MPLEX a p 2 0\n", {"a": a20, "i": i20},
                ["raw 0 9 1 0 20 " + h(a20), "raw 1 9 1 0 20 " + h(i20), "def a raw 0", "def i raw 1", "def p phase i 6", "def x mplex a p 2 0"],
                [("x", 9, 0, 1)], ["x"]))
    W[-1].raws = [(0, "a", 1, 0, 20)]; W[-1].ref = W[-1].raws[0]
    return W


def main():
    chk = vlib.Check(PID)
    G.load_staged_known(chk, PID)
    t0 = time.time()
    tr_problems = G.read_variant(chk)
    proved = chk.prove("Properties_C16")
    chk.cov["trusted_base"] += [
        "Coq 8.16.1 kernel, vm_compute (no native_compute)",
        "hand-written models coq/C16/Limits.v (flimits.c, nframes.c) and coq/C01/Read.v (getdata.c), tied on every run to the library built from the working tree by the correspondence below",
        "count_is_eof_partial rests on C01's read_matches_spec_partial (same development)",
        "extraction: ExtrOcamlBasic only; OCaml 4.13 driver ocaml/C16/driver.ml (copy of ocaml/C01/driver.ml); C harness harness/C01/rd.c",
        "generator checks/C01.py, judge checks/C16.py (python3)",
    ]
    chk.assumptions += [
        "RAW leaves are stored unencoded, gzip, bzip2, lzma or text (so gd_eof/gd_nframes go through those codecs' size methods); SIE/flac/slim/zzip are not covered; the model sees decoded samples (decoding itself is C02/C04's subject)",
        "agreement immediately after appends through the same handle is probed directly on the library (raw, text, gzip; RAW, PHASE and MULTIPLY fields) against arithmetic expectations, not modelled in Coq",
        "real-valued data; no representation suffixes in the model (the .i suffix is probed directly on the library)",
        "the double comparison ds1/spf1 > ds/spf in _GD_GetBOF is taken as exact",
    ]
    try:
        impl = vlib.build_impl()
        exe = vlib.build_harness(impl, os.path.join(vlib.VERIF, "harness/C01/rd.c"))
        ok, log = vlib.coq_make(["C01/Exec.vo"])
        drv = vlib.build_ocaml_driver(PID, "C16/Extract.v", "ocaml/C16/driver.ml") if ok else None
    except vlib.BuildError as e:
        chk.violation("build", "build failed: " + str(e)[:2000], {"kind": "build", "log": str(e)}, found=False)
        return chk.finish()
    if drv is None:
        chk.violation("model-build", "Coq model does not compile: " + log[-1500:], {"kind": "model-build", "log": log[-4000:]}, found=False)
        return chk.finish()
    root = vlib.scratch("C16-run-")
    ncases, nq = (3000, 12) if not chk.thorough else (20000, 20)
    st = {"queries": 0, "count_ok": 0, "count_bad": 0, "fields": 0, "eof_model_ok": 0, "bof_model_ok": 0, "bof_checked": 0,
          "nframes": 0, "bykey": {}, "sigs": set()}
    seen = {}

    def viol(key, desc, replay, found=True):
        st["bykey"][key] = st["bykey"].get(key, 0) + 1
        if key not in seen:
            seen[key] = 1
            chk.violation(key, desc, replay, found)

    batches = 1 if not chk.thorough else 10
    plan = [(b, exe, False) for b in range(batches)]
    # "every sample below gd_eof is readable" also on ONE handle after the tail of the field was read: the read
    # histories of checks/C01.py (tail, sample 0, small start, middle, random start) over fields larger than the
    # decoders' windows, every encoding, on a library built with hook H1 (64-byte raw/bzip2/lzma buffers)
    try:
        impl_s = vlib.build_impl("", G.SMALL_BUFFERS)
        plan.append((batches, vlib.build_harness(impl_s, os.path.join(vlib.VERIF, "harness/C01/rd.c")), True))
    except vlib.BuildError as e:
        chk.violation("build", "small-buffer build failed: " + str(e)[:1500], {"kind": "build", "log": str(e)}, found=False)
    for (b, bexe, big) in plan:
        if big:
            cases = G.generate(chk, 96 if not chk.thorough else 800, 6, simple_frac=0.5, depth_max=1, big=True)
            for c in cases:
                c.idx += 500000
            q0 = st["queries"]
        else:
            cases = G.generate(chk, ncases // batches, nq, depth_max=6 if not chk.thorough else 12)
            for c in cases:
                c.idx += b * 100000
        if b == 0:
            cases += witness_cases(chk.rng)
        broot = os.path.join(root, "b%d" % b)
        os.makedirs(broot)
        problems = G.run_cases(cases, bexe, drv, broot, jobs=vlib.NPROC, want_extents=True)
        for p in problems[:3]:
            chk.violation("harness", p, {"kind": "harness", "detail": p}, found=False)
        for c in cases:
            if c.open_err != "0":
                continue
            # extents asked on the fresh handle, before any read, must be the ones reported after the reads
            for (f, l0), (f1, li, lm) in zip(getattr(c, "ext0", []), c.ext):
                e0, e1 = parse_E_impl(l0), parse_E_impl(li)
                if e0 is None or e1 is None or e0 == e1:
                    continue
                st["ext_history"] = st.get("ext_history", 0) + 1
                viol(K_STALE, "gd_eof/gd_bof/gd_spf(%s) on the freshly opened dirfile = %s, after gd_getdata calls on other windows = %s\n%s" % (
                    f[0], l0, li, c.format_text()), {"kind": "extents-history", "format": c.format_text(), "field": f[0], "before_reads": l0, "after_reads": li,
                    "how": "printf 'O <dir>\\nE %s\\nG %s 9 0 5\\nE %s\\n' | harness/C01/rd" % (f[0], f[0], f[0])})
            ext = {}
            for (f, li, lm) in c.ext:
                ei, em = parse_E_impl(li), parse_E_model(lm)
                if ei is None or em is None:
                    continue          # block crashed before the extent queries
                ext[f[0]] = (ei, em)
                st["fields"] += 1
                base = {"kind": "extents", "format": c.format_text(), "field": f[0], "impl": ei, "model": em,
                        "data_files": {k: v.hex() for k, v in c.files.items() if not k.endswith("format") and not k.endswith(".txt")},
                        "tables": {k: v.decode() for k, v in c.files.items() if k.endswith(".txt")},
                        "how": "printf 'O <dir>\\nE %s\\n' | harness/C01/rd  -> E <gd_eof> <gd_bof> <gd_spf>" % f[0]}
                # --- correspondence of the extent model with the library
                m_eof = em["eof"] if em["eof"] is not None else -12
                if ei["eof"] == m_eof and ei["spf"] == em["spf"]:
                    st["eof_model_ok"] += 1
                else:
                    # judge against the documented end-of-field
                    s_eof = em["spec_eof"] if em["spec_eof"] is not None else -12
                    viol(K_STALE if f[0] in getattr(c, "scalar_phase", set()) else ("extents/eof-model" if ei["eof"] == s_eof else "extents/eof-wrong/" + f[1]),
                         "gd_eof(%s) = %d, gd_spf = %d; model of flimits.c: %s, %d; documented end-of-field: %s\n%s" % (
                             f[0], ei["eof"], ei["spf"], m_eof, em["spf"], s_eof, c.format_text()), base, found=ei["eof"] != s_eof)
                if ei["bof"] == em["bof"]:
                    st["bof_model_ok"] += 1
                else:
                    viol(K_STALE if f[0] in getattr(c, "scalar_phase", set()) else ("extents/bof-model" if ei["bof"] == em["spec_bof"] else "extents/bof-wrong/" + f[1]),
                         "gd_bof(%s) = %d; model of flimits.c: %d; documented beginning-of-field: %d\n%s" % (
                             f[0], ei["bof"], em["bof"], em["spec_bof"], c.format_text()), base, found=ei["bof"] != em["spec_bof"])
                # --- the property: gd_bof is the first sample made of real data only
                if 0 <= em["first_real"] <= 400 and ei["bof"] >= 0:
                    st["bof_checked"] += 1
                    if ei["bof"] != em["first_real"]:
                        if em["nophase"]:
                            viol("extents/bof-not-first-real/" + f[1],
                                 "gd_bof(%s) = %d but the first sample computed from real data only is %d (no PHASE involved)\n%s" % (
                                     f[0], ei["bof"], em["first_real"], c.format_text()), base)
                        else:
                            viol(K_BOFPHASE,
                                 "gd_bof(%s) = %d but the first sample computed from real data only is %d\n%s" % (
                                     f[0], ei["bof"], em["first_real"], c.format_text()), base)
            # --- the property: count = min(n, max(0, gd_eof - s)) on the implementation itself
            for qi, (q, im, model, spec, tags) in enumerate(c.res):
                if q[0] not in ext:
                    continue
                ei, em = ext[q[0]]
                st["queries"] += 1
                s, n = q[2], q[3]
                e = ei["eof"]
                want = n if e == -12 else (min(n, max(0, e - s)) if e >= 0 else None)
                if want is None:
                    continue
                got = -1 if im.get("crash") else im["count"]
                st["sigs"].add((tuple(tags), em["noclamp"], got, want, q[1]))
                if got == want and (im["err"] == 0 or n == 0):
                    st["count_ok"] += 1
                    continue
                st["count_bad"] += 1
                judged = [t for t in PRIO if t in tags]
                rp = {"kind": "count-vs-eof", "format": c.format_text(), "query": {"field": q[0], "return_type": G.TYPES[q[1]], "first_sample": s, "num_samples": n},
                      "gd_eof": e, "returned": got, "error": im["err"], "expected": want, "uncovered_clauses": tags, "noclamp": em["noclamp"],
                      "data_files": {k: v.hex() for k, v in c.files.items() if not k.endswith("format") and not k.endswith(".txt")},
                      "tables": {k: v.decode() for k, v in c.files.items() if k.endswith(".txt")},
                      "earlier_calls_on_the_handle": [r[0] for r in c.res[:qi]],
                      "library_build": G.SMALL_BUFFERS if big else "default",
                      "how": "printf 'O <dir>\\nE %s\\nG %s %d %d %d\\n' | harness/C01/rd" % (q[0], q[0], q[1], s, n)}
                if q[0] in getattr(c, "scalar_phase", set()) and e != (em["eof"] if em["eof"] is not None else -12):
                    key = K_STALE       # the gd_eof used here is itself the stale one
                elif judged:
                    key = KEY[judged[0]]
                elif not em["noclamp"]:
                    key = K_CLAMP
                elif "rawpad" in tags or "mplexneg" in tags:
                    key = "extents/count-vs-eof/unexpected/" + ",".join(tags)
                else:
                    key = "extents/count-vs-eof/covered-region"
                viol(key, "gd_getdata(%s, first_sample=%d, n=%d) returns %s samples (error %d) but gd_eof = %d, so min(n, max(0, eof - s)) = %d (clauses: %s)%s\n%s" % (
                    q[0], s, n, "a crash instead of" if got < 0 else got, im["err"], e, want, ",".join(tags),
                    "; earlier calls on the handle: %s" % ["gd_getdata(%s, %d, %d)" % (r[0][0], r[0][2], r[0][3]) for r in c.res[:qi]][-4:] if big else "",
                    c.format_text()), rp)
            # --- gd_nframes
            li = c.nfr[0].split()
            if len(li) == 2 and li[0] == "N" and c.raws:
                st["nframes"] += 1
                rid, name, spf, fo, nsamp = getattr(c, "ref", None) or c.raws[0]        # the /REFERENCE field (any fragment)
                want = nsamp // spf + fo
                if int(li[1]) != want:
                    viol("extents/nframes", "gd_nframes = %s but the reference field %s has %d complete frames and frame offset %d\n%s" % (
                        li[1], name, nsamp // spf, fo, c.format_text()), {"kind": "nframes", "format": c.format_text()})
                lm = c.nfr[1]
                if lm.startswith("N ") and lm[2:].split("|")[0] != li[1]:
                    viol("extents/nframes-model", "model of nframes.c gives %s, library %s" % (lm, li[1]), {"kind": "nframes-model"}, found=False)
            if c.idx == 900101:
                for (q, im, model, spec, tags) in c.res:
                    if q[0] in ext and ext[q[0]][0]["eof"] == 1 and im["count"] == 1:
                        chk.known_confirm(KEY["unaligned"], "witness 900101 reproduced")
            if c.idx == 900102:
                for (q, im, model, spec, tags) in c.res:
                    if q[0] in ext and ext[q[0]][0]["eof"] == 8 and im["count"] == 2 and ext[q[0]][0]["bof"] == 8:
                        chk.known_confirm(K_CLAMP, "witness 900102 reproduced")
                        chk.known_confirm(K_BOFPHASE, "witness 900102 reproduced")
        if big:
            st["history_queries_small_buffers"] = st["queries"] - q0
        shutil.rmtree(broot, ignore_errors=True)

    # --- direct probe: the imaginary part of a real field
    pd = os.path.join(root, "imag")
    os.makedirs(pd)
    with open(os.path.join(pd, "format"), "w") as fh:
        fh.write("/ENCODING none\n/ENDIAN little\na RAW FLOAT64 1\n")
    with open(os.path.join(pd, "a"), "wb") as fh:
        fh.write(b"".join(struct.pack("<d", v) for v in range(30)))
    rc, out = G.run_stream([exe], "O %s\nE a\nG a.i 9 100 5\nG a.i 9 28 5\nG a.r 9 28 5\nC\n" % pd, env=G.HENV)
    L = out.split("\n")
    try:
        eofa = int(L[1].split()[1]); c1 = int(L[2].split()[2]); c2 = int(L[3].split()[2]); c3 = int(L[4].split()[2])
        if (c1, c2) != (0, 2):
            viol(K_IMAG, "a RAW FLOAT64 1 with 30 samples: gd_eof(a) = %d, yet gd_getdata(\"a.i\", first_sample=100, n=5) returns %d samples and from sample 28 returns %d (a.r returns %d)" % (eofa, c1, c2, c3),
                 {"kind": "imag-repr", "format": "a RAW FLOAT64 1 (30 samples)", "calls": ["G a.i 9 100 5", "G a.i 9 28 5"], "output": L[:5]})
    except (IndexError, ValueError):
        chk.violation("harness", "imaginary-part probe failed: %r" % out[:300], {"kind": "harness"}, found=False)

    # --- direct probe: extents immediately after appends through the same handle
    st["append_probes"] = 0
    for enc, ext in (("none", ""), ("text", ".txt"), ("gzip", ".gz")):
        for spf, fo, n0 in ((3, 2, 7), (1, 0, 0), (5, 1, 10)):
            pd = os.path.join(root, "app-%s-%d" % (enc, spf))
            os.makedirs(pd)
            with open(os.path.join(pd, "format"), "w") as fh:
                fh.write("/ENCODING %s\n/ENDIAN little\n/FRAMEOFFSET %d\nr RAW FLOAT64 %d\np PHASE r 2\nm MULTIPLY r r\n/REFERENCE r\n" % (enc, fo, spf))
            vals = [float(i) for i in range(n0)]
            if enc == "text":
                data = "".join("%r\n" % v for v in vals).encode()
            else:
                data = b"".join(struct.pack("<d", v) for v in vals)
                if enc == "gzip":
                    import gzip
                    data = gzip.compress(data)
            with open(os.path.join(pd, "r" + ext), "wb") as fh:
                fh.write(data)
            e0 = fo * spf + n0
            k1, k2 = 5, 4
            cmds = ["W %s" % pd, "E r", "N", "P r %d %d" % (e0, k1), "E r", "N", "G r 9 %d 100" % (e0 - 1 if e0 else 0), "E p", "E m",
                    "P r %d %d" % (e0 + k1, k2), "E r", "N", "G m 9 0 1000", "C"]
            rc, out = G.run_stream([exe], "\n".join(cmds) + "\n", env=G.HENV)
            L = [l for l in out.split("\n") if l]
            e1, e2 = e0 + k1, e0 + k1 + k2
            want = ["W 0", None, "N %d" % (n0 // spf + fo), "P 0 %d" % k1, None, "N %d" % ((n0 + k1) // spf + fo),
                    None, None, None, "P 0 %d" % k2, None, "N %d" % ((n0 + k1 + k2) // spf + fo), None, "C"]
            wantE = {1: e0, 4: e1, 7: max(0, e1 - 2), 8: e1, 10: e2}
            wantG = {6: e1 - (e0 - 1 if e0 else 0), 12: e2}
            bad = []
            if len(L) != len(cmds):
                bad.append("harness output truncated: %r" % L[-2:])
            else:
                for i, l in enumerate(L):
                    if want[i] is not None and l != want[i]:
                        bad.append("%s -> %s (expected %s)" % (cmds[i], l, want[i]))
                    if i in wantE and (parse_E_impl(l) or {}).get("eof") != wantE[i]:
                        bad.append("%s -> %s (expected eof %d)" % (cmds[i], l, wantE[i]))
                    if i in wantG and int(l.split()[2]) != wantG[i]:
                        bad.append("%s -> count %s (expected %d)" % (cmds[i], l.split()[2], wantG[i]))
            st["append_probes"] += 1
            if enc == "gzip" and L and len(L) > 3 and L[3].startswith("P -"):
                continue          # writing this encoding is not supported by the build: nothing to compare
            if bad:
                stale = all("E r" in b or "E p" in b or "E m" in b for b in bad) and enc != "none"
                viol("extents/eof-stale-after-write" if stale else "extents/after-append/%s" % enc, "extents right after gd_putdata through the same handle (%s encoding, spf %d, frame offset %d, %d samples): %s" % (
                    enc, spf, fo, n0, "; ".join(bad[:4])), {"kind": "append", "format": open(os.path.join(pd, "format")).read(), "commands": cmds, "output": L})

    chk.cov["evaluations"] = st["queries"] + st["fields"]
    chk.cov["distinct_nontrivial"] = len([s for s in st["sigs"] if s[3] > 0 or s[2] > 0])
    chk.cov["rule"] = ("the dirfiles and windows generated for C01 (all real vector field types, rates {1,2,3,4,5,7,12}, frame offsets, partial frames, "
                       "PHASE shifts of both signs up to +-60 on fields of 0-100 samples); for every field gd_eof/gd_bof/gd_spf against the extracted "
                       "flimits.c model and the documented extents; for every window the returned count against min(n, max(0, gd_eof - s)); "
                       "gd_nframes against the reference field's file; distinct_nontrivial = distinct (violated clauses, clamped?, returned, expected, return type)")
    chk.cov["distribution"] = {k: v for k, v in st.items() if k != "sigs"}
    if tr_problems and not chk.violations:
        chk.violation("translator", "the source matches neither variant of the model: " + "; ".join(tr_problems[:3]),
                      {"kind": "translator", "problems": tr_problems}, found=False)
    if not proved and not chk.violations:
        chk.violation("proof", "Properties_C16 does not check: " + getattr(chk, "proof_log", "")[-1500:],
                      {"kind": "proof", "theorem": "Properties_C16", "log": getattr(chk, "proof_log", "")[-4000:]}, found=False)
    chk.notes.append("wall %.1fs" % (time.time() - t0))
    return chk.finish()


if __name__ == "__main__":
    sys.exit(main())
